import EvyV.Model.SymTab
/-
C17 (slot allocation) — two variables that are alive at the same time never
share a storage slot, and `LocalCount` bounds every local slot handed out;
for ALL sequences of Push / Pop / Define / Resolve.
-/
namespace EvyV.C17
open EvyV.SymTab

def WfGlobal (g : Tab) : Prop :=
  (∀ s ∈ g.store, s.isGlobal = true ∧ s.index < g.index) ∧
  (g.store.map (·.index)).Nodup ∧
  (∀ s ∈ g.popped, s.isGlobal = false ∧ s.index < g.nestedMax)

def WfLocal (t : Tab) : Prop :=
  t.base ≤ t.index ∧
  (∀ s ∈ t.store, s.isGlobal = false ∧ t.base ≤ s.index ∧ s.index < t.index) ∧
  (t.store.map (·.index)).Nodup ∧
  (∀ s ∈ t.popped, s.isGlobal = false ∧ s.index < t.nestedMax)

/-- The invariant of a scope chain. -/
def Inv : Chain → Prop
  | [] => False
  | [g] => WfGlobal g
  | t :: o :: rest => WfLocal t ∧ t.base = (if rest = [] then 0 else o.index) ∧ Inv (o :: rest)

theorem inv_newGlobal : Inv newGlobal := by
  simp [newGlobal, Inv, WfGlobal]

theorem inv_push (c : Chain) (h : Inv c) : Inv (push c) := by
  match c, h with
  | [g], h =>
    simp only [push, Inv]
    exact ⟨⟨by simp, by simp, by simp, by simp⟩, by simp, h⟩
  | t :: o :: rest, h =>
    simp only [push, Inv]
    refine ⟨⟨by simp, by simp, by simp, by simp⟩, by simp, h⟩

theorem wf_pop_into_global (t g : Tab) (ht : WfLocal t) (hg : WfGlobal g) :
    WfGlobal { g with nestedMax := max g.nestedMax (t.nestedMax + t.index),
                      popped := t.store ++ t.popped ++ g.popped } := by
  obtain ⟨_, h2, _, h4⟩ := ht
  obtain ⟨g1, g2, g3⟩ := hg
  refine ⟨g1, g2, ?_⟩
  intro s hs
  simp only [List.mem_append] at hs
  rcases hs with (hs | hs) | hs
  · have := h2 s hs; exact ⟨this.1, by simp only; omega⟩
  · have := h4 s hs; exact ⟨this.1, by simp only; omega⟩
  · have := g3 s hs; exact ⟨this.1, by simp only; omega⟩

theorem wf_pop_into_local (t o : Tab) (ht : WfLocal t) (ho : WfLocal o) :
    WfLocal { o with nestedMax := max o.nestedMax (t.nestedMax + t.index),
                     popped := t.store ++ t.popped ++ o.popped } := by
  obtain ⟨_, h2, _, h4⟩ := ht
  obtain ⟨o1, o2, o3, o4⟩ := ho
  refine ⟨o1, o2, o3, ?_⟩
  intro s hs
  simp only [List.mem_append] at hs
  rcases hs with (hs | hs) | hs
  · have := h2 s hs; exact ⟨this.1, by simp only; omega⟩
  · have := h4 s hs; exact ⟨this.1, by simp only; omega⟩
  · have := o4 s hs; exact ⟨this.1, by simp only; omega⟩

theorem inv_pop (c : Chain) (h : Inv c) : Inv (pop c) := by
  match c, h with
  | [g], h => simpa [pop] using h
  | [t, g], h =>
    simp only [Inv] at h
    simp only [pop, Inv]
    exact wf_pop_into_global t g h.1 h.2.2
  | t :: o :: o2 :: rest, h =>
    simp only [Inv] at h
    obtain ⟨ht, _, ho, hb, hrest⟩ := h
    simp only [pop, Inv]
    exact ⟨wf_pop_into_local t o ht ho, hb, hrest⟩

theorem lookup_mem (store : List Sym) (n : String) (s : Sym) (h : lookup store n = some s) : s ∈ store := by
  unfold lookup at h; exact List.mem_of_find?_eq_some h

theorem inv_define (c : Chain) (n : String) (h : Inv c) : Inv (define c n).1 := by
  match c, h with
  | [g], h =>
    simp only [define]
    cases hl : lookup g.store n with
    | some s => simpa using h
    | none =>
      obtain ⟨g1, g2, g3⟩ := h
      simp only [Inv, WfGlobal, List.isEmpty_nil]
      refine ⟨?_, ?_, g3⟩
      · intro s hs
        simp only [List.mem_cons] at hs
        rcases hs with rfl | hs
        · simp
        · have := g1 s hs; exact ⟨this.1, by omega⟩
      · simp only [List.map_cons, List.nodup_cons]
        refine ⟨?_, g2⟩
        intro hm
        simp only [List.mem_map] at hm
        obtain ⟨s, hs, he⟩ := hm
        have := (g1 s hs).2; omega
  | t :: o :: rest, h =>
    simp only [define]
    cases hl : lookup t.store n with
    | some s => simpa using h
    | none =>
      simp only [Inv] at h
      obtain ⟨⟨t1, t2, t3, t4⟩, hb, hrest⟩ := h
      simp only [Inv, WfLocal]
      refine ⟨⟨by omega, ?_, ?_, t4⟩, hb, hrest⟩
      · intro s hs
        simp only [List.mem_cons] at hs
        rcases hs with rfl | hs
        · simp; omega
        · have := t2 s hs; exact ⟨this.1, this.2.1, by omega⟩
      · simp only [List.map_cons, List.nodup_cons]
        refine ⟨?_, t3⟩
        intro hm
        simp only [List.mem_map] at hm
        obtain ⟨s, hs, he⟩ := hm
        have := (t2 s hs).2.2; omega

theorem inv_step (c : Chain) (op : Op) (h : Inv c) : Inv (step c op) := by
  cases op with
  | push => exact inv_push c h
  | pop => exact inv_pop c h
  | define n => exact inv_define c n h
  | resolve n => exact h

/-- every reachable symbol-table state satisfies the invariant -/
theorem inv_run (ops : List Op) : Inv (run ops) := by
  unfold run
  have : ∀ (c : Chain), Inv c → Inv (ops.foldl step c) := by
    induction ops with
    | nil => intro c h; exact h
    | cons op rest ih => intro c h; exact ih _ (inv_step c op h)
  exact this _ inv_newGlobal

/-- the local symbols that can be resolved from the current scope -/
def visibleLocals (c : Chain) : List Sym := (c.dropLast).flatMap (·.store)

theorem outer_below_base (t o : Tab) (rest : Chain) (h : Inv (t :: o :: rest)) :
    ∀ s ∈ visibleLocals (o :: rest), s.index < t.base := by
  induction rest generalizing t o with
  | nil => intro s hs; simp [visibleLocals] at hs
  | cons o2 rest ih =>
    intro s hs
    simp only [Inv] at h
    obtain ⟨_, hb, ho, hb2, hrest⟩ := h
    simp only [List.cons_ne_nil, if_false, reduceCtorEq] at hb
    simp only [visibleLocals, List.dropLast_cons₂, List.flatMap_cons, List.mem_append] at hs
    rcases hs with hs | hs
    · have := (ho.2.1 s hs).2.2; omega
    · have h2 : Inv (o :: o2 :: rest) := by simp only [Inv]; exact ⟨ho, hb2, hrest⟩
      have := ih o o2 h2 s (by simpa [visibleLocals] using hs)
      have := ho.1; omega

/-- **No slot sharing**: in every reachable state the local variables that are
simultaneously resolvable occupy pairwise distinct slots. -/
theorem visible_locals_distinct (c : Chain) (h : Inv c) :
    ((visibleLocals c).map (·.index)).Nodup := by
  induction c with
  | nil => simp [visibleLocals]
  | cons t rest ih =>
    match rest, h, ih with
    | [], h, _ => simp [visibleLocals]
    | o :: rest', h, ih =>
      have hlow := outer_below_base t o rest' h
      simp only [Inv] at h
      obtain ⟨ht, _, hrest⟩ := h
      have ih' := ih hrest
      simp only [visibleLocals, List.dropLast_cons₂, List.flatMap_cons, List.map_append]
      rw [List.nodup_append]
      refine ⟨ht.2.2.1, by simpa [visibleLocals] using ih', ?_⟩
      intro a ha b hb hab
      simp only [List.mem_map] at ha hb
      obtain ⟨sa, hsa, rfl⟩ := ha
      obtain ⟨sb, hsb, rfl⟩ := hb
      have h1 := (ht.2.1 sa hsa).2.1
      have h2 := hlow sb (by simpa [visibleLocals] using hsb)
      omega

theorem no_slot_sharing (ops : List Op) :
    ((visibleLocals (run ops)).map (·.index)).Nodup :=
  visible_locals_distinct _ (inv_run ops)

/-- global variables likewise occupy distinct global slots below GlobalCount. -/
theorem globals_distinct (ops : List Op) (g : Tab) (h : (run ops).getLast? = some g) :
    (g.store.map (·.index)).Nodup ∧ ∀ s ∈ g.store, s.index < globalCount (run ops) := by
  have hi := inv_run ops
  have : ∀ (c : Chain), Inv c → c.getLast? = some g → WfGlobal g := by
    intro c
    induction c with
    | nil => intro h; simp [Inv] at h
    | cons t rest ih =>
      match rest, ih with
      | [], _ => intro hinv hl; simp at hl; subst hl; simpa [Inv] using hinv
      | o :: rest', ih =>
        intro hinv hl
        simp only [Inv] at hinv
        exact ih hinv.2.2 (by simpa [List.getLast?_cons_cons] using hl)
  have wg := this _ hi h
  refine ⟨wg.2.1, fun s hs => ?_⟩
  simp only [globalCount, h]
  exact (wg.1 s hs).2

/-- **LocalCount bounds every local slot**: once all scopes are closed, every
local symbol handed out by a (now popped) scope has a slot below LocalCount, so
`OpGetLocal/OpSetLocal` operands are in range and the operand stack (which
starts at LocalCount) never overlaps a local. -/
theorem local_slots_below_localCount (ops : List Op) (g : Tab) (h : run ops = [g]) :
    ∀ s ∈ g.popped, s.isGlobal = false ∧ s.index < localCount (run ops) := by
  have hi := inv_run ops
  rw [h] at hi
  simp only [Inv] at hi
  intro s hs
  simpa [localCount, h] using hi.2.2 s hs

/-- ghost completeness: a local symbol defined in the current scope ends up in
the `popped` list of the enclosing table when the scope is closed (so the bound
above speaks about every local ever handed out). -/
theorem pop_records (t o : Tab) (rest : Chain) :
    ∀ s ∈ t.store ++ t.popped, ∃ o', (pop (t :: o :: rest)).head? = some o' ∧ s ∈ o'.popped := by
  intro s hs
  refine ⟨_, rfl, ?_⟩
  simp only [List.mem_append] at hs ⊢
  rcases hs with hs | hs
  · exact Or.inl (Or.inl hs)
  · exact Or.inl (Or.inr hs)

/-! Non-vacuity: a nested history; two live locals in different scopes. -/
example : (visibleLocals (run [.push, .define "a", .push, .define "b"])).map (·.index) = [1, 0] := by decide
example : localCount (run [.push, .define "a", .push, .define "b", .pop, .pop]) = 3 := by decide
example : run [.push, .define "a", .push, .define "b", .pop, .pop] ≠ [] := by decide

end EvyV.C17
