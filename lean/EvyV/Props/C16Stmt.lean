import EvyV.Model.StmtVM
import EvyV.Props.C16
/-!
C16, statements: compiled code behaves like the tree-walking evaluator for the statement fragment of
Model/StmtVM.lean (assignment to globals, if / else-if / else, while, break; num and bool values).

`compile_correct`: if the evaluator runs a program to normal completion with globals `g'`, then the
VM running the compiled code from address 0 halts with exactly the globals `g'` — or stops with its
division-by-zero error (which the property allows on the VM only). Never a type error, never a stack
underflow, never a wrong jump. By induction over the evaluator's step budget, with the usual
code-placement lemmas; no bound on program size, nesting or iteration count.
-/
namespace EvyV.StmtVM
open EvyV EvyV.ExprVM

variable {F : Type} (ops : NumOps F)

/-! ### sizes -/

mutual
theorem len_compS (brkT : Nat) : ∀ (base : Nat) (s : S F), (compS brkT base s).length = sizeS s
  | _, .assign i e => by simp [compS, sizeS]
  | _, .brk => by simp [compS, sizeS]
  | base, .whileS c body => by
    simp only [compS, sizeS, List.length_append, List.length_cons, List.length_nil, len_compB]
  | base, .ifS conds els => by
    simp only [compS, sizeS, List.length_append, len_compC, len_compB]
theorem len_compB (brkT : Nat) : ∀ (base : Nat) (b : List (S F)), (compB brkT base b).length = sizeB b
  | _, [] => by simp [compB, sizeB]
  | base, s :: r => by simp only [compB, sizeB, List.length_append, len_compS, len_compB]
theorem len_compC (brkT endA : Nat) : ∀ (base : Nat) (cs : List (E F × List (S F))), (compC brkT endA base cs).length = sizeC cs
  | _, [] => by simp [compC, sizeC]
  | base, (c, b) :: r => by
    simp only [compC, sizeC, List.length_append, List.length_cons, List.length_nil, len_compB, len_compC]
end

/-! ### code placement -/

/-- `xs` sits in `code` at address `p` -/
def codeAt (code : List (J F)) (p : Nat) (xs : List (J F)) : Prop :=
  ∃ pre post, code = pre ++ xs ++ post ∧ pre.length = p

theorem codeAt.left {code : List (J F)} {p : Nat} {xs ys : List (J F)} (h : codeAt code p (xs ++ ys)) : codeAt code p xs := by
  obtain ⟨pre, post, rfl, hp⟩ := h
  exact ⟨pre, ys ++ post, by simp, hp⟩

theorem codeAt.right {code : List (J F)} {p : Nat} {xs ys : List (J F)} (h : codeAt code p (xs ++ ys)) :
    codeAt code (p + xs.length) ys := by
  obtain ⟨pre, post, rfl, hp⟩ := h
  exact ⟨pre ++ xs, post, by simp, by simp [hp]⟩

theorem codeAt.cast {code : List (J F)} {p q : Nat} {xs : List (J F)} (h : codeAt code p xs) (e : p = q) : codeAt code q xs := e ▸ h

theorem codeAt.get {code : List (J F)} {p : Nat} {x : J F} {xs : List (J F)} (h : codeAt code p (x :: xs)) : code[p]? = some x := by
  obtain ⟨pre, post, rfl, hp⟩ := h
  subst hp
  simp

/-! ### runs of the VM -/

/-- where a run from `s` gets to: a state, or an error -/
inductive Out (code : List (J F)) : VMState F → VMState F ⊕ VMErr → Prop
  | here (s : VMState F) : Out code s (.inl s)
  | err (s : VMState F) (e : VMErr) : step ops code s = .error e → Out code s (.inr e)
  | next (s s' : VMState F) (o : VMState F ⊕ VMErr) : step ops code s = .ok s' → Out code s' o → Out code s o

theorem Out.trans {code : List (J F)} {s t : VMState F} {o : VMState F ⊕ VMErr}
    (h1 : Out ops code s (.inl t)) (h2 : Out ops code t o) : Out ops code s o := by
  generalize hx : (Sum.inl t : VMState F ⊕ VMErr) = x at h1
  induction h1 with
  | here s => cases hx; exact h2
  | err s e he => cases hx
  | next s s' o' hs _ ih => exact .next s s' o hs (ih hx)

/-- the run reaches `t`, or stops with the division-by-zero error -/
def Sim (code : List (J F)) (s t : VMState F) : Prop :=
  Out ops code s (.inl t) ∨ Out ops code s (.inr .divZero)

theorem Sim.refl (code : List (J F)) (s : VMState F) : Sim ops code s s := Or.inl (.here s)

theorem Sim.trans {code : List (J F)} {s t u : VMState F} (h1 : Sim ops code s t) (h2 : Sim ops code t u) : Sim ops code s u := by
  rcases h1 with h1 | h1
  · rcases h2 with h2 | h2
    · exact Or.inl (h1.trans ops h2)
    · exact Or.inr (h1.trans ops h2)
  · exact Or.inr h1

theorem Sim.step {code : List (J F)} {s t : VMState F} (h : step ops code s = .ok t) : Sim ops code s t :=
  Or.inl (.next s t _ h (.here t))

/-- a sequence of operator instructions -/
theorem ops_run (code : List (J F)) (g : List (V F)) : ∀ (is : List (I F)) (p : Nat) (st : List (V F)),
    codeAt code p (is.map J.op) →
    (∀ st', vmExec ops g is st = .ok st' → Out ops code ⟨p, st, g⟩ (.inl ⟨p + is.length, st', g⟩)) ∧
    (∀ e, vmExec ops g is st = .error e → Out ops code ⟨p, st, g⟩ (.inr e)) := by
  intro is
  induction is with
  | nil =>
    intro p st _
    constructor
    · intro st' h; simp [vmExec] at h; subst h; exact .here _
    · intro e h; simp [vmExec] at h
  | cons i rest ih =>
    intro p st hc
    have hget : code[p]? = some (J.op i) := codeAt.get (by simpa using hc)
    have hrest : codeAt code (p + 1) (rest.map J.op) := by
      have := codeAt.right (xs := [J.op i]) (ys := rest.map J.op) (by simpa using hc)
      simpa using this
    simp only [vmExec]
    cases hs : vmStep ops g st i with
    | error e =>
      constructor
      · intro st' h; simp at h
      · intro e' h
        simp at h; subst h
        exact .err _ _ (by simp [step, hget, hs])
    | ok st1 =>
      have hstep : step ops code ⟨p, st, g⟩ = .ok ⟨p + 1, st1, g⟩ := by simp [step, hget, hs]
      obtain ⟨ih1, ih2⟩ := ih (p + 1) st1 hrest
      constructor
      · intro st' h
        have := ih1 st' (by simpa using h)
        have e : p + 1 + rest.length = p + (rest.length + 1) := by omega
        rw [e] at this
        exact .next _ _ _ hstep this
      · intro e h
        exact .next _ _ _ hstep (ih2 e (by simpa using h))

/-- the code of an expression pushes its value -/
theorem expr_run (code : List (J F)) (g : List (V F)) (e : E F) (v : V F) (p : Nat) (st : List (V F))
    (hc : codeAt code p (ce e)) (h : evalE ops g e = some v) :
    Sim ops code ⟨p, st, g⟩ ⟨p + (ce e).length, v :: st, g⟩ := by
  obtain ⟨r1, r2⟩ := ops_run ops code g (compileE e) p st hc
  rcases C16.compile_expr_correct ops g e v st h with h1 | h1
  · left; simpa [ce] using r1 _ h1
  · right; exact r2 _ h1

/-! ### the simulation -/

def target (c : Compl) (fall brkT : Nat) : Nat := if c = .normal then fall else brkT

theorem sim (code : List (J F)) (n : Nat) :
    (∀ (g g' : List (V F)) (s : S F) (c : Compl) (brkT base : Nat) (st : List (V F)),
      execS ops n g s = some (c, g') → codeAt code base (compS brkT base s) →
      Sim ops code ⟨base, st, g⟩ ⟨target c (base + sizeS s) brkT, st, g'⟩) ∧
    (∀ (g g' : List (V F)) (b : List (S F)) (c : Compl) (brkT base : Nat) (st : List (V F)),
      execB ops n g b = some (c, g') → codeAt code base (compB brkT base b) →
      Sim ops code ⟨base, st, g⟩ ⟨target c (base + sizeB b) brkT, st, g'⟩) ∧
    (∀ (g g' : List (V F)) (cs : List (E F × List (S F))) (els : List (S F)) (c : Compl) (brkT base endA : Nat) (st : List (V F)),
      execC ops n g cs els = some (c, g') → endA = base + sizeC cs + sizeB els →
      codeAt code base (compC brkT endA base cs ++ compB brkT (base + sizeC cs) els) →
      Sim ops code ⟨base, st, g⟩ ⟨target c endA brkT, st, g'⟩) := by
  induction n with
  | zero => refine ⟨?_, ?_, ?_⟩ <;> intros <;> simp_all [execS, execB, execC]
  | succ n ih =>
    obtain ⟨ihS, ihB, ihC⟩ := ih
    refine ⟨?_, ?_, ?_⟩
    · intro g g' s c brkT base st h hc
      cases s with
      | assign i e =>
        simp only [execS] at h
        cases he : evalE ops g e with
        | none => simp [he] at h
        | some v =>
          simp only [he] at h
          split at h
          · rename_i hi
            simp at h; obtain ⟨rfl, rfl⟩ := h
            simp only [compS] at hc
            have h1 := expr_run ops code g e v base st hc.left he
            have hset : code[base + (ce e).length]? = some (J.setGlobal i) := codeAt.get hc.right
            have h2 : step ops code ⟨base + (ce e).length, v :: st, g⟩ = .ok ⟨base + (ce e).length + 1, st, g.set i v⟩ := by
              simp [step, hset, hi]
            have := (h1.trans ops (Sim.step ops h2))
            simpa [target, sizeS, Nat.add_assoc] using this
          · cases h
      | brk =>
        simp [execS] at h; obtain ⟨rfl, rfl⟩ := h
        simp only [compS] at hc
        have hj : code[base]? = some (J.jump brkT) := codeAt.get hc
        have h2 : step ops code ⟨base, st, g⟩ = .ok ⟨brkT, st, g⟩ := by simp [step, hj]
        simpa [target] using Sim.step ops h2
      | ifS conds els =>
        simp only [execS] at h
        simp only [compS] at hc
        have := ihC g g' conds els c brkT base (base + sizeC conds + sizeB els) st h rfl hc
        simpa [sizeS, Nat.add_assoc] using this
      | whileS cnd body =>
        simp only [execS] at h
        simp only [compS] at hc
        -- the pieces of the loop's code
        have hcond : codeAt code base (ce cnd) := hc.left.left.left
        have hjof : code[base + (ce cnd).length]? = some (J.jof (base + (ce cnd).length + 1 + sizeB body + 1)) :=
          codeAt.get hc.left.left.right
        have hbody : codeAt code (base + (ce cnd).length + 1) (compB (base + (ce cnd).length + 1 + sizeB body + 1) (base + (ce cnd).length + 1) body) :=
          hc.left.right.cast (by simp only [List.length_append, List.length_cons, List.length_nil]; omega)
        have hjmp : code[base + (ce cnd).length + 1 + sizeB body]? = some (J.jump base) := by
          have := codeAt.get hc.right
          have e : base + (ce cnd ++ [J.jof (base + (ce cnd).length + 1 + sizeB body + 1)] ++
              compB (base + (ce cnd).length + 1 + sizeB body + 1) (base + (ce cnd).length + 1) body).length =
              base + (ce cnd).length + 1 + sizeB body := by
            simp only [List.length_append, List.length_cons, List.length_nil, len_compB]; omega
          rw [e] at this; exact this
        cases hv : evalE ops g cnd with
        | none => simp [hv] at h
        | some v =>
          cases v with
          | num x => simp [hv] at h
          | bool bv =>
            have h1 := expr_run ops code g cnd (.bool bv) base st hcond hv
            cases bv with
            | false =>
              simp [hv] at h; obtain ⟨rfl, rfl⟩ := h
              have h2 : step ops code ⟨base + (ce cnd).length, .bool false :: st, g⟩ =
                  .ok ⟨base + (ce cnd).length + 1 + sizeB body + 1, st, g⟩ := by simp [step, hjof]
              have := h1.trans ops (Sim.step ops h2)
              simpa [target, sizeS, Nat.add_assoc] using this
            | true =>
              simp only [hv] at h
              have h2 : step ops code ⟨base + (ce cnd).length, .bool true :: st, g⟩ = .ok ⟨base + (ce cnd).length + 1, st, g⟩ := by
                simp [step, hjof]
              cases hb : execB ops n g body with
              | none => simp [hb] at h
              | some r =>
                obtain ⟨cb, g1⟩ := r
                have h3 := ihB g g1 body cb (base + (ce cnd).length + 1 + sizeB body + 1) (base + (ce cnd).length + 1) st hb hbody
                cases cb with
                | brk =>
                  simp [hb] at h; obtain ⟨rfl, rfl⟩ := h
                  have := (h1.trans ops (Sim.step ops h2)).trans ops h3
                  simpa [target, sizeS, Nat.add_assoc] using this
                | normal =>
                  simp only [hb] at h
                  have h4 : step ops code ⟨base + (ce cnd).length + 1 + sizeB body, st, g1⟩ = .ok ⟨base, st, g1⟩ := by
                    simp [step, hjmp]
                  have h5 := ihS g1 g' (.whileS cnd body) c brkT base st h (by simpa only [compS] using hc)
                  have h3' : Sim ops code ⟨base + (ce cnd).length + 1, st, g⟩ ⟨base + (ce cnd).length + 1 + sizeB body, st, g1⟩ := by
                    simpa [target] using h3
                  exact (((h1.trans ops (Sim.step ops h2)).trans ops h3').trans ops (Sim.step ops h4)).trans ops h5
    · intro g g' b c brkT base st h hc
      cases b with
      | nil =>
        simp [execB] at h; obtain ⟨rfl, rfl⟩ := h
        simpa [target, sizeB] using Sim.refl ops code ⟨base, st, g⟩
      | cons s r =>
        simp only [execB] at h
        simp only [compB] at hc
        cases hs : execS ops n g s with
        | none => simp [hs] at h
        | some x =>
          obtain ⟨cs, g1⟩ := x
          have h1 := ihS g g1 s cs brkT base st hs hc.left
          cases cs with
          | brk =>
            simp [hs] at h; obtain ⟨rfl, rfl⟩ := h
            simpa [target] using h1
          | normal =>
            simp only [hs] at h
            have hr : codeAt code (base + sizeS s) (compB brkT (base + sizeS s) r) := by
              have := hc.right; simpa [len_compS] using this
            have h2 := ihB g1 g' r c brkT (base + sizeS s) st h hr
            have h1' : Sim ops code ⟨base, st, g⟩ ⟨base + sizeS s, st, g1⟩ := by simpa [target] using h1
            have := h1'.trans ops h2
            simpa [sizeB, Nat.add_assoc] using this
    · intro g g' cs els c brkT base endA st h hend hc
      cases cs with
      | nil =>
        simp only [execC] at h
        simp only [compC, List.nil_append, sizeC, Nat.add_zero] at hc
        have := ihB g g' els c brkT base st h hc
        simpa [hend, sizeC] using this
      | cons cb r =>
        obtain ⟨cnd, b⟩ := cb
        simp only [execC] at h
        simp only [compC, List.append_assoc] at hc
        have hcond : codeAt code base (ce cnd) := hc.left
        have hjof : code[base + (ce cnd).length]? = some (J.jof (base + (ce cnd).length + 1 + sizeB b + 1)) :=
          codeAt.get hc.right
        have hblock : codeAt code (base + (ce cnd).length + 1) (compB brkT (base + (ce cnd).length + 1) b) := by
          have := (hc.right.right (xs := [J.jof (base + (ce cnd).length + 1 + sizeB b + 1)])).left
          simpa [Nat.add_assoc] using this
        have hjmp : code[base + (ce cnd).length + 1 + sizeB b]? = some (J.jump endA) := by
          have := codeAt.get ((hc.right.right (xs := [J.jof (base + (ce cnd).length + 1 + sizeB b + 1)])).right (xs := compB brkT (base + (ce cnd).length + 1) b))
          simpa [len_compB, Nat.add_assoc] using this
        cases hv : evalE ops g cnd with
        | none => simp [hv] at h
        | some v =>
          cases v with
          | num x => simp [hv] at h
          | bool bv =>
            have h1 := expr_run ops code g cnd (.bool bv) base st hcond hv
            cases bv with
            | true =>
              simp only [hv] at h
              have h2 : step ops code ⟨base + (ce cnd).length, .bool true :: st, g⟩ = .ok ⟨base + (ce cnd).length + 1, st, g⟩ := by
                simp [step, hjof]
              have h3 := ihB g g' b c brkT (base + (ce cnd).length + 1) st h hblock
              cases c with
              | brk =>
                have := (h1.trans ops (Sim.step ops h2)).trans ops h3
                simpa [target] using this
              | normal =>
                have h4 : step ops code ⟨base + (ce cnd).length + 1 + sizeB b, st, g'⟩ = .ok ⟨endA, st, g'⟩ := by
                  simp [step, hjmp]
                have h3' : Sim ops code ⟨base + (ce cnd).length + 1, st, g⟩ ⟨base + (ce cnd).length + 1 + sizeB b, st, g'⟩ := by
                  simpa [target] using h3
                have := ((h1.trans ops (Sim.step ops h2)).trans ops h3').trans ops (Sim.step ops h4)
                simpa [target] using this
            | false =>
              simp only [hv] at h
              have h2 : step ops code ⟨base + (ce cnd).length, .bool false :: st, g⟩ =
                  .ok ⟨base + (ce cnd).length + 1 + sizeB b + 1, st, g⟩ := by simp [step, hjof]
              have hrest : codeAt code (base + (ce cnd).length + 1 + sizeB b + 1)
                  (compC brkT endA (base + (ce cnd).length + 1 + sizeB b + 1) r ++
                    compB brkT (base + (ce cnd).length + 1 + sizeB b + 1 + sizeC r) els) := by
                have := ((hc.right.right (xs := [J.jof (base + (ce cnd).length + 1 + sizeB b + 1)])).right
                  (xs := compB brkT (base + (ce cnd).length + 1) b)).right (xs := [J.jump endA])
                simpa [len_compB, sizeC, Nat.add_assoc, Nat.add_comm, Nat.add_left_comm] using this
              have h3 := ihC g g' r els c brkT (base + (ce cnd).length + 1 + sizeB b + 1) endA st h
                (by rw [hend]; simp [sizeC]; omega) hrest
              exact (h1.trans ops (Sim.step ops h2)).trans ops h3

/-! ### from runs to the VM's `run` -/

theorem step_outside (code : List (J F)) (s : VMState F) (h : code.length ≤ s.pc) : step ops code s = .ok s := by
  simp [step, List.getElem?_eq_none h]

theorem run_reaches (code : List (J F)) (s t : VMState F) (h : Out ops code s (.inl t)) (ht : code.length ≤ t.pc) :
    ∃ k, ∀ k', k ≤ k' → run ops code k' s = .halted t.globals := by
  generalize hx : (Sum.inl t : VMState F ⊕ VMErr) = x at h
  induction h with
  | here s =>
    cases hx
    refine ⟨1, fun k' hk => ?_⟩
    obtain ⟨m, rfl⟩ : ∃ m, k' = m + 1 := ⟨k' - 1, by omega⟩
    simp [run, ht]
  | err s e he => cases hx
  | next s s' o hs _ ih =>
    obtain ⟨k, hk⟩ := ih hx
    refine ⟨k + 1, fun k' hk' => ?_⟩
    obtain ⟨m, rfl⟩ : ∃ m, k' = m + 1 := ⟨k' - 1, by omega⟩
    by_cases hp : code.length ≤ s.pc
    · have : s' = s := by rw [step_outside ops code s hp] at hs; cases hs; rfl
      subst this
      have h1 := hk (m + 1) (by omega)
      simpa [run, hp] using h1
    · have hp' : ¬ s.pc ≥ code.length := by omega
      simp only [run, hp', if_false, hs]
      exact hk m (by omega)

theorem run_errors (code : List (J F)) (s : VMState F) (e : VMErr) (h : Out ops code s (.inr e)) :
    ∃ k, ∀ k', k ≤ k' → run ops code k' s = .error e := by
  generalize hx : (Sum.inr e : VMState F ⊕ VMErr) = x at h
  induction h with
  | here s => cases hx
  | err s e' he =>
    cases hx
    refine ⟨1, fun k' hk => ?_⟩
    obtain ⟨m, rfl⟩ : ∃ m, k' = m + 1 := ⟨k' - 1, by omega⟩
    have hp : ¬ s.pc ≥ code.length := by
      intro hp; rw [step_outside ops code s hp] at he; cases he
    simp [run, hp, he]
  | next s s' o hs _ ih =>
    obtain ⟨k, hk⟩ := ih hx
    refine ⟨k + 1, fun k' hk' => ?_⟩
    obtain ⟨m, rfl⟩ : ∃ m, k' = m + 1 := ⟨k' - 1, by omega⟩
    by_cases hp : code.length ≤ s.pc
    · have : s' = s := by rw [step_outside ops code s hp] at hs; cases hs; rfl
      subst this
      have h1 := hk (m + 1) (by omega)
      simp [run, hp] at h1
    · have hp' : ¬ s.pc ≥ code.length := by omega
      simp only [run, hp', if_false, hs]
      exact hk m (by omega)

/-- **compiled statements behave like the evaluator**: if the evaluator completes the program with
globals `g'`, the VM on the compiled code — given enough steps — halts with the globals `g'`, or
stops with its division-by-zero error; for every program of the fragment and every start state -/
theorem compile_correct (prog : List (S F)) (n : Nat) (g g' : List (V F))
    (h : execB ops n g prog = some (.normal, g')) :
    ∃ k, ∀ k', k ≤ k' →
      run ops (compile prog) k' ⟨0, [], g⟩ = .halted g' ∨ run ops (compile prog) k' ⟨0, [], g⟩ = .error .divZero := by
  have hc : codeAt (compile prog) 0 (compB 0 0 prog) := ⟨[], [], by simp [compile], rfl⟩
  have hs := (sim ops (compile prog) n).2.1 g g' prog .normal 0 0 [] h hc
  have hlen : (compile prog).length = sizeB prog := by simp [compile, len_compB]
  rcases hs with h1 | h1
  · obtain ⟨k, hk⟩ := run_reaches ops (compile prog) _ _ h1 (by simp [target, hlen])
    exact ⟨k, fun k' hk' => Or.inl (hk k' hk')⟩
  · obtain ⟨k, hk⟩ := run_errors ops (compile prog) _ _ h1
    exact ⟨k, fun k' hk' => Or.inr (hk k' hk')⟩

/-- in particular the VM never stops with a type error or a stack underflow on such a program -/
theorem compiled_never_type_error (prog : List (S F)) (n : Nat) (g g' : List (V F))
    (h : execB ops n g prog = some (.normal, g')) :
    ∃ k, ∀ k', k ≤ k' → run ops (compile prog) k' ⟨0, [], g⟩ ≠ .error .typeOrUnderflow := by
  obtain ⟨k, hk⟩ := compile_correct ops prog n g g' h
  exact ⟨k, fun k' hk' => by rcases hk k' hk' with h1 | h1 <;> simp [h1]⟩

/-! ### non-vacuity: `i = 0; s = 0; while i < 5 { if i == 3 { break } else { s = s + i }; i = i + 1 }` -/

def exProg : List (S Int) :=
  [.assign 0 (.num 0), .assign 1 (.num 0),
   .whileS (.bin .lt (.glob 0) (.num 5))
     [.ifS [(.bin .eq (.glob 0) (.num 3), [.brk])] [.assign 1 (.bin .add (.glob 1) (.glob 0))],
      .assign 0 (.bin .add (.glob 0) (.num 1))]]

example : execB intOps 40 [.num 9, .num 9] exProg = some (.normal, [.num 3, .num 3]) := by rfl
example : run intOps (compile exProg) 200 ⟨0, [], [.num 9, .num 9]⟩ = .halted [.num 3, .num 3] := by rfl

end EvyV.StmtVM
