import EvyV.Model.Layout
/-
C07 (the part that is logic): the formatter's blank-line policy, for EVERY sequence of items of any
length: formatting is idempotent, never leaves two consecutive blank lines, and the length of
blank-line runs in the input does not matter. Nothing but blank lines is added or removed (C06).
-/
namespace EvyV.C07
open EvyV.Layout

/-! ### top-level items -/

theorem head_fmtK (l : List K) : (fmtK l).head? = l.head? := by
  fun_induction fmtK l with
  | case1 => rfl
  | case2 rest ih => simpa using ih
  | case3 rest h => simp
  | case4 x rest hx1 hx2 hn => simp
  | case5 x rest hx1 hx2 hn => simp

theorem commentsThenFunc_fmtK (l : List K) : commentsThenFunc (fmtK l) = commentsThenFunc l := by
  fun_induction commentsThenFunc l with
  | case1 rest =>
    have h1 : fmtK (.comment :: .func :: rest) = .comment :: fmtK (.func :: rest) := by simp [fmtK, needBlank]
    rw [h1]
    have hh : (fmtK (.func :: rest)).head? = some .func := by rw [head_fmtK]; rfl
    cases hf : fmtK (.func :: rest) with
    | nil => simp [hf] at hh
    | cons z zs => simp [hf] at hh; subst hh; simp [commentsThenFunc]
  | case2 rest ih =>
    have h1 : fmtK (.comment :: .comment :: rest) = .comment :: fmtK (.comment :: rest) := by
      simp [fmtK, needBlank]
    rw [h1]
    have h2 : (fmtK (.comment :: rest)).head? = some .comment := by rw [head_fmtK]; rfl
    cases hf : fmtK (.comment :: rest) with
    | nil => simp [hf] at h2
    | cons y ys =>
      simp [hf] at h2
      subst h2
      rw [hf] at ih
      simp only [commentsThenFunc]
      exact ih
  | case3 l h1 h2 =>
    -- l is not `comment :: func :: _` and not `comment :: comment :: _`
    cases l with
    | nil => simp [fmtK, commentsThenFunc]
    | cons x rest =>
      cases x with
      | comment =>
        cases rest with
        | nil => simp [fmtK, needBlank, commentsThenFunc]
        | cons y ys =>
          cases y with
          | func => exact absurd rfl (h1 ys)
          | comment => exact absurd rfl (h2 ys)
          | stmt =>
            have : fmtK (.comment :: .stmt :: ys) = .comment :: fmtK (.stmt :: ys) := by simp [fmtK, needBlank]
            rw [this]
            have hh : (fmtK (.stmt :: ys)).head? = some .stmt := by rw [head_fmtK]; rfl
            cases hf : fmtK (.stmt :: ys) with
            | nil => simp [hf] at hh
            | cons z zs => simp [hf] at hh; subst hh; simp [commentsThenFunc]
          | blank =>
            have : fmtK (.comment :: .blank :: ys) = .comment :: fmtK (.blank :: ys) := by simp [fmtK, needBlank]
            rw [this]
            have hh : (fmtK (.blank :: ys)).head? = some .blank := by rw [head_fmtK]; rfl
            cases hf : fmtK (.blank :: ys) with
            | nil => simp [hf] at hh
            | cons z zs => simp [hf] at hh; subst hh; simp [commentsThenFunc]
      | stmt =>
        have hh : (fmtK (.stmt :: rest)).head? = some .stmt := by rw [head_fmtK]; rfl
        cases hf : fmtK (.stmt :: rest) with
        | nil => simp [hf] at hh
        | cons z zs => simp [hf] at hh; subst hh; simp [commentsThenFunc]
      | func =>
        have hh : (fmtK (.func :: rest)).head? = some .func := by rw [head_fmtK]; rfl
        cases hf : fmtK (.func :: rest) with
        | nil => simp [hf] at hh
        | cons z zs => simp [hf] at hh; subst hh; simp [commentsThenFunc]
      | blank =>
        have hh : (fmtK (.blank :: rest)).head? = some .blank := by rw [head_fmtK]; rfl
        cases hf : fmtK (.blank :: rest) with
        | nil => simp [hf] at hh
        | cons z zs => simp [hf] at hh; subst hh; simp [commentsThenFunc]


theorem needBlank_fmtK (x : K) (l : List K) : needBlank x (fmtK l) = needBlank x l := by
  have hh := head_fmtK l
  have hc := commentsThenFunc_fmtK l
  cases l with
  | nil => simp [fmtK]
  | cons y ys =>
    cases hf : fmtK (y :: ys) with
    | nil => simp [hf] at hh
    | cons z zs =>
      simp [hf] at hh
      subst hh
      rw [hf] at hc
      cases x <;> cases z <;> simp [needBlank, hc]

theorem needBlank_blank (x : K) (l : List K) : needBlank x (.blank :: l) = false := by
  cases x <;> simp [needBlank]

theorem needBlank_head_ne_blank (x : K) (l : List K) (h : needBlank x l = true) : ∃ y ys, l = y :: ys ∧ y ≠ .blank := by
  cases l with
  | nil => cases x <;> simp [needBlank] at h
  | cons y ys =>
    refine ⟨y, ys, rfl, ?_⟩
    intro hy; subst hy
    rw [needBlank_blank] at h; exact absurd h (by simp)

theorem fmtK_blank_cons (y : K) (ys : List K) (hy : y ≠ .blank) : fmtK (.blank :: y :: ys) = .blank :: fmtK (y :: ys) := by
  cases y <;> simp_all [fmtK]

theorem fmtK_cons (x : K) (rest : List K) (hx : x ≠ .blank) :
    fmtK (x :: rest) = if needBlank x rest then x :: .blank :: fmtK rest else x :: fmtK rest := by
  cases x <;> simp_all [fmtK]

/-- **idempotence**: formatting the formatted text changes nothing -/
theorem fmtK_idempotent (l : List K) : fmtK (fmtK l) = fmtK l := by
  fun_induction fmtK l with
  | case1 => rfl
  | case2 rest ih => exact ih
  | case3 rest h ih =>
    -- a single blank line: the rest does not start with a blank, and neither does its formatting
    cases rest with
    | nil => simp [fmtK]
    | cons y ys =>
      have hy : y ≠ .blank := by intro e; subst e; exact h ys rfl
      have hh : (fmtK (y :: ys)).head? = some y := by rw [head_fmtK]; rfl
      cases hf : fmtK (y :: ys) with
      | nil => simp [hf] at hh
      | cons z zs =>
        simp [hf] at hh; subst hh
        rw [fmtK_blank_cons _ _ hy, ← hf, ih]
  | case4 x rest hx1 hx2 hn ih =>
    have hx : x ≠ .blank := hx2
    obtain ⟨y, ys, hl, hy⟩ := needBlank_head_ne_blank x rest hn
    rw [fmtK_cons x _ hx, needBlank_blank]
    simp only [Bool.false_eq_true, if_false]
    have hh : (fmtK rest).head? = some y := by rw [head_fmtK, hl]; rfl
    cases hf : fmtK rest with
    | nil => simp [hf] at hh
    | cons z zs =>
      simp [hf] at hh; subst hh
      rw [fmtK_blank_cons _ _ hy, ← hf, ih]
  | case5 x rest hx1 hx2 hn ih =>
    have hx : x ≠ .blank := hx2
    rw [fmtK_cons x _ hx, needBlank_fmtK]
    simp [hn, ih]

/-- **no two consecutive blank lines** in the output -/
def NoDoubleBlank : List K → Prop
  | .blank :: .blank :: _ => False
  | _ :: rest => NoDoubleBlank rest
  | [] => True

theorem fmtK_noDoubleBlank (l : List K) : NoDoubleBlank (fmtK l) := by
  fun_induction fmtK l with
  | case1 => trivial
  | case2 rest ih => exact ih
  | case3 rest h ih =>
    cases rest with
    | nil => simp [fmtK, NoDoubleBlank]
    | cons y ys =>
      have hy : y ≠ .blank := by intro e; subst e; exact h ys rfl
      have hh : (fmtK (y :: ys)).head? = some y := by rw [head_fmtK]; rfl
      cases hf : fmtK (y :: ys) with
      | nil => simp [hf] at hh
      | cons z zs =>
        simp [hf] at hh; subst hh
        rw [hf] at ih
        cases z <;> simp_all [NoDoubleBlank]
  | case4 x rest hx1 hx2 hn ih =>
    obtain ⟨y, ys, hl, hy⟩ := needBlank_head_ne_blank x rest hn
    have hh : (fmtK rest).head? = some y := by rw [head_fmtK, hl]; rfl
    cases hf : fmtK rest with
    | nil => simp [hf] at hh
    | cons z zs =>
      simp [hf] at hh; subst hh
      rw [hf] at ih
      cases x <;> cases z <;> simp_all [NoDoubleBlank]
  | case5 x rest hx1 hx2 hn ih =>
    cases hf : fmtK rest with
    | nil => cases x <;> simp [NoDoubleBlank]
    | cons z zs =>
      rw [hf] at ih
      -- x and z are not both blank: a blank x is followed by a non-blank rest (case 3 does not apply)
      cases x with
      | blank => exact absurd rfl hx2
      | stmt => simp_all [NoDoubleBlank]
      | func => simp_all [NoDoubleBlank]
      | comment => simp_all [NoDoubleBlank]

/-- **nothing but blank lines is added or removed** (the layout part of C06) -/
theorem fmtK_keeps_items (l : List K) : (fmtK l).filter (· ≠ .blank) = l.filter (· ≠ .blank) := by
  fun_induction fmtK l with
  | case1 => rfl
  | case2 rest ih => simpa using ih
  | case3 rest h ih => simpa using ih
  | case4 x rest hx1 hx2 hn ih => have hx : x ≠ .blank := hx2; simp at ih; simp [hx, ih]
  | case5 x rest hx1 hx2 hn ih => have hx : x ≠ .blank := hx2; simp at ih; simp [hx, ih]

/-- squeezing runs of blank lines first makes no difference … -/
def squeeze : List K → List K
  | .blank :: .blank :: rest => squeeze (.blank :: rest)
  | x :: rest => x :: squeeze rest
  | [] => []

theorem head_squeeze (l : List K) : (squeeze l).head? = l.head? := by
  fun_induction squeeze l with
  | case1 rest ih => simpa using ih
  | case2 x rest h ih => simp
  | case3 => rfl

theorem commentsThenFunc_squeeze (l : List K) : commentsThenFunc (squeeze l) = commentsThenFunc l := by
  fun_induction commentsThenFunc l with
  | case1 rest => simp [squeeze, commentsThenFunc]
  | case2 rest ih =>
    have h1 : squeeze (.comment :: .comment :: rest) = .comment :: squeeze (.comment :: rest) := by simp [squeeze]
    have h2 : squeeze (.comment :: rest) = .comment :: squeeze rest := by simp [squeeze]
    rw [h1, h2]
    rw [h2] at ih
    simp only [commentsThenFunc]
    exact ih
  | case3 l h1 h2 =>
    cases l with
    | nil => simp [squeeze, commentsThenFunc]
    | cons x rest =>
      cases x with
      | comment =>
        cases rest with
        | nil => simp [squeeze, commentsThenFunc]
        | cons y ys =>
          cases y with
          | func => exact absurd rfl (h1 ys)
          | comment => exact absurd rfl (h2 ys)
          | stmt => simp [squeeze, commentsThenFunc]
          | blank =>
            have hh : (squeeze (.blank :: ys)).head? = some .blank := by rw [head_squeeze]; rfl
            have : squeeze (.comment :: .blank :: ys) = .comment :: squeeze (.blank :: ys) := by simp [squeeze]
            rw [this]
            cases hf : squeeze (.blank :: ys) with
            | nil => simp [hf] at hh
            | cons z zs => simp [hf] at hh; subst hh; simp [commentsThenFunc]
      | stmt => simp [squeeze, commentsThenFunc]
      | func => simp [squeeze, commentsThenFunc]
      | blank =>
        have hh : (squeeze (.blank :: rest)).head? = some .blank := by rw [head_squeeze]; rfl
        cases hf : squeeze (.blank :: rest) with
        | nil => simp [hf] at hh
        | cons z zs => simp [hf] at hh; subst hh; simp [commentsThenFunc]

theorem needBlank_squeeze (x : K) (l : List K) : needBlank x (squeeze l) = needBlank x l := by
  have hh := head_squeeze l
  have hc := commentsThenFunc_squeeze l
  cases l with
  | nil => simp [squeeze]
  | cons y ys =>
    cases hf : squeeze (y :: ys) with
    | nil => simp [hf] at hh
    | cons z zs =>
      simp [hf] at hh
      subst hh
      rw [hf] at hc
      cases x <;> cases z <;> simp [needBlank, hc]

theorem fmtK_squeeze (l : List K) : fmtK (squeeze l) = fmtK l := by
  fun_induction squeeze l with
  | case1 rest ih => rw [ih]; simp [fmtK]
  | case2 x rest h ih =>
    cases x with
    | blank =>
      cases rest with
      | nil => simp [squeeze]
      | cons y ys =>
        have hy : y ≠ .blank := by intro e; subst e; exact h ys rfl rfl
        have hs : squeeze (y :: ys) = y :: squeeze ys := by cases y <;> simp_all [squeeze]
        rw [hs, fmtK_blank_cons _ _ hy, fmtK_blank_cons _ _ hy, ← hs, ih]
    | stmt => rw [fmtK_cons _ _ (by decide), fmtK_cons _ _ (by decide), ih, needBlank_squeeze]
    | func => rw [fmtK_cons _ _ (by decide), fmtK_cons _ _ (by decide), ih, needBlank_squeeze]
    | comment => rw [fmtK_cons _ _ (by decide), fmtK_cons _ _ (by decide), ih, needBlank_squeeze]
  | case3 => rfl


/-- … so texts that differ only in the LENGTH of their blank-line runs format to the same text -/
theorem blank_run_length_irrelevant (l l' : List K) (h : squeeze l = squeeze l') : fmtK l = fmtK l' := by
  rw [← fmtK_squeeze l, ← fmtK_squeeze l', h]

/-! ### items of a multi-line literal -/

/-- at most one blank line in a row inside a literal: never three newline items in succession, whatever
the count the scan starts with -/
def NoTripleNL : List M → Prop
  | .nl :: .nl :: .nl :: _ => False
  | _ :: rest => NoTripleNL rest
  | [] => True

theorem fmtM_keeps_items (c : Nat) (l : List M) : (fmtM c l).filter (· ≠ .nl) = l.filter (· ≠ .nl) := by
  induction l generalizing c with
  | nil => rfl
  | cons x rest ih =>
    cases x with
    | nl =>
      have := ih (c + 1)
      simp only [fmtM]; split <;> simp at this ⊢ <;> exact this
    | comment => have := ih 1; simp at this; simp [fmtM, this]
    | el => have := ih 0; simp at this; simp [fmtM, this]

theorem fmtM_count_irrelevant (c c' : Nat) (l : List M) (h : l.head? ≠ some .nl) : fmtM c l = fmtM c' l := by
  cases l with
  | nil => rfl
  | cons x rest => cases x <;> simp_all [fmtM]

theorem fmtM_head_of_full (c : Nat) (hc : 2 ≤ c) (l : List M) : (fmtM c l).head? ≠ some .nl := by
  induction l generalizing c with
  | nil => simp [fmtM]
  | cons x rest ih =>
    cases x with
    | nl =>
      have : ¬ c + 1 ≤ 2 := by omega
      simp only [fmtM, this, if_false]
      exact ih (c + 1) (by omega)
    | comment => simp [fmtM]
    | el => simp [fmtM]

/-- **idempotence** of the blank-line squeeze inside literals -/
theorem fmtM_idempotent (l : List M) : ∀ c, fmtM c (fmtM c l) = fmtM c l := by
  induction l with
  | nil => intro c; rfl
  | cons x rest ih =>
    intro c
    cases x with
    | nl =>
      by_cases h : c + 1 ≤ 2
      · simp only [fmtM, h, if_true]; rw [ih]
      · simp only [fmtM, h, if_false]
        rw [fmtM_count_irrelevant c (c + 1) _ (fmtM_head_of_full (c + 1) (by omega) rest), ih]
    | comment => simp only [fmtM]; rw [ih]
    | el => simp only [fmtM]; rw [ih]

def leadNL : List M → Nat
  | .nl :: rest => leadNL rest + 1
  | _ => 0

theorem fmtM_bounded (l : List M) : ∀ c, NoTripleNL (fmtM c l) ∧ leadNL (fmtM c l) ≤ 2 - c := by
  induction l with
  | nil => intro c; simp [fmtM, NoTripleNL, leadNL]
  | cons x rest ih =>
    intro c
    cases x with
    | nl =>
      obtain ⟨i1, i2⟩ := ih (c + 1)
      by_cases h : c + 1 ≤ 2
      · simp only [fmtM, h, if_true]
        refine ⟨?_, by simp only [leadNL]; omega⟩
        -- nl :: X where X has at most 2-(c+1) ≤ 1 leading newlines
        cases hf : fmtM (c + 1) rest with
        | nil => simp [NoTripleNL]
        | cons y ys =>
          rw [hf] at i1 i2
          cases y with
          | nl =>
            cases ys with
            | nil => simp [NoTripleNL]
            | cons z zs =>
              cases z with
              | nl => simp [leadNL] at i2; omega
              | comment => simpa [NoTripleNL] using i1
              | el => simpa [NoTripleNL] using i1
          | comment => simpa [NoTripleNL] using i1
          | el => simpa [NoTripleNL] using i1
      · simp only [fmtM, h, if_false]
        exact ⟨i1, by omega⟩
    | comment =>
      obtain ⟨i1, i2⟩ := ih 1
      simp only [fmtM]
      exact ⟨by simpa [NoTripleNL] using i1, by simp [leadNL]⟩
    | el =>
      obtain ⟨i1, i2⟩ := ih 0
      simp only [fmtM]
      exact ⟨by simpa [NoTripleNL] using i1, by simp [leadNL]⟩

/-- never more than one blank line in a row inside a formatted literal -/
theorem fmtM_noTripleNL (l : List M) : NoTripleNL (fmtM 0 l) := (fmtM_bounded l 0).1

/-! ### non-vacuity -/

example : fmtK [.stmt, .stmt, .stmt, .comment, .func, .blank, .blank, .blank, .stmt, .func, .func] =
    [.stmt, .stmt, .stmt, .blank, .comment, .func, .blank, .stmt, .blank, .func, .blank, .func] := by decide
example : fmtM 0 [.el, .nl, .nl, .nl, .nl, .comment, .nl, .nl, .el] = [.el, .nl, .nl, .comment, .nl, .el] := by decide

end EvyV.C07
