import EvyV.Model.FsProto
import EvyV.Gen.Shapes
/-
C18 — `evy fmt -w` never damages a file; `--check` tells the truth.

The theorems are about the call sequence extracted from main.go on every run
(Gen.Shapes): a change such as writing the target directly, dropping an error
check or a missing chmod changes the extracted list and the `decide` below is
re-run on it.
-/
namespace EvyV.C18
open EvyV.FsProto

/-- **Atomic replace and mode preservation**: for the extracted protocol and EVERY adversary —
any single call failing, a short write, a kill before or in the middle of any call — the target
holds its original or the complete formatted text, keeps its permission bits, and a zero exit
status means it holds the formatted text. -/
theorem atomic_replace :
    ∀ adv ∈ adversaries Gen.writeAtomically.length, safe (run Gen.writeAtomically 0 adv {}) = true := by
  decide

/-- the same stated per property clause, for readability -/
theorem mode_preserved :
    ∀ adv ∈ adversaries Gen.writeAtomically.length, (run Gen.writeAtomically 0 adv {}).target.mode = .orig := by
  decide

theorem zero_exit_means_formatted :
    ∀ adv ∈ adversaries Gen.writeAtomically.length,
      (run Gen.writeAtomically 0 adv {}).exit = .status 0 → (run Gen.writeAtomically 0 adv {}).target.content = .formatted := by
  decide

/-- every error of the protocol is checked: a failing call ends the run with a non-zero status -/
theorem all_errors_checked : ∀ p ∈ Gen.writeAtomically, p.2 = "checked" := by decide

/-- **Unparsable files are untouched**: fmtEvyFile reads, then formats (parsing first, returning on
a parse error), and only then — and only with -w — calls writeAtomically. -/
theorem unparsable_untouched :
    Gen.fmtEvyFile = [("readFile", "checked"), ("format", "checked"), ("writeAtomically@if(c.Write)", "returned")] ∧
    Gen.formatCallOrder = ["parser.Parse", "prog.Format"] ∧ Gen.formatParseErrorReturns = true := by
  decide

/-- **--check is truthful**: errNotFormatted is returned exactly when check mode is on and the
formatter's output differs from the file's own bytes (`in` is the unmodified file content); check
mode never reaches a write (no -w with -c: they are exclusive flags, and fmtEvyFile writes only
under c.Write). -/
theorem check_truthful :
    Gen.formatCheckCond = "(checkOnly && (in != out))" ∧ Gen.formatIn = "string(b)" := by
  decide

/-! Negative witnesses: protocols that are NOT safe are refused by the same check. -/
/-- writing the target in place -/
example : ∃ adv ∈ adversaries 2, safe (run [("readFile", "checked"), ("writeTarget", "checked")] 0 adv {}) = false := by decide
/-- the historical protocol without chmod loses the mode -/
example : ∃ adv ∈ adversaries 4,
    safe (run [("createTemp", "checked"), ("write", "checked"), ("close", "checked"), ("rename", "checked")] 0 adv {}) = false := by decide
/-- an unchecked write error lets a partial file through -/
example : ∃ adv ∈ adversaries 6,
    safe (run [("stat", "checked"), ("createTemp", "checked"), ("chmod", "checked"), ("write", "unchecked"),
               ("close", "checked"), ("rename", "checked")] 0 adv {}) = false := by decide

end EvyV.C18
