import EvyV.Model.Bytecode
import EvyV.Props.C17Sym
/-
C17 — emitted bytecode is well formed and the VM's operand stack is safe.

`BC.verify code H` checks a height certificate `H` locally at every offset.
The theorems say what a successful check guarantees for EVERY execution path
of the abstract stack machine (`BC.Reach`), of any length — loops included:
the height at each offset is the certified one (so it is the same on all paths
reaching an instruction), no instruction underflows the operand stack, every
reached offset decodes (jumps land on decodable instructions inside the
program), and the stack is empty when the program ends.
The harness computes `H` and runs `verify` in Lean on the bytes the real
compiler emitted (translation validation).
-/
namespace EvyV.C17
open EvyV.BC

/-- The opcode table of the model is the table of code.go (regenerated). -/
theorem opcodes_covered : Gen.opcodes = BC.expectedTable := by decide

theorem decodeAt_lt (code : Code) (ip : Nat) (r : Ins × Nat) (h : decodeAt code ip = some r) :
    ip < code.size := by
  unfold decodeAt at h
  cases hb : code[ip]? with
  | none => simp [hb] at h
  | some b =>
    have := Array.getElem?_eq_some_iff.1 hb
    exact this.1

theorem succs_lt (code : Code) (ip h : Nat) (l : List (Nat × Nat)) (hs : succs code ip h = some l) :
    ip < code.size := by
  unfold succs at hs
  cases hd : decodeAt code ip with
  | none => simp [hd] at hs
  | some r => exact decodeAt_lt code ip r hd

theorem verify_okAt (code : Code) (H : Nat → Option Nat) (hv : verify code H = true) (ip : Nat)
    (hip : ip ≤ code.size) : okAt code H ip = true := by
  unfold verify at hv
  simp only [Bool.and_eq_true, List.all_eq_true, List.mem_range] at hv
  exact hv.1.2 ip (by omega)

/-- **Soundness of the verifier**: every state the abstract machine can reach
carries exactly the certified height, and stays inside the program. -/
theorem verify_sound (code : Code) (H : Nat → Option Nat) (hv : verify code H = true) :
    ∀ s, Reach code s → H s.1 = some s.2 ∧ s.1 ≤ code.size := by
  intro s hr
  induction hr with
  | start =>
    unfold verify at hv
    simp only [Bool.and_eq_true, beq_iff_eq] at hv
    exact ⟨hv.1.1, Nat.zero_le _⟩
  | @step s s' _ hstep ih =>
    obtain ⟨l, hl, hmem⟩ := hstep
    have hlt := succs_lt code s.1 s.2 l hl
    have hok := verify_okAt code H hv s.1 ih.2
    unfold okAt at hok
    rw [ih.1] at hok
    simp only at hok
    have hne : ¬ s.1 = code.size := by omega
    have hng : ¬ s.1 > code.size := by omega
    simp only [hne, hng, if_false, hl, List.all_eq_true, Bool.and_eq_true, beq_iff_eq, decide_eq_true_eq] at hok
    exact hok s' hmem

/-- same height on all paths reaching an instruction -/
theorem same_height_on_all_paths (code : Code) (H : Nat → Option Nat) (hv : verify code H = true)
    (ip h1 h2 : Nat) (r1 : Reach code (ip, h1)) (r2 : Reach code (ip, h2)) : h1 = h2 := by
  have a := (verify_sound code H hv _ r1).1
  have b := (verify_sound code H hv _ r2).1
  simp only at a b
  rw [a] at b; exact Option.some.inj b

/-- **No underflow, no undecodable byte, no stray jump**: from every reachable
state inside the program the machine can take its step. -/
theorem never_stuck (code : Code) (H : Nat → Option Nat) (hv : verify code H = true)
    (ip h : Nat) (hr : Reach code (ip, h)) (hlt : ip < code.size) :
    ∃ l, succs code ip h = some l := by
  have hs := verify_sound code H hv _ hr
  have hok := verify_okAt code H hv ip hs.2
  unfold okAt at hok
  simp only at hs
  rw [hs.1] at hok
  have hne : ¬ ip = code.size := by omega
  have hng : ¬ ip > code.size := by omega
  simp only [hne, hng, if_false] at hok
  cases hsucc : succs code ip h with
  | none => simp [hsucc] at hok
  | some l => exact ⟨l, rfl⟩

/-- **Empty at exit**: when control reaches the end of the program the operand
stack is back at LocalCount. -/
theorem empty_at_exit (code : Code) (H : Nat → Option Nat) (hv : verify code H = true)
    (h : Nat) (hr : Reach code (code.size, h)) : h = 0 := by
  have hs := verify_sound code H hv _ hr
  have hok := verify_okAt code H hv code.size (Nat.le_refl _)
  unfold okAt at hok
  simp only at hs
  rw [hs.1] at hok
  simpa using hok

/-- a step that the checker admits never needs more operands than are there -/
theorem step_has_operands (code : Code) (ip h : Nat) (l : List (Nat × Nat)) (i : Ins) (next : Nat)
    (hd : decodeAt code ip = some (i, next)) (hs : succs code ip h = some l)
    (hop : i.op ≠ .jump ∧ i.op ≠ .jumpOnFalse ∧ i.op ≠ .stepRange ∧ i.op ≠ .iterRange) :
    (effect i).1 ≤ h := by
  unfold succs at hs
  simp only [hd] at hs
  obtain ⟨h1, h2, h3, h4⟩ := hop
  cases hop' : i.op <;> simp_all <;> (try split at hs) <;> simp_all <;> omega

/-! Non-vacuity: `x := 1` then `x = x + 2` compiled by hand:
 OpConstant 0; OpSetGlobal 0; OpGetGlobal 0; OpConstant 1; OpAdd; OpSetGlobal 0 -/
def demoCode : Code := #[0,0,0, 2,0,0, 1,0,0, 0,0,1, 6, 2,0,0]
def demoH : Nat → Option Nat := fun ip =>
  if ip = 0 then some 0 else if ip = 3 then some 1 else if ip = 6 then some 0 else if ip = 9 then some 1
  else if ip = 12 then some 2 else if ip = 13 then some 1 else if ip = 16 then some 0 else none
example : verify demoCode demoH = true := by decide
/-- an unbalanced program is refused: OpConstant 0; OpAdd -/
example : ∀ H, verify #[0,0,0, 6] H = false := by
  intro H
  unfold verify
  cases h0 : H 0 with
  | none => simp
  | some v =>
    by_cases hv : v = 0
    · subst hv
      have : okAt #[0,0,0,6] H 0 = true → okAt #[0,0,0,6] H 3 = false := by
        intro h
        unfold okAt at h ⊢
        simp only [h0] at h
        simp [succs, decodeAt, Opc.ofByte, Opc.all, Opc.hasOperand, effect] at h
        simp [h, succs, decodeAt, Opc.ofByte, Opc.all, Opc.hasOperand, effect]
      simp only [h0, beq_self_eq_true, Bool.true_and, Bool.and_true]
      rw [Bool.eq_false_iff]
      intro hall
      simp only [List.all_eq_true, List.mem_range] at hall
      have a := hall 0 (by decide)
      have b := hall 3 (by decide)
      have := this a
      rw [this] at b; exact Bool.false_ne_true b
    · simp [hv]

end EvyV.C17
