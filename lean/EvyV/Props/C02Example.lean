import EvyV.Props.C02Full
/-!
C02, non-vacuity: the hypotheses of the type soundness theorem (Props/C02Full.lean) are satisfiable
by a program with a recursive function.
-/
namespace EvyV.TS.Example
open EvyV EvyV.TS

/-! ### the hypotheses are satisfiable: a recursive function and a program that calls it

    func fact:num n:num
        if n <= 1
            return 1
        end
        return n * (fact n-1)
    end
    x := fact 5
    print x
-/


def nN : Str := lit "n"
def factN : Str := lit "fact"
def xN : Str := lit "x"

def factBody : List (Stmt Int) :=
  [.ifS [(.binary .lteq (.var nN) (.num 1), [.ret (some (.num 1))])] none,
   .ret (some (.binary .asterisk (.var nN) (.call factN [.binary .minus (.var nN) (.num 1)])))]

def exProg : Program Int :=
  { funcs := [{ name := factN, params := [nN], variadic := none, body := factBody }], handlers := [],
    stmts := [.decl xN (.call factN [.num 5]), .callS (.call (lit "print") [.any .num (.var xN)])] }

def exΦ : FEnv := fun n => if n = factN then some { params := [.num], ret := some .num } else none
def exGg : Env := fun n => if n = xN then some .num else none

theorem nN_ne : nN ≠ underscore := by decide
theorem xN_ne : xN ≠ underscore := by decide

theorem lookup_n (Gs : List SEnv) : lookupG ([(nN, Ty.num)] :: Gs) exGg nN = some .num := by
  simp [lookupG, nN_ne, List.findSome?_cons, senvGet, List.lookup]

theorem lookup_n' (Gs : List SEnv) : lookupG ([] :: [(nN, Ty.num)] :: Gs) exGg nN = some .num := by
  rw [lookupG_push]; exact lookup_n Gs

theorem fact_call {G : Env} (a : Expr Int) (ha : Typed exΦ G a .num) : Typed exΦ G (.call factN [a]) .num := by
  refine .call factN [a] { params := [.num], ret := some .num } .num (by simp [exΦ]) rfl rfl rfl ?_
  intro i x pt hx hpt
  cases i with
  | zero => simp at hx hpt; subst hx hpt; exact ha
  | succ j => simp at hx

theorem progOk : ProgOk exΦ exGg exProg := by
  constructor
  · intro name sig h
    simp only [exΦ] at h
    split at h
    · rename_i hn; subst hn
      exact ⟨by decide, { name := factN, params := [nN], variadic := none, body := factBody }, by simp [exProg, lookupFunc]⟩
    · cases h
  · intro name sig fd h hfd _
    simp only [exΦ] at h
    split at h
    · rename_i hn; subst hn
      cases h
      have : fd = { name := factN, params := [nN], variadic := none, body := factBody } := by
        simp [exProg, lookupFunc] at hfd; exact hfd.symm
      subst this
      refine ⟨rfl, rfl, ?_, fun t _ => ⟨by decide, by decide⟩⟩
      have hps : paramScope [nN] [Ty.num] [] = [(nN, Ty.num)] := by simp [paramScope, nN_ne, senvSet]
      simp only [hps]
      refine .cons _ _ _ _ (.ifS _ _ _ ?_ ?_ ?_) (.cons _ _ _ _ (.retSome _ _ .num rfl ?_) (.nil _))
      · intro c hc
        simp at hc; subst hc
        exact .cmpNum _ _ _ rfl (.var _ _ (lookup_n _)) (.num _)
      · intro c hc
        simp at hc; subst hc
        exact .cons _ _ _ _ (.retSome _ _ .num rfl (.num _)) (.nil _)
      · intro b hb; cases hb
      · exact .arith _ _ _ rfl (.var _ _ (lookup_n _)) (fact_call _ (.arith _ _ _ rfl (.var _ _ (lookup_n _)) (.num _)))
    · cases h
  · intro name sig fd tv h _ hv
    simp only [exΦ] at h
    split at h
    · cases h; cases hv
    · cases h

theorem stmtsTyped : BTyped exΦ exGg none [] exProg.stmts := by
  refine .cons _ _ _ _ (.declGlobal xN _ .num xN_ne (by simp [exGg]) (fact_call _ (.num _))) (.cons _ _ _ _ (.print _ _ ?_) (.nil _))
  intro a ha
  simp at ha; subst ha
  exact ⟨.any, .any _ _ (by simp) (.var _ _ (by simp [lookupG, xN_ne, exGg]))⟩

/-- the empty state is well-typed for the program's globals -/
theorem initOk : StOk [] [] exGg ({} : St Int) :=
  ⟨.nil, (by intro p hp; cases hp), ⟨rfl, (by intro t ht; cases ht), (by intro a s h; simp at h), (by intro a s h; simp at h)⟩⟩

theorem exGgOk : GgOk exGg := by
  constructor <;> intro t h <;> simp [exGg, xN, lit] at h

/-- so the theorem applies to this program: for every oracle and every number of steps -/
example (ext : Ext Int) (hx : ExtOk ext) (fuel : Nat) (st' : St Int) (w : String) :
    execStmts intOps ext exProg fuel exProg.stmts {} ≠ .err (.goPanic w) st' :=
  (program_never_goes_wrong intOps ext exProg exΦ exGg hx exGgOk progOk fuel {} st' [] stmtsTyped initOk w).2

end EvyV.TS.Example
