import EvyV.Props.C01Pratt
import EvyV.Model.PrattW
/-!
C01, "whatever optional whitespace layout the source uses", for the expression parser.

* `parseW_sound`: in BOTH modes whatever the parser model with whitespace returns is a precedence-respecting
  tree whose tokens are exactly the tokens consumed; outside whitespace-sensitive contexts what follows does
  not continue the expression, inside them the expression may instead end at a token with whitespace before it.
* `erase_parse`: outside whitespace-sensitive contexts the flags never change the reading — if the model with
  whitespace accepts, its tree is the tree of the flag-free model on the token kinds (whitespace can only make
  an expression be rejected). Hence `layout_irrelevant`.
* `wss_reading_is_plain_reading`: the tree read in a whitespace-sensitive context is THE specification reading
  of the tokens it consumed — the tree the flag-free parser builds from exactly those tokens.
-/
namespace EvyV.Pratt

@[simp] theorem er_nil : er [] = [] := rfl
@[simp] theorem er_cons (t : WTok) (ts : List WTok) : er (t :: ts) = t.tok :: er ts := rfl

/-- how the rest may look after an expression has been read at binding power `p` in mode `wss` -/
def StopW (wss : Bool) (p : Nat) (e : E) (r : List WTok) : Prop :=
  (wss = true ∧ headWs r = true) ∨ (hp (er r) ≤ rlvl e ∧ hp (er r) ≤ p)

theorem er_split {r : List WTok} {t : Tok} {tl : List Tok} (h : List.map WTok.tok r = t :: tl) :
    ∃ w r', r = ⟨w, t⟩ :: r' ∧ er r' = tl := by
  cases r with
  | nil => simp at h
  | cons a r' =>
    obtain ⟨w, k⟩ := a
    simp only [List.map_cons, List.cons.injEq] at h
    obtain ⟨h1, h2⟩ := h
    subst h1
    exact ⟨w, r', rfl, h2⟩

theorem sound_stepW (f : Nat) :
    (∀ wss p ts x, p ≤ 7 → parseExprW wss f p ts = some x →
      WF x.1 ∧ er ts = toks x.1 ++ er x.2 ∧ p < llvl x.1 ∧ StopW wss p x.1 x.2) ∧
    (∀ wss p l ts x, p ≤ 7 → WF l → ((wss = true ∧ headWs ts = true) ∨ hp (er ts) ≤ rlvl l) → p < llvl l →
      loopW wss f p l ts = some x →
      WF x.1 ∧ toks l ++ er ts = toks x.1 ++ er x.2 ∧ p < llvl x.1 ∧ StopW wss p x.1 x.2) := by
  induction f with
  | zero => constructor <;> intros <;> simp_all [parseExprW, loopW]
  | succ n ih =>
    obtain ⟨ihP, ihL⟩ := ih
    -- what a finished operand allows the loop to assume
    have stop_pre : ∀ {wss : Bool} {q : Nat} {e : E} {r : List WTok}, StopW wss q e r →
        ((wss = true ∧ headWs r = true) ∨ hp (er r) ≤ rlvl e) := by
      intro wss q e r h
      rcases h with h | h
      · exact Or.inl h
      · exact Or.inr h.1
    constructor
    · intro wss p ts x hp7 h
      unfold parseExprW at h
      split at h
      · rename_i w a r
        have g := ihL wss p (.atom a) r x hp7 trivial (Or.inr (by have := hp_le (er r); simp only [rlvl]; omega)) (by simp only [llvl]; omega) h
        simpa [toks] using g
      · rename_i w r
        split at h
        · cases h
        · split at h
          · rename_i e r' he
            obtain ⟨we, heq, h3, hs⟩ := ihP wss _ _ _ (by simp [unaryPrec]) he
            simp only at we heq h3 hs
            have pre : (wss = true ∧ headWs r' = true) ∨ hp (er r') ≤ rlvl (E.un .not e) := by
              rcases hs with hs | hs
              · exact Or.inl hs
              · exact Or.inr (by simp only [rlvl]; omega)
            have g := ihL wss p (.un .not e) r' x hp7 ⟨we, h3⟩ pre (by simp only [llvl]; omega) h
            simpa [toks, heq] using g
          · cases h
      · rename_i w r
        split at h
        · cases h
        · split at h
          · rename_i e r' he
            obtain ⟨we, heq, h3, hs⟩ := ihP wss _ _ _ (by simp [unaryPrec]) he
            simp only at we heq h3 hs
            have pre : (wss = true ∧ headWs r' = true) ∨ hp (er r') ≤ rlvl (E.un .neg e) := by
              rcases hs with hs | hs
              · exact Or.inl hs
              · exact Or.inr (by simp only [rlvl]; omega)
            have g := ihL wss p (.un .neg e) r' x hp7 ⟨we, h3⟩ pre (by simp only [llvl]; omega) h
            simpa [toks, heq] using g
          · cases h
      · rename_i w r
        split at h
        · rename_i e w2 r' he
          obtain ⟨we, heq, _, _⟩ := ihP false _ _ _ (by omega) he
          simp only at we heq
          have g := ihL wss p (.group e) r' x hp7 we (Or.inr (by have := hp_le (er r'); simp only [rlvl]; omega)) (by simp only [llvl]; omega) h
          simpa [toks, heq] using g
        · cases h
      · cases h
    · intro wss p l ts x hp7 hwl hr hl h
      unfold loopW at h
      split at h
      · -- binary operator
        rename_i w o r
        split at h
        · -- whitespace ends the expression
          rename_i hw
          simp only [Option.some.injEq] at h
          subst h
          simp only [Bool.and_eq_true] at hw
          exact ⟨hwl, rfl, hl, Or.inl ⟨hw.1, by simpa [headWs] using hw.2⟩⟩
        · rename_i hw
          have hr' : o.prec ≤ rlvl l := by
            rcases hr with ⟨h1, h2⟩ | h2
            · simp only [headWs] at h2; simp [h1, h2] at hw
            · simpa [hp, Tok.prec] using h2
          split at h
          · rename_i hpo
            split at h
            · cases h
            · split at h
              · rename_i right r' he
                obtain ⟨we, heq, h3, hs⟩ := ihP wss _ _ _ (by have := (prec_pos o).2; omega) he
                simp only at we heq h3 hs
                have hll : o.prec ≤ llvl l := by
                  have := rlvl_llvl l; have := (prec_pos o).2; omega
                have pre : (wss = true ∧ headWs r' = true) ∨ hp (er r') ≤ rlvl (E.bin o l right) := by
                  rcases hs with hs | hs
                  · exact Or.inl hs
                  · exact Or.inr (by simp only [rlvl]; omega)
                have g := ihL wss p (.bin o l right) r' x hp7 ⟨hwl, we, hll, hr', h3⟩ pre (by simp only [llvl]; exact hpo) h
                simpa [toks, heq] using g
              · cases h
          · rename_i hpo
            simp only [Option.some.injEq] at h
            subst h
            exact ⟨hwl, rfl, hl, Or.inr ⟨by simpa [hp, Tok.prec] using hr', by simp only [er_cons, hp, Tok.prec]; omega⟩⟩
      · -- `[`
        rename_i w r
        split at h
        · rename_i hw
          simp only [Option.some.injEq] at h
          subst h
          simp only [Bool.and_eq_true] at hw
          exact ⟨hwl, rfl, hl, Or.inl ⟨hw.1, by simpa [headWs] using hw.2⟩⟩
        · rename_i hw
          have hr' : indexPrec ≤ rlvl l := by
            rcases hr with ⟨h1, h2⟩ | h2
            · simp only [headWs] at h2; simp [h1, h2] at hw
            · simpa [hp, Tok.prec] using h2
          split at h
          · rename_i hpo
            split at h
            · cases h
            · have hll : indexPrec ≤ llvl l := by
                have := rlvl_llvl l; simp only [indexPrec] at hr' ⊢; omega
              have post : ∀ (e' : E) (r' : List WTok), WF e' → llvl e' = indexPrec → rlvl e' = 9 → loopW wss n p e' r' = some x →
                  WF x.1 ∧ toks e' ++ er r' = toks x.1 ++ er x.2 ∧ p < llvl x.1 ∧ StopW wss p x.1 x.2 := by
                intro e' r' we hl' hr'' hh
                exact ihL wss p e' r' x hp7 we (Or.inr (by have := hp_le (er r'); omega)) (by omega) hh
              unfold bracketW bracketG at h
              split at h
              · rename_i tl heq
                obtain ⟨w1, r1, e1, q1⟩ := er_split heq
                obtain ⟨w2, r2, e2, q2⟩ := er_split q1
                subst e1 e2
                have g := post (.sliceAll l) r2 ⟨hwl, hll, hr'⟩ rfl rfl (by simpa using h)
                simpa [toks] using g
              · rename_i tl hne heq
                obtain ⟨w1, r1, e1, q1⟩ := er_split heq
                subst e1
                simp only [List.drop_succ_cons, List.drop_zero] at h
                split at h
                · rename_i b r2 hb
                  obtain ⟨wb, heqb, _, _⟩ := ihP false _ _ _ (by omega) hb
                  simp only at wb heqb
                  split at h
                  · rename_i tl2 heq2
                    obtain ⟨w3, r3, e3, q3⟩ := er_split heq2
                    subst e3
                    have g := post (.sliceTo l b) r3 ⟨hwl, wb, hll, hr'⟩ rfl rfl (by simpa using h)
                    simpa [toks, heqb] using g
                  · cases h
                · cases h
              · split at h
                · rename_i i r' hi
                  obtain ⟨wi, heqi, _, _⟩ := ihP false _ _ _ (by omega) hi
                  simp only at wi heqi
                  split at h
                  · rename_i tl2 heq2
                    obtain ⟨w3, r3, e3, q3⟩ := er_split heq2
                    subst e3
                    have g := post (.index l i) r3 ⟨hwl, wi, hll, hr'⟩ rfl rfl (by simpa using h)
                    simpa [toks, heqi] using g
                  · rename_i tl2 heq2
                    obtain ⟨w3, r3, e3, q3⟩ := er_split heq2
                    obtain ⟨w4, r4, e4, q4⟩ := er_split q3
                    subst e3 e4
                    have g := post (.sliceFrom l i) r4 ⟨hwl, wi, hll, hr'⟩ rfl rfl (by simpa using h)
                    simpa [toks, heqi] using g
                  · rename_i tl2 hne2 heq2
                    obtain ⟨w3, r3, e3, q3⟩ := er_split heq2
                    subst e3
                    simp only [List.drop_succ_cons, List.drop_zero] at h
                    split at h
                    · rename_i b r2 hb
                      obtain ⟨wb, heqb, _, _⟩ := ihP false _ _ _ (by omega) hb
                      simp only at wb heqb
                      split at h
                      · rename_i tl3 heq3
                        obtain ⟨w5, r5, e5, q5⟩ := er_split heq3
                        subst e5
                        have g := post (.slice l i b) r5 ⟨hwl, wi, wb, hll, hr'⟩ rfl rfl (by simpa using h)
                        simpa [toks, heqi, heqb] using g
                      · cases h
                    · cases h
                  · cases h
                · cases h
          · rename_i hpo
            simp only [Option.some.injEq] at h
            subst h
            exact ⟨hwl, rfl, hl, Or.inr ⟨by simpa [hp, Tok.prec] using hr', by simp only [er_cons, hp, Tok.prec]; omega⟩⟩
      · -- `.`
        rename_i w r
        split at h
        · rename_i hw
          simp only [Option.some.injEq] at h
          subst h
          simp only [Bool.and_eq_true] at hw
          exact ⟨hwl, rfl, hl, Or.inl ⟨hw.1, by simpa [headWs] using hw.2⟩⟩
        · rename_i hw
          have hr' : indexPrec ≤ rlvl l := by
            rcases hr with ⟨h1, h2⟩ | h2
            · simp only [headWs] at h2; simp [h1, h2] at hw
            · simpa [hp, Tok.prec] using h2
          split at h
          · rename_i hpo
            split at h
            · cases h
            · have hll : indexPrec ≤ llvl l := by
                have := rlvl_llvl l; simp only [indexPrec] at hr' ⊢; omega
              have post : ∀ (e' : E) (r' : List WTok), WF e' → llvl e' = indexPrec → rlvl e' = 9 → loopW wss n p e' r' = some x →
                  WF x.1 ∧ toks e' ++ er r' = toks x.1 ++ er x.2 ∧ p < llvl x.1 ∧ StopW wss p x.1 x.2 := by
                intro e' r' we hl' hr'' hh
                exact ihL wss p e' r' x hp7 we (Or.inr (by have := hp_le (er r'); omega)) (by omega) hh
              unfold dottedW at h
              split at h
              · rename_i w2 t w3 r'
                have g := post (.assert l t) r' ⟨hwl, hll, hr'⟩ rfl rfl h
                simpa [toks] using g
              · rename_i k r'
                have g := post (.dot l k) r' ⟨hwl, hll, hr'⟩ rfl rfl h
                simpa [toks] using g
              · cases h
          · rename_i hpo
            simp only [Option.some.injEq] at h
            subst h
            exact ⟨hwl, rfl, hl, Or.inr ⟨by simpa [hp, Tok.prec] using hr', by simp only [er_cons, hp, Tok.prec]; omega⟩⟩
      · rename_i hno hnb hnd
        simp only [Option.some.injEq] at h
        subst h
        refine ⟨hwl, rfl, hl, ?_⟩
        rcases hr with hr | hr
        · exact Or.inl hr
        · refine Or.inr ⟨hr, ?_⟩
          cases ts with
          | nil => simp [hp]
          | cons t r =>
            obtain ⟨w, t⟩ := t
            cases t <;> simp [hp, Tok.prec]
            · exact absurd rfl (hno _ _ _)
            · exact absurd rfl (hnb _ _)
            · exact absurd rfl (hnd _ _)

/-- **soundness in both modes**: a tree the parser returns respects the precedence levels and its tokens are
exactly the tokens consumed; what follows does not continue the expression, or — in a whitespace-sensitive
context only — begins with whitespace -/
theorem parseW_sound (wss : Bool) (ts : List WTok) (e : E) (r : List WTok) (h : parseW wss ts = some (e, r)) :
    WF e ∧ er ts = toks e ++ er r ∧ ((wss = true ∧ headWs r = true) ∨ hp (er r) = 0) := by
  obtain ⟨w, heq, _, hs⟩ := (sound_stepW _).1 wss 0 ts (e, r) (by omega) h
  refine ⟨w, heq, ?_⟩
  rcases hs with hs | hs
  · exact Or.inl hs
  · exact Or.inr (by have := hs.2; simp only at this; omega)

/-- **outside whitespace-sensitive contexts whitespace never changes the reading**: when the parser with
whitespace accepts, its tree and its rest are those of the flag-free parser on the token kinds -/
theorem erase_parse (ts : List WTok) (e : E) (r : List WTok) (h : parseW false ts = some (e, r)) :
    parse (er ts) = some (e, er r) := by
  obtain ⟨w, heq, hs⟩ := parseW_sound false ts e r h
  refine (parse_iff (er ts) e (er r)).mpr ⟨w, heq, ?_⟩
  rcases hs with ⟨hf, _⟩ | hs
  · cases hf
  · exact hs

/-- two layouts of the same tokens that are both accepted are read as the same tree, with the same rest -/
theorem layout_irrelevant (ts ts' : List WTok) (e e' : E) (r r' : List WTok) (hk : er ts = er ts')
    (h : parseW false ts = some (e, r)) (h' : parseW false ts' = some (e', r')) : e = e' ∧ er r = er r' := by
  have a := erase_parse ts e r h
  have b := erase_parse ts' e' r' h'
  rw [hk, b] at a
  simp only [Option.some.injEq, Prod.mk.injEq] at a
  exact ⟨a.1.symm, a.2.symm⟩

/-- **in a whitespace-sensitive context** (an argument, an array element) the tree is THE specification
reading of the tokens it consumed: it satisfies the precedence specification, and the flag-free parser run on
exactly those tokens builds the same tree -/
theorem wss_reading_is_plain_reading (ts : List WTok) (e : E) (r : List WTok) (h : parseW true ts = some (e, r)) :
    Spec e ∧ er ts = toks e ++ er r ∧ parse (toks e) = some (e, []) := by
  obtain ⟨w, heq, _⟩ := parseW_sound true ts e r h
  refine ⟨(spec_iff_wf e).mpr w, heq, ?_⟩
  simpa using parse_toks e [] w rfl

/-! examples: `a -b` is one expression outside, two inside a whitespace-sensitive context; `a - b` and `a-b`
are the same tree; `- a` and `a [b]` are rejected -/
private def A (n : Nat) (ws : Bool := false) : WTok := ⟨ws, .atom n⟩
private def M (ws : Bool := false) : WTok := ⟨ws, .op .minus⟩

example : parseW false [A 0, M true, A 1] = some (.bin .minus (.atom 0) (.atom 1), []) := by decide
example : parseW true [A 0, M true, A 1] = some (.atom 0, [M true, A 1]) := by decide
example : parseW true [M true, A 1] = some (.un .neg (.atom 1), []) := by decide
example : parseW false [A 0, M true, A 1 true] = parseW false [A 0, M, A 1] := by decide
example : parseW true [A 0, M, A 1 true] = none := by decide
example : parseW false [M, A 1 true] = none := by decide
example : parseW false [A 0, ⟨true, .lbracket⟩, A 1, ⟨false, .rbracket⟩] = none := by decide
example : parseW true [A 0, ⟨true, .lbracket⟩, A 1, ⟨false, .rbracket⟩] = some (.atom 0, [⟨true, .lbracket⟩, A 1, ⟨false, .rbracket⟩]) := by decide
example : parseW true [⟨false, .lparen⟩, A 0, M true, A 1 true, ⟨true, .rparen⟩, M, A 2] =
    some (.bin .minus (.group (.bin .minus (.atom 0) (.atom 1))) (.atom 2), []) := by decide

end EvyV.Pratt
