import EvyV.Model.Blocks
/-!
The block structure of Evy programs (lines, `if` / `else if` / `else` / `while` / `for` / `func` / `on` … `end`):
the parser model of Model/Blocks.lean returns a tree exactly for the well-nested line sequences, the tree is
the one whose printing gives the lines back (`parse_sound`, `parse_print`), and the printer indents every line by
its block level (`indent_is_block_level`).
-/
namespace EvyV.Blocks

/-! ### the lines of a tree -/

def elseLines : Option B → List L → List L
  | none, r => r
  | some _, r => .elseL :: r

mutual
def lnT : T → List L
  | .simple => [.s]
  | .blank => [.blank]
  | .whileT b => .whileL :: (lnB b ++ [.endL])
  | .forT b => .forL :: (lnB b ++ [.endL])
  | .ifT first elifs none => .ifL :: (lnB first ++ (lnBL elifs ++ [.endL]))
  | .ifT first elifs (some e) => .ifL :: (lnB first ++ (lnBL elifs ++ (.elseL :: (lnB e ++ [.endL]))))
def lnB : B → List L
  | .nil => []
  | .cons t r => lnT t ++ lnB r
def lnBL : BL → List L
  | .nil => []
  | .cons b r => .elifL :: (lnB b ++ lnBL r)
end

def lnTop : Top → List L
  | .func b => .funcL :: (lnB b ++ [.endL])
  | .on b => .onL :: (lnB b ++ [.endL])
  | .stmt t => lnT t

/-! ### well-formed trees: no empty block -/

mutual
def WFT : T → Prop
  | .simple => True
  | .blank => True
  | .whileT b => b.isEmpty = false ∧ WFB b
  | .forT b => b.isEmpty = false ∧ WFB b
  | .ifT first elifs none => first.isEmpty = false ∧ WFB first ∧ WFBL elifs
  | .ifT first elifs (some e) => first.isEmpty = false ∧ WFB first ∧ WFBL elifs ∧ e.isEmpty = false ∧ WFB e
def WFB : B → Prop
  | .nil => True
  | .cons t r => WFT t ∧ WFB r
def WFBL : BL → Prop
  | .nil => True
  | .cons b r => b.isEmpty = false ∧ WFB b ∧ WFBL r
end

def WFTop : Top → Prop
  | .func b => b.isEmpty = false ∧ WFB b
  | .on b => b.isEmpty = false ∧ WFB b
  | .stmt t => WFT t

/-- where a block may end -/
def Stops (inIf : Bool) : List L → Prop
  | [] => True
  | .endL :: _ => True
  | .elseL :: _ => inIf = true
  | .elifL :: _ => inIf = true
  | _ => False

/-- the tail of an if statement: else-if branches, an else branch, `end` -/
def tailLines (bl : BL) (els : Option B) (r : List L) : List L :=
  lnBL bl ++ (match els with
    | none => .endL :: r
    | some e => .elseL :: (lnB e ++ .endL :: r))

/-! ### soundness: what the parser returns is a well-formed tree whose lines are the input consumed -/

theorem sound_step (f : Nat) :
    (∀ l r t r', parseStmt f l r = some (t, r') → l :: r = lnT t ++ r' ∧ WFT t) ∧
    (∀ inIf ls b r', parseBlock f inIf ls = some (b, r') → ls = lnB b ++ r' ∧ WFB b ∧ Stops inIf r') ∧
    (∀ ls bl els r', parseElifs f ls = some (bl, els, r') → ls = tailLines bl els r' ∧ WFBL bl ∧
        (∀ e, els = some e → e.isEmpty = false ∧ WFB e)) := by
  induction f with
  | zero => refine ⟨?_, ?_, ?_⟩ <;> intros <;> simp_all [parseStmt, parseBlock, parseElifs]
  | succ n ih =>
    obtain ⟨ihS, ihB, ihE⟩ := ih
    refine ⟨?_, ?_, ?_⟩
    · intro l r t r' h
      cases l <;> simp only [parseStmt] at h
      · -- s
        cases h; exact ⟨rfl, trivial⟩
      · cases h; exact ⟨rfl, trivial⟩
      · -- if
        split at h
        · rename_i b r1 hb
          obtain ⟨e1, w1, _⟩ := ihB _ _ _ _ hb
          split at h
          · cases h
          · rename_i hne
            split at h
            · rename_i bl els r2 he
              obtain ⟨e2, w2, w3⟩ := ihE _ _ _ _ he
              cases h
              have hne' : b.isEmpty = false := by simpa using hne
              cases els with
              | none =>
                refine ⟨?_, hne', w1, w2⟩
                simp [lnT, e1, e2, tailLines]
              | some e =>
                obtain ⟨w4, w5⟩ := w3 e rfl
                refine ⟨?_, hne', w1, w2, w4, w5⟩
                simp [lnT, e1, e2, tailLines]
            · cases h
        · cases h
      · cases h
      · cases h
      · -- while
        split at h
        · rename_i b r1 hb
          obtain ⟨e1, w1, _⟩ := ihB _ _ _ _ hb
          split at h
          · cases h
          · rename_i hne
            cases h
            exact ⟨by simp [lnT, e1], by simpa using hne, w1⟩
        · cases h
      · -- for
        split at h
        · rename_i b r1 hb
          obtain ⟨e1, w1, _⟩ := ihB _ _ _ _ hb
          split at h
          · cases h
          · rename_i hne
            cases h
            exact ⟨by simp [lnT, e1], by simpa using hne, w1⟩
        · cases h
      · cases h
      · cases h
      · cases h
    · intro inIf ls b r' h
      have stmtCase : ∀ (l : L) (r : List L), l ≠ .endL → l ≠ .elseL → l ≠ .elifL →
          (match parseStmt n l r with
            | some (t, r1) =>
              match parseBlock n inIf r1 with
              | some (b', r2) => some (B.cons t b', r2)
              | none => none
            | none => none) = some (b, r') → l :: r = lnB b ++ r' ∧ WFB b ∧ Stops inIf r' := by
        intro l r _ _ _ h
        split at h
        · rename_i t r1 hs
          obtain ⟨e1, w1⟩ := ihS _ _ _ _ hs
          split at h
          · rename_i b' r2 hb
            obtain ⟨e2, w2, w3⟩ := ihB _ _ _ _ hb
            cases h
            exact ⟨by simp [lnB, e1, e2], ⟨w1, w2⟩, w3⟩
          · cases h
        · cases h
      cases ls with
      | nil => simp only [parseBlock] at h; cases h; exact ⟨rfl, trivial, trivial⟩
      | cons l r =>
        cases l <;> simp only [parseBlock] at h
        · exact stmtCase _ _ (by simp) (by simp) (by simp) h
        · exact stmtCase _ _ (by simp) (by simp) (by simp) h
        · exact stmtCase _ _ (by simp) (by simp) (by simp) h
        · -- elif
          split at h
          · rename_i hi; cases h; exact ⟨rfl, trivial, hi⟩
          · cases h
        · -- else
          split at h
          · rename_i hi; cases h; exact ⟨rfl, trivial, hi⟩
          · cases h
        · exact stmtCase _ _ (by simp) (by simp) (by simp) h
        · exact stmtCase _ _ (by simp) (by simp) (by simp) h
        · exact stmtCase _ _ (by simp) (by simp) (by simp) h
        · exact stmtCase _ _ (by simp) (by simp) (by simp) h
        · cases h; exact ⟨rfl, trivial, trivial⟩
    · intro ls bl els r' h
      cases ls with
      | nil => simp [parseElifs] at h
      | cons l r =>
        cases l <;> simp only [parseElifs] at h <;> try (cases h; done)
        · -- elif
          split at h
          · rename_i b r1 hb
            obtain ⟨e1, w1, _⟩ := ihB _ _ _ _ hb
            split at h
            · cases h
            · rename_i hne
              split at h
              · rename_i bl' els' r2 he
                obtain ⟨e2, w2, w3⟩ := ihE _ _ _ _ he
                cases h
                refine ⟨?_, ⟨by simpa using hne, w1, w2⟩, w3⟩
                simp [tailLines, lnBL, e1, e2]
              · cases h
          · cases h
        · -- else
          split at h
          · rename_i b r1 hb
            obtain ⟨e1, w1, _⟩ := ihB _ _ _ _ hb
            split at h
            · cases h
            · rename_i hne
              cases h
              refine ⟨by simp [tailLines, lnBL, e1], trivial, ?_⟩
              intro e he; cases he
              exact ⟨by simpa using hne, w1⟩
          · cases h
        · -- end
          cases h
          exact ⟨by simp [tailLines, lnBL], trivial, by intro e he; cases he⟩


/-! ### completeness: the lines of every well-formed tree are parsed back to that tree -/

def headT : T → L
  | .simple => .s
  | .blank => .blank
  | .whileT _ => .whileL
  | .forT _ => .forL
  | .ifT _ _ _ => .ifL

theorem lnT_eq (t : T) : lnT t = headT t :: (lnT t).tail := by
  cases t with
  | ifT f e o => cases o <;> rfl
  | _ => rfl

theorem stops_lnBL (bl : BL) (tl : List L) (h : Stops true tl) : Stops true (lnBL bl ++ tl) := by
  cases bl with
  | nil => simpa [lnBL] using h
  | cons b r => simp [lnBL, Stops]

theorem isEmpty_lnB (b : B) (h : b.isEmpty = false) : ∃ l tl, lnB b = l :: tl := by
  cases b with
  | nil => simp [B.isEmpty] at h
  | cons t r => rw [lnB, lnT_eq]; exact ⟨_, _, rfl⟩

mutual
theorem cT : (t : T) → ∀ (f : Nat) (rest : List L), WFT t → 2 * ((lnT t).tail.length + rest.length) + 2 ≤ f →
    parseStmt f (headT t) ((lnT t).tail ++ rest) = some (t, rest)
  | .simple, f, rest, _, hf => by
    obtain ⟨f', rfl⟩ : ∃ f', f = f' + 1 := ⟨f - 1, by omega⟩
    simp [headT, lnT, parseStmt]
  | .blank, f, rest, _, hf => by
    obtain ⟨f', rfl⟩ : ∃ f', f = f' + 1 := ⟨f - 1, by omega⟩
    simp [headT, lnT, parseStmt]
  | .whileT b, f, rest, hw, hf => by
    obtain ⟨f', rfl⟩ : ∃ f', f = f' + 1 := ⟨f - 1, by omega⟩
    obtain ⟨hne, hwb⟩ := hw
    simp only [lnT, List.tail_cons, List.length_append, List.length_cons, List.length_nil] at hf
    have hb := cB b f' false (.endL :: rest) hwb trivial (by simp only [List.length_cons]; omega)
    simp only [headT, lnT, List.tail_cons, List.append_assoc, List.cons_append, List.nil_append, parseStmt, hb, hne]
    simp
  | .forT b, f, rest, hw, hf => by
    obtain ⟨f', rfl⟩ : ∃ f', f = f' + 1 := ⟨f - 1, by omega⟩
    obtain ⟨hne, hwb⟩ := hw
    simp only [lnT, List.tail_cons, List.length_append, List.length_cons, List.length_nil] at hf
    have hb := cB b f' false (.endL :: rest) hwb trivial (by simp only [List.length_cons]; omega)
    simp only [headT, lnT, List.tail_cons, List.append_assoc, List.cons_append, List.nil_append, parseStmt, hb, hne]
    simp
  | .ifT first elifs none, f, rest, hw, hf => by
    obtain ⟨f', rfl⟩ : ∃ f', f = f' + 1 := ⟨f - 1, by omega⟩
    obtain ⟨hne, hwf, hwe⟩ := hw
    simp only [lnT, List.tail_cons, List.length_append, List.length_cons, List.length_nil] at hf
    have htl : Stops true (L.endL :: rest) := trivial
    have hb := cB first f' true (lnBL elifs ++ (.endL :: rest)) hwf (stops_lnBL elifs _ htl)
      (by simp only [List.length_append, List.length_cons]; omega)
    have he := cE elifs none (.endL :: rest) rest f' hwe htl
      (by intro f2 hf2
          obtain ⟨f3, rfl⟩ : ∃ f3, f2 = f3 + 1 := ⟨f2 - 1, by omega⟩
          simp [parseElifs])
      (by simp only [List.length_append, List.length_cons]; omega)
    simp only [headT, lnT, List.tail_cons, List.append_assoc, List.cons_append, List.nil_append, parseStmt, hb, hne, he]
    simp
  | .ifT first elifs (some e), f, rest, hw, hf => by
    obtain ⟨f', rfl⟩ : ∃ f', f = f' + 1 := ⟨f - 1, by omega⟩
    obtain ⟨hne, hwf, hwe, hne2, hwe2⟩ := hw
    simp only [lnT, List.tail_cons, List.length_append, List.length_cons, List.length_nil] at hf
    have htl : Stops true (L.elseL :: (lnB e ++ (L.endL :: rest))) := rfl
    have hb := cB first f' true (lnBL elifs ++ (.elseL :: (lnB e ++ (.endL :: rest)))) hwf (stops_lnBL elifs _ htl)
      (by simp only [List.length_append, List.length_cons]; omega)
    have he := cE elifs (some e) (.elseL :: (lnB e ++ (.endL :: rest))) rest f' hwe htl
      (by intro f2 hf2
          obtain ⟨f3, rfl⟩ : ∃ f3, f2 = f3 + 1 := ⟨f2 - 1, by omega⟩
          have hbe := cB e f3 false (.endL :: rest) hwe2 trivial
            (by simp only [List.length_append, List.length_cons] at hf2 ⊢; omega)
          simp [parseElifs, hbe, hne2])
      (by simp only [List.length_append, List.length_cons]; omega)
    simp only [headT, lnT, List.tail_cons, List.append_assoc, List.cons_append, List.nil_append, parseStmt, hb, hne, he]
    simp
theorem cB : (b : B) → ∀ (f : Nat) (inIf : Bool) (rest : List L), WFB b → Stops inIf rest →
    2 * ((lnB b).length + rest.length) + 1 ≤ f → parseBlock f inIf (lnB b ++ rest) = some (b, rest)
  | .nil, f, inIf, rest, _, hs, hf => by
    obtain ⟨f', rfl⟩ : ∃ f', f = f' + 1 := ⟨f - 1, by omega⟩
    cases rest with
    | nil => simp [lnB, parseBlock]
    | cons l r =>
      cases l <;> simp [Stops] at hs <;> simp [lnB, parseBlock, hs]
  | .cons t r, f, inIf, rest, hw, hs, hf => by
    obtain ⟨f', rfl⟩ : ∃ f', f = f' + 1 := ⟨f - 1, by omega⟩
    obtain ⟨hwt, hwr⟩ := hw
    have hl : (lnT t).length = (lnT t).tail.length + 1 := by rw [lnT_eq t]; simp
    simp only [lnB, List.length_append] at hf
    have ht := cT t f' (lnB r ++ rest) hwt (by simp only [List.length_append]; omega)
    have hr := cB r f' inIf rest hwr hs (by omega)
    rw [lnB, List.append_assoc, lnT_eq t, List.cons_append]
    cases t <;> simp only [headT, parseBlock] at ht ⊢ <;> simp only [ht, hr]
theorem cE : (bl : BL) → ∀ (els : Option B) (tl rest : List L) (f : Nat), WFBL bl → Stops true tl →
    (∀ f', 2 * tl.length + 1 ≤ f' → parseElifs f' tl = some (.nil, els, rest)) →
    2 * ((lnBL bl).length + tl.length) + 1 ≤ f → parseElifs f (lnBL bl ++ tl) = some (bl, els, rest)
  | .nil, els, tl, rest, f, _, _, htl, hf => by
    simpa [lnBL] using htl f (by simpa [lnBL] using hf)
  | .cons b r, els, tl, rest, f, hw, hs, htl, hf => by
    obtain ⟨f', rfl⟩ : ∃ f', f = f' + 1 := ⟨f - 1, by omega⟩
    obtain ⟨hne, hwb, hwr⟩ := hw
    simp only [lnBL, List.length_cons, List.length_append] at hf
    have hb := cB b f' true (lnBL r ++ tl) hwb (stops_lnBL r tl hs) (by simp only [List.length_append]; omega)
    have hr := cE r els tl rest f' hwr hs htl (by omega)
    simp only [lnBL, List.cons_append, List.append_assoc, parseElifs, hb, hne, hr]
    simp
end


/-! ### whole programs -/

def lnProgram (p : List Top) : List L := p.flatMap lnTop

theorem top_sound : ∀ (f : Nat) (ls : List L) (p : List Top), parseTop f ls = some p →
    ls = lnProgram p ∧ ∀ t ∈ p, WFTop t := by
  intro f
  induction f with
  | zero => intro ls p h; simp [parseTop] at h
  | succ n ih =>
    intro ls p h
    have stmtCase : ∀ (l : L) (r : List L),
        (match parseStmt n l r with
          | some (t, r') => (parseTop n r').map (Top.stmt t :: ·)
          | none => none) = some p → l :: r = lnProgram p ∧ ∀ t ∈ p, WFTop t := by
      intro l r h
      split at h
      · rename_i t r' hs
        obtain ⟨e1, w1⟩ := (sound_step n).1 _ _ _ _ hs
        cases hq : parseTop n r' with
        | none => simp [hq] at h
        | some q =>
          simp only [hq, Option.map_some, Option.some.injEq] at h
          subst h
          obtain ⟨e2, w2⟩ := ih _ _ hq
          refine ⟨by simp [lnProgram, lnTop, e1, e2], ?_⟩
          intro t' ht'
          simp only [List.mem_cons] at ht'
          rcases ht' with rfl | ht'
          · exact w1
          · exact w2 _ ht'
      · cases h
    have blockCase : ∀ (mk : B → Top) (hd : L) (r : List L), (∀ b, lnTop (mk b) = hd :: (lnB b ++ [.endL])) →
        (∀ b, WFTop (mk b) = (b.isEmpty = false ∧ WFB b)) →
        (match parseBlock n false r with
          | some (b, .endL :: r') => if b.isEmpty then none else (parseTop n r').map (mk b :: ·)
          | _ => none) = some p → hd :: r = lnProgram p ∧ ∀ t ∈ p, WFTop t := by
      intro mk hd r hln hwf h
      split at h
      · rename_i b r' hb
        obtain ⟨e1, w1, _⟩ := (sound_step n).2.1 _ _ _ _ hb
        split at h
        · cases h
        · rename_i hne
          cases hq : parseTop n r' with
          | none => simp [hq] at h
          | some q =>
            simp only [hq, Option.map_some, Option.some.injEq] at h
            subst h
            obtain ⟨e2, w2⟩ := ih _ _ hq
            refine ⟨by simp [lnProgram, hln, e1, e2], ?_⟩
            intro t' ht'
            simp only [List.mem_cons] at ht'
            rcases ht' with rfl | ht'
            · rw [hwf]; exact ⟨by simpa using hne, w1⟩
            · exact w2 _ ht'
      · cases h
    cases ls with
    | nil => simp only [parseTop] at h; cases h; exact ⟨rfl, by simp⟩
    | cons l r =>
      cases l <;> simp only [parseTop] at h
      · exact stmtCase _ _ h
      · exact stmtCase _ _ h
      · exact stmtCase _ _ h
      · exact stmtCase _ _ h
      · exact stmtCase _ _ h
      · exact stmtCase _ _ h
      · exact stmtCase _ _ h
      · exact blockCase Top.func .funcL r (fun _ => rfl) (fun _ => rfl) h
      · exact blockCase Top.on .onL r (fun _ => rfl) (fun _ => rfl) h
      · exact stmtCase _ _ h

theorem top_complete : ∀ (p : List Top) (f : Nat), (∀ t ∈ p, WFTop t) → 2 * (lnProgram p).length + 1 ≤ f →
    parseTop f (lnProgram p) = some p := by
  intro p
  induction p with
  | nil => intro f _ hf; obtain ⟨f', rfl⟩ : ∃ f', f = f' + 1 := ⟨f - 1, by omega⟩; simp [lnProgram, parseTop]
  | cons t rest ih =>
    intro f hw hf
    obtain ⟨f', rfl⟩ : ∃ f', f = f' + 1 := ⟨f - 1, by omega⟩
    have hwt := hw t (by simp)
    have hwr : ∀ t' ∈ rest, WFTop t' := fun t' h' => hw t' (by simp [h'])
    have hlen : (lnProgram (t :: rest)).length = (lnTop t).length + (lnProgram rest).length := by simp [lnProgram]
    have hpos : 1 ≤ (lnTop t).length := by
      cases t with
      | func b => simp [lnTop]
      | on b => simp [lnTop]
      | stmt s => rw [lnTop, lnT_eq s]; simp
    rw [hlen] at hf
    have hrest := ih f' hwr (by omega)
    cases t with
    | func b =>
      obtain ⟨hne, hwb⟩ := hwt
      simp only [lnTop, List.length_cons, List.length_append, List.length_nil] at hf
      have hb := cB b f' false (.endL :: lnProgram rest) hwb trivial (by simp only [List.length_cons]; omega)
      have e0 : lnProgram (Top.func b :: rest) = lnTop (Top.func b) ++ lnProgram rest := by simp [lnProgram]
      rw [e0]
      simp only [lnTop, List.cons_append, List.append_assoc, List.nil_append, parseTop, hb, hne, hrest]
      try simp
    | on b =>
      obtain ⟨hne, hwb⟩ := hwt
      simp only [lnTop, List.length_cons, List.length_append, List.length_nil] at hf
      have hb := cB b f' false (.endL :: lnProgram rest) hwb trivial (by simp only [List.length_cons]; omega)
      have e0 : lnProgram (Top.on b :: rest) = lnTop (Top.on b) ++ lnProgram rest := by simp [lnProgram]
      rw [e0]
      simp only [lnTop, List.cons_append, List.append_assoc, List.nil_append, parseTop, hb, hne, hrest]
      try simp
    | stmt s =>
      have hl : (lnT s).length = (lnT s).tail.length + 1 := by rw [lnT_eq s]; simp
      simp only [lnTop] at hf
      have hs := cT s f' (lnProgram rest) hwt (by omega)
      have e0 : lnProgram (Top.stmt s :: rest) = lnTop (Top.stmt s) ++ lnProgram rest := by simp [lnProgram]
      rw [e0, lnTop, lnT_eq s, List.cons_append]
      cases s <;> simp only [headT, parseTop] at hs ⊢ <;> simp only [hs, hrest] <;> try simp

/-- **the parser accepts exactly the well-nested programs, and returns the tree whose lines they are**: on any
sequence of lines the parser model returns `p` iff every block of `p` is non-empty and the lines of `p` are the
input — a stray or missing `end`, an `else` outside an if, a second `else`, an empty block, a `func` or `on`
inside a block are all rejected, nothing is ever dropped or invented -/
theorem parse_iff (ls : List L) (p : List Top) :
    parseProgram ls = some p ↔ (ls = lnProgram p ∧ ∀ t ∈ p, WFTop t) := by
  constructor
  · exact top_sound _ ls p
  · rintro ⟨rfl, hw⟩
    exact top_complete p _ hw (by omega)

/-- two trees with the same lines are the same tree: the block structure of an accepted program is unambiguous -/
theorem tree_unique (p q : List Top) (hp : ∀ t ∈ p, WFTop t) (hq : ∀ t ∈ q, WFTop t) (h : lnProgram p = lnProgram q) : p = q := by
  have a := (parse_iff (lnProgram p) p).mpr ⟨rfl, hp⟩
  have b := (parse_iff (lnProgram p) q).mpr ⟨h, hq⟩
  rw [a] at b
  simpa using b


/-! ### indentation: every printed line is indented by its block level -/

/-- the block level of a line and the level after it, read off the line kinds alone: an opening line raises the
level for what follows, `end` lowers it and stands at the lower level, `else` / `else if` stand one level out -/
def step (d : Nat) : L → Nat × Nat
  | .endL => (d - 1, d - 1)
  | .elseL | .elifL => (d - 1, d)
  | .ifL | .whileL | .forL | .funcL | .onL => (d, d + 1)
  | _ => (d, d)

def levels : Nat → List L → List Nat
  | _, [] => []
  | d, l :: r => (step d l).1 :: levels (step d l).2 r

def levelAfter : Nat → List L → Nat
  | d, [] => d
  | d, l :: r => levelAfter (step d l).2 r

theorem levels_append (a b : List L) : ∀ d, levels d (a ++ b) = levels d a ++ levels (levelAfter d a) b := by
  induction a with
  | nil => intro d; rfl
  | cons l r ih => intro d; simp [levels, levelAfter, ih]

theorem levelAfter_append (a b : List L) : ∀ d, levelAfter d (a ++ b) = levelAfter (levelAfter d a) b := by
  induction a with
  | nil => intro d; rfl
  | cons l r ih => intro d; simp [levelAfter, ih]

mutual
theorem pT : (t : T) → ∀ d, (printT d t).map Prod.snd = lnT t ∧ (printT d t).map Prod.fst = levels d (lnT t) ∧ levelAfter d (lnT t) = d
  | .simple, d => by simp [printT, lnT, levels, levelAfter, step]
  | .blank, d => by simp [printT, lnT, levels, levelAfter, step]
  | .whileT b, d => by
    obtain ⟨h1, h2, h3⟩ := pB b (d + 1)
    refine ⟨by simp [printT, lnT, h1], ?_, ?_⟩
    · simp [printT, lnT, levels, step, levels_append, h2, h3]
    · simp [lnT, levelAfter, step, levelAfter_append, h3]
  | .forT b, d => by
    obtain ⟨h1, h2, h3⟩ := pB b (d + 1)
    refine ⟨by simp [printT, lnT, h1], ?_, ?_⟩
    · simp [printT, lnT, levels, step, levels_append, h2, h3]
    · simp [lnT, levelAfter, step, levelAfter_append, h3]
  | .ifT first elifs none, d => by
    obtain ⟨h1, h2, h3⟩ := pB first (d + 1)
    obtain ⟨g1, g2, g3⟩ := pBL elifs d
    refine ⟨by simp [printT, lnT, h1, g1], ?_, ?_⟩
    · simp [printT, lnT, levels, step, levels_append, h2, h3, g2, g3]
    · simp [lnT, levelAfter, step, levelAfter_append, h3, g3]
  | .ifT first elifs (some e), d => by
    obtain ⟨h1, h2, h3⟩ := pB first (d + 1)
    obtain ⟨g1, g2, g3⟩ := pBL elifs d
    obtain ⟨k1, k2, k3⟩ := pB e (d + 1)
    refine ⟨by simp [printT, lnT, h1, g1, k1], ?_, ?_⟩
    · simp [printT, lnT, levels, step, levels_append, h2, h3, g2, g3, k2, k3]
    · simp [lnT, levelAfter, step, levelAfter_append, h3, g3, k3]
theorem pB : (b : B) → ∀ d, (printB d b).map Prod.snd = lnB b ∧ (printB d b).map Prod.fst = levels d (lnB b) ∧ levelAfter d (lnB b) = d
  | .nil, d => by simp [printB, lnB, levels, levelAfter]
  | .cons t r, d => by
    obtain ⟨h1, h2, h3⟩ := pT t d
    obtain ⟨g1, g2, g3⟩ := pB r d
    refine ⟨by simp [printB, lnB, h1, g1], ?_, ?_⟩
    · simp [printB, lnB, levels_append, h2, h3, g2]
    · simp [lnB, levelAfter_append, h3, g3]
/-- the else-if branches of an if statement at level `d`: scanned from inside the body (level d + 1) -/
theorem pBL : (bl : BL) → ∀ d, (printBL d bl).map Prod.snd = lnBL bl ∧ (printBL d bl).map Prod.fst = levels (d + 1) (lnBL bl) ∧
    levelAfter (d + 1) (lnBL bl) = d + 1
  | .nil, d => by simp [printBL, lnBL, levels, levelAfter]
  | .cons b r, d => by
    obtain ⟨h1, h2, h3⟩ := pB b (d + 1)
    obtain ⟨g1, g2, g3⟩ := pBL r d
    refine ⟨by simp [printBL, lnBL, h1, g1], ?_, ?_⟩
    · simp [printBL, lnBL, levels, step, levels_append, h2, h3, g2]
    · simp [lnBL, levelAfter, step, levelAfter_append, h3, g3]
end

theorem pTop (t : Top) : (printTop t).map Prod.snd = lnTop t ∧ (printTop t).map Prod.fst = levels 0 (lnTop t) ∧ levelAfter 0 (lnTop t) = 0 := by
  cases t with
  | func b =>
    obtain ⟨h1, h2, h3⟩ := pB b 1
    exact ⟨by simp [printTop, lnTop, h1], by simp [printTop, lnTop, levels, step, levels_append, h2, h3],
      by simp [lnTop, levelAfter, step, levelAfter_append, h3]⟩
  | on b =>
    obtain ⟨h1, h2, h3⟩ := pB b 1
    exact ⟨by simp [printTop, lnTop, h1], by simp [printTop, lnTop, levels, step, levels_append, h2, h3],
      by simp [lnTop, levelAfter, step, levelAfter_append, h3]⟩
  | stmt s => simpa [printTop, lnTop] using pT s 0

/-- **the printed program**: its lines are the lines of the tree (nothing dropped, nothing added), and every line is
indented by exactly its block level — the number of blocks open at that line, as the line kinds alone determine it -/
theorem indent_is_block_level : ∀ (p : List Top),
    (printProgram p).map Prod.snd = lnProgram p ∧ (printProgram p).map Prod.fst = levels 0 (lnProgram p) ∧ levelAfter 0 (lnProgram p) = 0 := by
  intro p
  induction p with
  | nil => simp [printProgram, lnProgram, levels, levelAfter]
  | cons t rest ih =>
    obtain ⟨h1, h2, h3⟩ := pTop t
    obtain ⟨g1, g2, g3⟩ := ih
    have e0 : lnProgram (t :: rest) = lnTop t ++ lnProgram rest := by simp [lnProgram]
    have e1 : printProgram (t :: rest) = printTop t ++ printProgram rest := by simp [printProgram]
    rw [e0, e1]
    refine ⟨by simp [h1, g1], ?_, ?_⟩
    · simp [levels_append, h2, h3, g2]
    · simp [levelAfter_append, h3, g3]

/-- **format, then parse again**: the printed lines of an accepted program are accepted and give the same tree -/
theorem printed_program_is_read_back (ls : List L) (p : List Top) (h : parseProgram ls = some p) :
    parseProgram ((printProgram p).map Prod.snd) = some p ∧ (printProgram p).map Prod.snd = ls := by
  obtain ⟨e, hw⟩ := (parse_iff ls p).mp h
  have := (indent_is_block_level p).1
  exact ⟨by rw [this]; exact (parse_iff _ p).mpr ⟨rfl, hw⟩, by rw [this, e]⟩

/-! examples -/
example : parseProgram [.s, .ifL, .s, .elifL, .blank, .elseL, .whileL, .s, .endL, .endL, .funcL, .s, .endL] =
    some [.stmt .simple,
      .stmt (.ifT (.cons .simple .nil) (.cons (.cons .blank .nil) .nil) (some (.cons (.whileT (.cons .simple .nil)) .nil))),
      .func (.cons .simple .nil)] := by rfl
example : parseProgram [.ifL, .endL] = none := by decide                      -- empty block
example : parseProgram [.ifL, .s] = none := by decide                         -- missing end
example : parseProgram [.s, .endL] = none := by decide                        -- stray end
example : parseProgram [.ifL, .s, .elseL, .s, .elseL, .s, .endL] = none := by decide   -- second else
example : parseProgram [.ifL, .s, .elseL, .s, .elifL, .s, .endL] = none := by decide   -- else if after else
example : parseProgram [.whileL, .funcL, .s, .endL, .endL] = none := by decide         -- func inside a block
example : parseProgram [.whileL, .s, .elseL, .s, .endL] = none := by decide            -- else outside an if
example : (printProgram [.stmt (.ifT (.cons (.whileT (.cons .simple .nil)) .nil) .nil (some (.cons .simple .nil)))]).map Prod.fst =
    [0, 1, 2, 1, 0, 1, 0] := by decide

end EvyV.Blocks
