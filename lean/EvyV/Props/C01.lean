import EvyV.Props.EvalCore
import EvyV.Gen.Tables
/-
C01 — expressions evaluate as the language definition prescribes.

(a) The binding-power table, operator classes and token→operator map extracted
    from expression.go / operator.go ARE the specification's precedence levels
    (docs/spec.md §Precedence: or < and < ==,!= < <,<=,>,>= < +,- < *,/,% < unary
    < indexing/field), with a strict loop test (left associativity).
(b) Operator meaning, operand order and short circuit, for the evaluator model:
    every theorem is for all sub-expressions, states and numbers.
The grouping of whole source texts is checked by the harness by comparing the
real parser's tree with the intended tree for thousands of generated layouts.
-/
namespace EvyV.C01
open EvyV

/-- spec.md precedence levels, lowest first -/
def specLevel : String → Option Nat
  | "OR" => some 1
  | "AND" => some 2
  | "EQ" | "NOT_EQ" => some 3
  | "LT" | "GT" | "LTEQ" | "GTEQ" => some 4
  | "PLUS" | "MINUS" => some 5
  | "ASTERISK" | "SLASH" | "PERCENT" => some 6
  | "LBRACKET" | "DOT" => some 8
  | _ => none

theorem prec_table_is_spec :
    (∀ p ∈ Gen.precedences, specLevel p.1 = some p.2) ∧ Gen.precedences.length = 15 := by decide

theorem left_associative_loop :
    Gen.parseExprLoopIsStrict = true ∧ Gen.binaryRightUsesOwnPrec = true ∧ Gen.unaryOperandUsesUnaryPrec = true ∧
    Gen.precLevels = ["lowestPrec", "orPrec", "andPrec", "equalsPrec", "lessgreaterPrec", "sumPrec", "productPrec",
                      "unaryPrec", "indexPrec"] := by decide

theorem operator_classes :
    Gen.isComparisonOpTokens = ["EQ", "GT", "GTEQ", "LT", "LTEQ", "NOT_EQ"] ∧
    Gen.isBinaryOpTokens = ["AND", "ASTERISK", "MINUS", "OR", "PERCENT", "PLUS", "SLASH"] ∧
    Gen.tokenOperator = [("AND", "OP_AND"), ("ASTERISK", "OP_ASTERISK"), ("BANG", "OP_BANG"), ("DOT", "OP_DOT"),
      ("EQ", "OP_EQ"), ("GT", "OP_GT"), ("GTEQ", "OP_GTEQ"), ("LBRACKET", "OP_INDEX"), ("LT", "OP_LT"),
      ("LTEQ", "OP_LTEQ"), ("MINUS", "OP_MINUS"), ("NOT_EQ", "OP_NOT_EQ"), ("OR", "OP_OR"),
      ("PERCENT", "OP_PERCENT"), ("PLUS", "OP_PLUS"), ("SLASH", "OP_SLASH")] := by decide

variable {F : Type} (ops : NumOps F) (ext : Ext F) (prog : Program F)

/-! ### operator table on evaluated operands -/

theorem num_ops (st : St F) (a b : F) :
    applyBinary ops ext st .plus (.num a) (.num b) = .ok (.num (ops.add a b)) st ∧
    applyBinary ops ext st .minus (.num a) (.num b) = .ok (.num (ops.sub a b)) st ∧
    applyBinary ops ext st .asterisk (.num a) (.num b) = .ok (.num (ops.mul a b)) st ∧
    applyBinary ops ext st .slash (.num a) (.num b) = .ok (.num (ops.div a b)) st ∧
    applyBinary ops ext st .lt (.num a) (.num b) = .ok (.bool (ops.lt a b)) st ∧
    applyBinary ops ext st .gt (.num a) (.num b) = .ok (.bool (ops.lt b a)) st ∧
    applyBinary ops ext st .lteq (.num a) (.num b) = .ok (.bool (ops.le a b)) st ∧
    applyBinary ops ext st .gteq (.num a) (.num b) = .ok (.bool (ops.le b a)) st := by
  simp [applyBinary, binNum]

theorem string_ops (st : St F) (a b : Str) :
    applyBinary ops ext st .plus (.str a) (.str b) = .ok (.str (a ++ b)) st ∧
    applyBinary ops ext st .lt (.str a) (.str b) = .ok (.bool (strLt a b)) st ∧
    applyBinary ops ext st .gt (.str a) (.str b) = .ok (.bool (strLt b a)) st ∧
    applyBinary ops ext st .lteq (.str a) (.str b) = .ok (.bool (!strLt b a)) st ∧
    applyBinary ops ext st .gteq (.str a) (.str b) = .ok (.bool (!strLt a b)) st := by
  simp [applyBinary, binStr]

theorem bool_ops (st : St F) (a b : Bool) :
    applyBinary ops ext st .and (.bool a) (.bool b) = .ok (.bool (a && b)) st ∧
    applyBinary ops ext st .or (.bool a) (.bool b) = .ok (.bool (a || b)) st := by
  simp [applyBinary, binBool]

/-- `==` / `!=` are deep equality of values, `!=` its negation -/
theorem eq_neq_are_complementary (st : St F) (a b : Val F) (r : Bool)
    (h : applyBinary ops ext st .eq a b = .ok (.bool r) st) :
    applyBinary ops ext st .neq a b = .ok (.bool (!r)) st := by
  unfold applyBinary at *
  simp only [Bool.or_true, Bool.true_or, if_true, decide_true, ne_eq, reduceCtorEq, not_false_eq_true,
    not_true_eq_false, decide_false] at *
  cases hq : valEquals ops st.heap (auxFuel st) a b <;> simp [hq] at h ⊢ <;> simp_all

/-- concatenation builds a new array: elements of the left then of the right operand -/
theorem array_concat (st : St F) (la ra : Nat) (ls rs : List (Val F))
    (hl : heapGet st la = some (.arr ls)) (hr : heapGet st ra = some (.arr rs)) :
    applyBinary ops ext st .plus (.arr la) (.arr ra) = .ok (.arr st.heap.size) (alloc st (.arr (ls ++ rs))).2 := by
  simp [applyBinary, binArr, hl, hr, alloc]

/-! ### evaluation order and short circuit (one step of `eval`) -/

/-- the left operand is evaluated first; if it fails the right one is never evaluated -/
theorem binary_left_first (n : Nat) (op : Op) (l r : Expr F) (st st1 st2 : St F) (o : Outcome)
    (ht : tick st = some st1) (hl : evalE ops ext prog n l st1 = .err o st2) :
    evalE ops ext prog (n + 1) (.binary op l r) st = .err o st2 := by
  simp [evalE, ht, hl]

/-- then the right operand, in the state the left one left behind -/
theorem binary_then_right (n : Nat) (op : Op) (l r : Expr F) (st st1 st2 st3 : St F) (lv rv : Val F)
    (ht : tick st = some st1) (hl : evalE ops ext prog n l st1 = .ok lv st2)
    (hns : canShortCircuit op lv = false) (hr : evalE ops ext prog n r st2 = .ok rv st3) :
    evalE ops ext prog (n + 1) (.binary op l r) st = applyBinary ops ext st3 op lv rv := by
  simp [evalE, ht, hl, hns, hr]

/-- `and` with a false left operand: the result is false and the right operand is NOT evaluated
(the final state is the state after the left operand) -/
theorem and_short_circuit (n : Nat) (l r : Expr F) (st st1 st2 : St F)
    (ht : tick st = some st1) (hl : evalE ops ext prog n l st1 = .ok (.bool false) st2) :
    evalE ops ext prog (n + 1) (.binary .and l r) st = .ok (.bool false) st2 := by
  simp [evalE, ht, hl, canShortCircuit, applyBinary, binBool]

/-- `or` with a true left operand likewise -/
theorem or_short_circuit (n : Nat) (l r : Expr F) (st st1 st2 : St F)
    (ht : tick st = some st1) (hl : evalE ops ext prog n l st1 = .ok (.bool true) st2) :
    evalE ops ext prog (n + 1) (.binary .or l r) st = .ok (.bool true) st2 := by
  simp [evalE, ht, hl, canShortCircuit, applyBinary, binBool]

/-- only `and`/`or` on a bool short-circuit -/
theorem short_circuit_only_and_or (op : Op) (v : Val F) (h : canShortCircuit op v = true) :
    (op = .and ∧ v = .bool false) ∨ (op = .or ∧ v = .bool true) := by
  unfold canShortCircuit at h
  cases v <;> cases op <;> simp_all

/-- list elements / call arguments: head first, then the rest in the state the head left -/
theorem list_left_to_right (n : Nat) (e : Expr F) (es : List (Expr F)) (st st1 st2 : St F) (v : Val F) (vs : List (Val F))
    (h1 : evalE ops ext prog n e st = .ok v st1) (h2 : evalList ops ext prog n es st1 = .ok vs st2) :
    evalList ops ext prog (n + 1) (e :: es) st = .ok (v :: vs) st2 := by
  simp [evalList, h1, h2]

theorem list_stops_at_first_error (n : Nat) (e : Expr F) (es : List (Expr F)) (st st1 : St F) (o : Outcome)
    (h1 : evalE ops ext prog n e st = .err o st1) :
    evalList ops ext prog (n + 1) (e :: es) st = .err o st1 := by
  simp [evalList, h1]

/-- map literal values in source order -/
theorem map_values_in_source_order (n : Nat) (k : Str) (e : Expr F) (ps : List (Str × Expr F)) (st st1 st2 : St F)
    (v : Val F) (vs : List (Key × Val F))
    (h1 : evalE ops ext prog n e st = .ok v st1) (h2 : evalPairs ops ext prog n ps st1 = .ok vs st2) :
    evalPairs ops ext prog (n + 1) ((k, e) :: ps) st = .ok ((k, v) :: vs) st2 := by
  simp [evalPairs, h1, h2]

/-- a group evaluates to its content -/
theorem group_transparent (n : Nat) (e : Expr F) (st st1 : St F) (ht : tick st = some st1) :
    evalE ops ext prog (n + 1) (.group e) st = evalE ops ext prog n e st1 := by
  simp [evalE, ht]

/-- unary minus and not -/
theorem unary_ops (n : Nat) (e : Expr F) (st st1 st2 : St F) (ht : tick st = some st1) :
    (∀ v, evalE ops ext prog n e st1 = .ok (.num v) st2 →
      evalE ops ext prog (n + 1) (.unary .minus e) st = .ok (.num (ops.neg v)) st2) ∧
    (∀ b, evalE ops ext prog n e st1 = .ok (.bool b) st2 →
      evalE ops ext prog (n + 1) (.unary .bang e) st = .ok (.bool (!b)) st2) := by
  constructor <;> intro v h <;> simp [evalE, ht, h]

/-! Non-vacuity (integer toy carrier): `false and (1/0 …)` never touches the right operand -/
example : ∃ st', evalE intOps ⟨fun _ _ => none⟩ ⟨[], [], []⟩ 5
    (.binary .and (.bool false) (.var ['u'])) ({} : St Int) = .ok (.bool false) st' := ⟨_, rfl⟩
example : ∃ st', evalE intOps ⟨fun _ _ => none⟩ ⟨[], [], []⟩ 5
    (.binary .minus (.num 7) (.binary .asterisk (.num 2) (.num 3))) ({} : St Int) = .ok (.num 1) st' := ⟨_, rfl⟩

end EvyV.C01
