import EvyV.Props.EvalCore
import EvyV.Props.Frame
/-
C10 — lexical scoping and structured control flow.
-/
namespace EvyV.C10
open EvyV
variable {F : Type} (ops : NumOps F) (ext : Ext F) (prog : Program F)

/-- a block scope pushed for `if`/`else`/`while`/`for` bodies is popped again: the scope stack
after the construct is the scope stack before it -/
theorem block_scope_restored (st : St F) : popScope (pushScope st) = st := pop_push st

/-- declarations inside a pushed block go to the new innermost scope: the outer scopes and the
globals are untouched, so after the pop the outer variable is back unchanged (shadowing) -/
theorem shadow_restores_outer (st : St F) (n : Str) (v : Val F) :
    popScope (setVar (pushScope st) n v) = st := by
  unfold setVar pushScope popScope
  by_cases h : n = underscore <;> simp [h]

/-- … also after several declarations and rebinding of the inner variable -/
theorem shadow_restores_outer2 (st : St F) (n m : Str) (v w : Val F) :
    popScope (setVar (setVar (pushScope st) n v) m w) = st := by
  unfold setVar pushScope popScope
  by_cases h : n = underscore <;> by_cases h2 : m = underscore <;> simp [h, h2]

/-- lookup is innermost first: a block-local declaration shadows an outer one of the same name -/
theorem innermost_wins (st : St F) (n : Str) (v : Val F) (h : n ≠ underscore) :
    getVar (setVar (pushScope st) n v) n = some v := by
  unfold getVar setVar pushScope
  simp [h, scopeSet, scopeGet, List.lookup]

theorem calleeState_globals (fd : FuncDef F) (vs : List (Val F)) (st' : St F) (hv : fd.variadic = none)
    (hp : fd.params = []) : (calleeState fd vs st').global = st'.global ∧ (calleeState fd vs st').locals = [[]] := by
  simp [calleeState, hv, hp, bindParams]

/-- a function body sees only its parameters, its own locals and the globals, and the caller's
scope stack is restored after the call, whatever happens in the callee -/
theorem call_runs_in_fresh_scope (n : Nat) (name : Str) (args : List (Expr F)) (st st' : St F) (vs : List (Val F))
    (fd : FuncDef F)
    (ha : evalList ops ext prog n args st = .ok vs st')
    (hb : callBuiltin ops ext name vs st' = none)
    (hf : lookupFunc prog.funcs name = some fd) (hl : ¬ vs.length < fd.params.length) :
    (∀ o st4, execBlockNode ops ext prog n fd.body (calleeState fd vs st') = .err o st4 →
      evalCall ops ext prog (n + 1) name args st = .err o { st4 with locals := st'.locals }) ∧
    (∀ v st4, execBlockNode ops ext prog n fd.body (calleeState fd vs st') = .ok (.ret (some v)) st4 →
      evalCall ops ext prog (n + 1) name args st = .ok v { st4 with locals := st'.locals }) ∧
    (∀ st4, execBlockNode ops ext prog n fd.body (calleeState fd vs st') = .ok .normal st4 →
      evalCall ops ext prog (n + 1) name args st = .ok .none { st4 with locals := st'.locals }) ∧
    (∀ st4, execBlockNode ops ext prog n fd.body (calleeState fd vs st') = .ok (.ret none) st4 →
      evalCall ops ext prog (n + 1) name args st = .ok .none { st4 with locals := st'.locals }) := by
  refine ⟨?_, ?_, ?_, ?_⟩ <;> intro a <;> intros <;> rename_i h <;>
    simp only [evalCall, ha, hb, hf, if_neg hl, h]

/-- `break` and `return` stop the statement sequence they are in: nothing after them runs -/
theorem break_return_leave_sequence (n : Nat) (s : Stmt F) (rest : List (Stmt F)) (st st' : St F) (c : Completion F)
    (h : execS ops ext prog n s st = .ok c st') (hc : c ≠ .normal) :
    execStmts ops ext prog (n + 1) (s :: rest) st = .ok c st' := by
  cases c with
  | normal => exact absurd rfl hc
  | brk => simp [execStmts, h]
  | ret v => simp [execStmts, h]

/-- `break` leaves exactly the loop it is in: a while loop whose body completes with `break`
completes normally (the break does not travel further out) … -/
theorem break_leaves_innermost_while (n : Nat) (c : Expr F) (body : List (Stmt F)) (st st' : St F)
    (h : execCond ops ext prog n c body st = .ok (.brk, true) st') :
    execWhile ops ext prog (n + 1) c body st = .ok .normal st' := by
  simp [execWhile, h]

/-- … whereas `return` travels through the loop unchanged -/
theorem return_passes_through_while (n : Nat) (c : Expr F) (body : List (Stmt F)) (st st' : St F) (v : Option (Val F))
    (h : execCond ops ext prog n c body st = .ok (.ret v, true) st') :
    execWhile ops ext prog (n + 1) c body st = .ok (.ret v) st' := by
  simp [execWhile, h]

theorem break_leaves_innermost_for (n : Nat) (lv : Str) (r r' : Ranger F) (body : List (Stmt F)) (st st1 st' : St F) (v : Val F)
    (hn : rangerNext ops st r = some (v, r')) (hu : updateVar st lv v = some st1)
    (h : execBlockNode ops ext prog n body (pushScope st1) = .ok .brk st') :
    execForLoop ops ext prog (n + 1) lv r body st = .ok .normal (popScope st') := by
  simp [execForLoop, hn, hu, h]

theorem return_passes_through_for (n : Nat) (lv : Str) (r r' : Ranger F) (body : List (Stmt F)) (st st1 st' : St F) (v : Val F)
    (rv : Option (Val F))
    (hn : rangerNext ops st r = some (v, r')) (hu : updateVar st lv v = some st1)
    (h : execBlockNode ops ext prog n body (pushScope st1) = .ok (.ret rv) st') :
    execForLoop ops ext prog (n + 1) lv r body st = .ok (.ret rv) (popScope st') := by
  simp [execForLoop, hn, hu, h]

/-- `while` tests its condition before every iteration, also the first -/
theorem while_tests_first (n : Nat) (c : Expr F) (body : List (Stmt F)) (st st' : St F) (comp : Completion F)
    (h : execCond ops ext prog n c body st = .ok (comp, false) st') :
    execWhile ops ext prog (n + 1) c body st = .ok .normal st' := by
  simp [execWhile, h]

/-! ### ranges -/

/-- numeric range: the next value is the current one, the loop ends exactly when the current
value has reached or passed `stop` in the direction of `step` -/
theorem stepRange_next (st : St F) (cur stop step : F) :
    rangerNext ops st (.step cur stop step) =
      if (ops.lt ops.zero step && ops.le stop cur) || (ops.lt step ops.zero && ops.le cur stop) then none
      else some (.num cur, .step (ops.add cur step) stop step) := by
  unfold rangerNext
  by_cases h1 : (ops.lt ops.zero step && ops.le stop cur) = true
  · simp [h1]
  · by_cases h2 : (ops.lt step ops.zero && ops.le cur stop) = true
    · simp [h1, h2]
    · simp [h1, h2]

/-- start, stop and step are part of the ranger: evaluated once at loop entry, never again -/
theorem stepRange_operands_fixed (st st2 : St F) (cur stop step : F) (v : Val F) (r : Ranger F)
    (h : rangerNext ops st (.step cur stop step) = some (v, r)) :
    r = .step (ops.add cur step) stop step ∧ rangerNext ops st2 (.step cur stop step) = some (v, r) := by
  rw [stepRange_next] at h
  split at h
  · simp at h
  · rename_i hc
    simp only [Option.some.injEq, Prod.mk.injEq] at h
    refine ⟨h.2.symm, ?_⟩
    rw [stepRange_next]; simp [hc, h.1, h.2]

/-- array range: element `cur` of the array as it is now, then `cur+1` -/
theorem arrayRange_next (st : St F) (a cur : Nat) (es : List (Val F)) (h : heapGet st a = some (.arr es)) :
    rangerNext ops st (.arr a cur) = (es[cur]?).map (fun v => (v, .arr a (cur + 1))) := by
  simp [rangerNext, h]
  cases es[cur]? <;> rfl

/-- string range: code point `cur` of the string captured at loop entry -/
theorem stringRange_next (st : St F) (rs : Str) (cur : Nat) :
    rangerNext ops st (.str rs cur) = (rs[cur]?).map (fun c => (.str [c], .str rs (cur + 1))) := by
  simp [rangerNext]
  cases rs[cur]? <;> rfl

/-- map range: the next key of the snapshot taken at loop entry that is still present; keys
deleted in the meantime are skipped, keys not in the snapshot are never produced -/
theorem nextPresent_spec {V : Type} (m : MapVal V) (order : List Key) (k : Key) (rest : List Key)
    (h : nextPresent m order = some (k, rest)) :
    m.has k = true ∧ ∃ skipped, order = skipped ++ k :: rest ∧ ∀ x ∈ skipped, m.has x = false := by
  induction order with
  | nil => simp [nextPresent] at h
  | cons a tl ih =>
    simp only [nextPresent] at h
    by_cases ha : m.has a = true
    · simp only [ha, if_true, Option.some.injEq, Prod.mk.injEq] at h
      obtain ⟨rfl, rfl⟩ := h
      exact ⟨ha, [], rfl, by simp⟩
    · simp only [ha] at h
      obtain ⟨h1, sk, h2, h3⟩ := ih h
      refine ⟨h1, a :: sk, by simp [h2], ?_⟩
      intro x hx
      simp only [List.mem_cons] at hx
      rcases hx with rfl | hx
      · simpa using ha
      · exact h3 x hx

theorem nextPresent_none {V : Type} (m : MapVal V) (order : List Key) (h : nextPresent m order = none) :
    ∀ x ∈ order, m.has x = false := by
  induction order with
  | nil => simp
  | cons a tl ih =>
    simp only [nextPresent] at h
    by_cases ha : m.has a = true
    · simp [ha] at h
    · simp only [ha] at h
      intro x hx
      simp only [List.mem_cons] at hx
      rcases hx with rfl | hx
      · simpa using ha
      · exact ih h x hx

theorem mapRange_next (st : St F) (a : Nat) (order : List Key) (m : MapVal (Val F))
    (h : heapGet st a = some (.map m)) :
    rangerNext ops st (.map a order) = (nextPresent m order).map (fun p => (.str p.1, .map a p.2)) := by
  simp only [rangerNext, h]

/-- a zero step is the documented run-time panic (checked before the first iteration) -/
theorem zero_step_panics (n : Nat) (st st1 : St F) (lv : Option Str) (ty : Ty) (a b c : Expr F) (body : List (Stmt F))
    (s1 s2 s3 : St F) (x y z : F)
    (ht : tick st = some st1)
    (ha : evalNumOr ops ext prog n (some a) ops.zero (pushScope st1) = .ok x s1)
    (hb : evalNumOr ops ext prog n (some b) ops.zero s1 = .ok y s2)
    (hc : evalNumOr ops ext prog n (some c) ops.one s2 = .ok z s3)
    (hz : ops.eq z ops.zero = true) :
    execS ops ext prog (n + 1) (.forS lv ty (.step (some a) b (some c)) body) st = .err (.panic .rangeValue) (popScope s3) := by
  simp [execS, ht, ha, hb, hc, hz]

/-- **whole programs** (Props/Frame.lean, by induction over the step budget for all functions of the
interpreter): any statement list — whatever it contains, however it ends (normally, break, return,
panic, stop) — leaves the scope stack as deep as it found it -/
theorem every_scope_is_popped (n : Nat) (b : List (Stmt F)) (st : St F) :
    (execStmts ops ext prog n b st).st.locals.length = st.locals.length := scopes_balanced ops ext prog n b st

theorem every_scope_is_popped_expr (n : Nat) (e : Expr F) (st : St F) :
    (evalE ops ext prog n e st).st.locals.length = st.locals.length := scopes_balanced_expr ops ext prog n e st

/-- **whole programs**: an if chain or a while loop, whatever the bodies declare and however they end,
leaves every scope with exactly the names it had — a declaration inside a block is not visible after
the block, and shadowing an outer name inside never removes or renames the outer one -/
theorem block_declarations_do_not_leak (n : Nat) (s : Stmt F) (st : St F)
    (hs : (∃ cs e, s = .ifS cs e) ∨ (∃ c b, s = .whileS c b)) :
    (execS ops ext prog n s st).st.locals.map keys = st.locals.map keys :=
  if_while_declare_nothing_outside ops ext prog n s st hs

/-- the same for every kind of `for` statement: the loop variable and what the body declares are gone
after the loop, on every exit path -/
theorem for_declarations_do_not_leak (n : Nat) (lv : Option Str) (lvTy : Ty) (range : ForRange F) (body : List (Stmt F)) (st : St F) :
    (execS ops ext prog n (.forS lv lvTy range body) st).st.locals.map keys = st.locals.map keys :=
  for_declares_nothing_outside ops ext prog n lv lvTy range body st

/-- and in general (any statement list): outer scopes keep exactly their names, the innermost scope
keeps its names in order and may gain the ones declared at this level -/
theorem names_only_added_at_this_level (n : Nat) (b : List (Stmt F)) (st : St F) :
    ScopesExt st.locals (execStmts ops ext prog n b st).st.locals :=
  ((frame_invariant ops ext prog n).2.2.2.2.2.2.1 b st).locals

end EvyV.C10
