import EvyV.Props.EvalCore
import EvyV.Props.Frame
/-
C09 — basic values are copied, composites are shared.

In the model num/string/bool values are immutable data held directly in
variables, array elements and map values; there is no operation that changes
one in place (the harness checks the real evaluator against this on every alias
pattern). So "a later change to one variable never shows through another" is:
rebinding a name changes what that name denotes and nothing else. Arrays and maps
are addresses into a heap; slicing, concatenation and repetition allocate.
-/
namespace EvyV.C09
open EvyV
variable {F : Type} (ops : NumOps F) (ext : Ext F) (prog : Program F)

/-- declaring / rebinding `n` in a scope does not change any other name of that scope -/
theorem set_other_unchanged (s : Scope F) (n m : Str) (v : Val F) (h : m ≠ n) :
    scopeGet (scopeSet s n v) m = scopeGet s m := by
  rw [scopeGet_scopeSet]; simp [h]

theorem set_reads_back (s : Scope F) (n : Str) (v : Val F) :
    scopeGet (scopeSet s n v) n = some v := by
  rw [scopeGet_scopeSet]; simp

/-- a declaration binds the value itself; the heap (all arrays and maps) is untouched, so no
other variable, element or map value changes -/
theorem decl_touches_only_its_name (st : St F) (n : Str) (v : Val F) :
    (setVar st n v).heap = st.heap ∧ (setVar st n v).trace = st.trace := by
  unfold setVar
  split
  · exact ⟨rfl, rfl⟩
  · split <;> exact ⟨rfl, rfl⟩

/-- assignment to a variable rebinds the nearest declaration and leaves the heap alone:
composites are shared (the address is copied), never copied implicitly -/
theorem assign_rebinds_only (st st' : St F) (n : Str) (v : Val F) (h : updateVar st n v = some st') :
    st'.heap = st.heap ∧ st'.trace = st.trace := by
  unfold updateVar at h
  split at h
  · injection h with h; subst h; exact ⟨rfl, rfl⟩
  · split at h
    · injection h with h; subst h; exact ⟨rfl, rfl⟩
    · split at h
      · injection h with h; subst h; exact ⟨rfl, rfl⟩
      · simp at h

/-- an element store changes exactly one heap object: every other array and map — and so every
basic value stored anywhere else — is unchanged -/
theorem element_store_is_local (st : St F) (a b : Nat) (o : Obj F) (h : b ≠ a) :
    heapGet (heapSet st a o) b = heapGet st b := by
  simp [heapGet, heapSet, Array.getElem?_setIfInBounds, h.symm]

/-- a composite value is an address: binding it to a second name shares the object, so an
element store through one name is visible through the other -/
theorem composites_shared (st : St F) (a : Nat) (o : Obj F) (h : a < st.heap.size) :
    heapGet (heapSet st a o) a = some o := by
  simp [heapGet, heapSet, h]

/-- **slicing an array produces a fresh container**: a new address, no existing object changed -/
theorem slice_fresh (st : St F) (a : Nat) (es : List (Val F)) (s e : Option (Val F)) (st' : St F) (b : Nat)
    (hg : heapGet st a = some (.arr es))
    (h : sliceVal ops st (.arr a) s e = .ok (.arr b) st') :
    b = st.heap.size ∧ heapGet st b = none ∧ (∀ c, c < st.heap.size → heapGet st' c = heapGet st c) := by
  unfold sliceVal at h
  cases hs : numOpt s <;> cases he : numOpt e <;> simp only [hs, he, hg] at h <;> try (simp at h)
  rename_i s' e'
  cases hl : sliceList ops es s' e' with
  | error er => simp [hl] at h
  | ok r =>
    cases r with
    | none => simp [hl] at h
    | some l =>
      simp only [hl] at h
      have hf := alloc_fresh st (Obj.arr l)
      simp only [alloc] at h hf
      injection h with h1 h2
      injection h1 with h1
      subst h1 h2
      exact ⟨rfl, hf.1, hf.2.1⟩

/-- **concatenation produces a fresh container** -/
theorem concat_fresh (st : St F) (la ra : Nat) (ls rs : List (Val F))
    (hl : heapGet st la = some (.arr ls)) (hr : heapGet st ra = some (.arr rs)) :
    ∃ st', applyBinary ops ext st .plus (.arr la) (.arr ra) = .ok (.arr st.heap.size) st' ∧
      heapGet st st.heap.size = none ∧ heapGet st' st.heap.size = some (.arr (ls ++ rs)) ∧
      (∀ c, c < st.heap.size → heapGet st' c = heapGet st c) := by
  refine ⟨(alloc st (.arr (ls ++ rs))).2, ?_, ?_, ?_, ?_⟩
  · simp [applyBinary, binArr, hl, hr, alloc]
  · simp [heapGet]
  · simp [heapGet, alloc]
  · exact (alloc_fresh st _).2.1

/-- deep copy (used by repetition: "repetition copies nested composites too") never returns an
address that existed before for an array, at any nesting depth (the elements are deep-copied
first, then the new array is allocated) -/
theorem deepCopy_fresh_array (fuel : Nat) (st st' : St F) (a b : Nat)
    (h : deepCopy (fuel + 1) (.arr a) st = some (.arr b, st')) : st.heap.size ≤ b := by
  unfold deepCopy at h
  cases hg : heapGet st a with
  | none => simp [hg] at h
  | some o =>
    cases o with
    | map m => simp [hg] at h
    | arr elems =>
      simp only [hg] at h
      cases hd : deepCopyList fuel elems st with
      | none => simp [hd] at h
      | some p =>
        obtain ⟨es, st1⟩ := p
        simp only [hd, alloc] at h
        simp only [Option.some.injEq, Prod.mk.injEq, Val.arr.injEq] at h
        obtain ⟨h1, _⟩ := h
        subst h1
        -- the heap only grows during the copy of the elements
        exact (deepCopy_heap_mono fuel).2.1 elems st es st1 hd

/-- **whole programs**: no execution frees or moves an object; an address held by any variable,
element or field stays valid, so two holders of one composite keep seeing the same object -/
theorem composites_never_move (n : Nat) (b : List (Stmt F)) (st : St F) (a : Nat) (h : a < st.heap.size) :
    a < (execStmts ops ext prog n b st).st.heap.size := addresses_stay_valid ops ext prog n b st a h

end EvyV.C09
