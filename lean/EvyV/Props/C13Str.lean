import EvyV.Model.Builtins
/-!
C13, the string built-ins whose logic is in the model itself (not behind the library oracle):
`startswith`, `endswith`, `index`, and the separator logic of `join` — what docs/builtins.md says, for all
strings (lists of code points).
-/
namespace EvyV.C13
open EvyV

/-- `startswith s p`: p is an initial part of s -/
theorem isPrefix_iff (p s : Str) : isPrefix p s = true ↔ p <+: s := by
  induction p generalizing s with
  | nil => simp [isPrefix]
  | cons a as ih =>
    cases s with
    | nil => simp [isPrefix]
    | cons b bs =>
      simp only [isPrefix, Bool.and_eq_true, beq_iff_eq, ih, List.cons_prefix_cons]

/-- `endswith s p`: p is a final part of s -/
theorem endswith_iff (p s : Str) : isPrefix p.reverse s.reverse = true ↔ p <:+ s := by
  rw [isPrefix_iff, List.reverse_prefix]

/-- `index s sub` when it is not -1: `sub` occurs at the returned position … -/
theorem strIndex_found (s sub : Str) (i : Nat) (k : Int) (h : strIndex s sub i = k) (hk : k ≠ -1) :
    ∃ j : Nat, k = (i + j : Nat) ∧ j ≤ s.length ∧ sub <+: s.drop j := by
  induction s generalizing i with
  | nil =>
    simp only [strIndex] at h
    split at h
    · rename_i he
      refine ⟨0, by simpa using h.symm, by simp, ?_⟩
      have : sub = [] := by simpa using he
      simp [this]
    · exact absurd h.symm hk
  | cons c rest ih =>
    simp only [strIndex] at h
    split at h
    · rename_i hp
      exact ⟨0, by simpa using h.symm, by simp, by simpa using (isPrefix_iff sub (c :: rest)).mp hp⟩
    · obtain ⟨j, hj, hl, hpre⟩ := ih (i + 1) h
      exact ⟨j + 1, by rw [hj]; congr 1; omega, by simpa using hl, by simpa using hpre⟩

/-- … and at no earlier position: the result is the FIRST occurrence -/
theorem strIndex_first (s sub : Str) (i : Nat) (j : Nat) (h : strIndex s sub i = ((i + j : Nat) : Int)) :
    ∀ j' < j, ¬ sub <+: s.drop j' := by
  induction s generalizing i j with
  | nil =>
    intro j' hj'
    simp only [strIndex] at h
    split at h
    · have : i = i + j := by exact_mod_cast h
      omega
    · have : ((i + j : Nat) : Int) ≥ 0 := by exact_mod_cast Nat.zero_le _
      omega
  | cons c rest ih =>
    intro j' hj'
    simp only [strIndex] at h
    split at h
    · have : i = i + j := by exact_mod_cast h
      omega
    · rename_i hp
      cases j' with
      | zero =>
        intro hpre
        exact hp (by simpa using (isPrefix_iff sub (c :: rest)).mpr hpre)
      | succ j'' =>
        cases j with
        | zero => omega
        | succ j0 =>
          have h' : strIndex rest sub (i + 1) = (((i + 1) + j0 : Nat) : Int) := by
            rw [h]; congr 1; omega
          simpa using ih (i + 1) j0 h' j'' (by omega)

/-- `index` is -1 exactly when `sub` occurs nowhere -/
theorem strIndex_none (s sub : Str) (i : Nat) (h : strIndex s sub i = -1) : ∀ j ≤ s.length, ¬ sub <+: s.drop j := by
  induction s generalizing i with
  | nil =>
    intro j hj
    simp only [strIndex] at h
    split at h
    · have : ((i : Nat) : Int) ≥ 0 := by exact_mod_cast Nat.zero_le _
      omega
    · rename_i he
      have hj0 : j = 0 := by simpa using hj
      subst hj0
      intro hpre
      apply he
      have : sub = [] := by simpa using hpre
      simp [this]
  | cons c rest ih =>
    intro j hj
    simp only [strIndex] at h
    split at h
    · have : ((i : Nat) : Int) ≥ 0 := by exact_mod_cast Nat.zero_le _
      omega
    · rename_i hp
      cases j with
      | zero => intro hpre; exact hp (by simpa using (isPrefix_iff sub (c :: rest)).mpr hpre)
      | succ j0 => simpa using ih (i + 1) h j0 (by simpa using hj)

/-- the separator of `join` stands between consecutive elements only: no leading, no trailing separator -/
theorem joinWith_eq (sep : Str) (l : List Str) : joinWith sep l = (l.intersperse sep).flatten := by
  induction l with
  | nil => rfl
  | cons x rest ih =>
    cases rest with
    | nil => simp [joinWith]
    | cons y r =>
      simp only [joinWith] at ih ⊢
      rw [ih]
      simp [List.intersperse]

example : strIndex (lit "hello") (lit "l") 0 = 2 := by decide
example : strIndex (lit "hello") (lit "") 0 = 0 := by decide
example : strIndex (lit "") (lit "") 0 = 0 := by decide
example : strIndex (lit "hello") (lit "z") 0 = -1 := by decide
example : joinWith (lit ", ") [lit "a", lit "b", lit "c"] = lit "a, b, c" := by decide

end EvyV.C13
