import EvyV.Props.C01PrattW
import EvyV.Model.PrattFmt
/-!
C06 for expressions WITH whitespace: the layout the formatter writes for the tree the parser built is
accepted again, in the same kind of context, and read back as the same tree.

`layout wss` is format.go on expressions: a unary operator directly before its operand; a binary operator
with a space on both sides, or with none when the expression was parsed in a whitespace-sensitive context
(`recordWSS` / `writeWSS`); `[`, `]`, `:`, `.`, `.(` … `)` without spaces; inside parentheses, brackets and
type assertions the spaced form again (the parser is not whitespace sensitive there).
-/
namespace EvyV.Pratt

theorem er_append (a b : List WTok) : er (a ++ b) = er a ++ er b := by simp [er]

/-- the layout writes exactly the tokens of the tree -/
theorem er_layout (e : E) : ∀ (wss first : Bool), er (layout wss first e) = toks e := by
  induction e with
  | atom n => intros; rfl
  | un u e ih => intro wss first; cases u <;> simp [layout, toks, ih]
  | bin o l r ihl ihr => intro wss first; simp [layout, toks, er_append, ihl, ihr]
  | group e ih => intro wss first; simp [layout, toks, er_append, ih]
  | index l i ihl ihi => intro wss first; simp [layout, toks, er_append, ihl, ihi]
  | sliceAll l ihl => intro wss first; simp [layout, toks, er_append, ihl]
  | sliceTo l b ihl ihb => intro wss first; simp [layout, toks, er_append, ihl, ihb]
  | sliceFrom l a ihl iha => intro wss first; simp [layout, toks, er_append, ihl, iha]
  | slice l a b ihl iha ihb => intro wss first; simp [layout, toks, er_append, ihl, iha, ihb]
  | dot l k ihl => intro wss first; simp [layout, toks, er_append, ihl]
  | assert l t ihl => intro wss first; simp [layout, toks, er_append, ihl]

theorem layout_length (e : E) (wss first : Bool) : (layout wss first e).length = (toks e).length := by
  have := congrArg List.length (er_layout e wss first)
  simpa [er] using this

/-- the layout begins with a token that carries the requested flag and the first token kind of the tree -/
theorem layout_head (e : E) : ∀ (wss first : Bool), ∃ t tl, layout wss first e = ⟨first, t⟩ :: tl ∧ t ≠ .colon ∧ t ≠ .rbracket := by
  induction e with
  | atom n => intros; exact ⟨_, _, rfl, by simp, by simp⟩
  | un u e _ => intro wss first; cases u <;> exact ⟨_, _, rfl, by simp, by simp⟩
  | group e _ => intros; exact ⟨_, _, rfl, by simp, by simp⟩
  | bin o l r ihl _ => intro wss first; obtain ⟨t, tl, h, h1, h2⟩ := ihl wss first; exact ⟨t, _, by rw [layout, h]; rfl, h1, h2⟩
  | index l i ihl _ => intro wss first; obtain ⟨t, tl, h, h1, h2⟩ := ihl wss first; exact ⟨t, _, by rw [layout, h]; rfl, h1, h2⟩
  | sliceAll l ihl => intro wss first; obtain ⟨t, tl, h, h1, h2⟩ := ihl wss first; exact ⟨t, _, by rw [layout, h]; rfl, h1, h2⟩
  | sliceTo l b ihl _ => intro wss first; obtain ⟨t, tl, h, h1, h2⟩ := ihl wss first; exact ⟨t, _, by rw [layout, h]; rfl, h1, h2⟩
  | sliceFrom l a ihl _ => intro wss first; obtain ⟨t, tl, h, h1, h2⟩ := ihl wss first; exact ⟨t, _, by rw [layout, h]; rfl, h1, h2⟩
  | slice l a b ihl _ _ => intro wss first; obtain ⟨t, tl, h, h1, h2⟩ := ihl wss first; exact ⟨t, _, by rw [layout, h]; rfl, h1, h2⟩
  | dot l k ihl => intro wss first; obtain ⟨t, tl, h, h1, h2⟩ := ihl wss first; exact ⟨t, _, by rw [layout, h]; rfl, h1, h2⟩
  | assert l k ihl => intro wss first; obtain ⟨t, tl, h, h1, h2⟩ := ihl wss first; exact ⟨t, _, by rw [layout, h]; rfl, h1, h2⟩

theorem headWs_layout (e : E) (wss first : Bool) (rest : List WTok) : headWs (layout wss first e ++ rest) = first := by
  obtain ⟨t, tl, h, _, _⟩ := layout_head e wss first
  rw [h]; rfl

/-! ### more fuel never changes an answer (as for the flag-free model) -/

theorem bracketG_mono {τ : Type} {k : τ → Tok} {pe pe' : List τ → Option (E × List τ)} {lp lp' : E → List τ → Option (E × List τ)}
    (hpe : ∀ ts x, pe ts = some x → pe' ts = some x) (hlp : ∀ l ts x, lp l ts = some x → lp' l ts = some x)
    (left : E) (r : List τ) (x : E × List τ) (h : bracketG k pe lp left r = some x) : bracketG k pe' lp' left r = some x := by
  unfold bracketG at h ⊢
  split at h
  · exact hlp _ _ _ h
  · split at h
    · rename_i b r2 hb
      simp only [hpe _ _ hb]
      split at h
      · exact hlp _ _ _ h
      · cases h
    · cases h
  · split at h
    · rename_i i r' hi
      simp only [hpe _ _ hi]
      split at h
      · exact hlp _ _ _ h
      · exact hlp _ _ _ h
      · split at h
        · rename_i b r2 hb
          simp only [hpe _ _ hb]
          split at h
          · exact hlp _ _ _ h
          · cases h
        · cases h
      · cases h
    · cases h

theorem dottedW_mono {lp lp' : E → List WTok → Option (E × List WTok)} (hlp : ∀ l ts x, lp l ts = some x → lp' l ts = some x)
    (left : E) (r : List WTok) (x : E × List WTok) (h : dottedW lp left r = some x) : dottedW lp' left r = some x := by
  unfold dottedW at h ⊢
  split at h
  · exact hlp _ _ _ h
  · exact hlp _ _ _ h
  · cases h

theorem mono_stepW (f : Nat) :
    (∀ wss p ts x, parseExprW wss f p ts = some x → parseExprW wss (f + 1) p ts = some x) ∧
    (∀ wss p l ts x, loopW wss f p l ts = some x → loopW wss (f + 1) p l ts = some x) := by
  induction f with
  | zero => constructor <;> intros <;> simp_all [parseExprW, loopW]
  | succ n ih =>
    obtain ⟨ihP, ihL⟩ := ih
    constructor
    · intro wss p ts x h
      unfold parseExprW at h ⊢
      split at h
      · exact ihL _ _ _ _ _ h
      · split at h
        · cases h
        · rename_i hw
          simp only [hw, if_false, Bool.false_eq_true]
          split at h
          · rename_i e r' he; rw [ihP _ _ _ _ he]; exact ihL _ _ _ _ _ h
          · cases h
      · split at h
        · cases h
        · rename_i hw
          simp only [hw, if_false, Bool.false_eq_true]
          split at h
          · rename_i e r' he; rw [ihP _ _ _ _ he]; exact ihL _ _ _ _ _ h
          · cases h
      · split at h
        · rename_i e w2 r' he; rw [ihP _ _ _ _ he]; exact ihL _ _ _ _ _ h
        · cases h
      · cases h
    · intro wss p l ts x h
      unfold loopW at h ⊢
      split at h
      · split at h
        · rename_i hw; simp only [hw, if_true]; exact h
        · rename_i hw
          simp only [hw, if_false, Bool.false_eq_true]
          split at h
          · rename_i hp
            simp only [hp, if_true]
            split at h
            · cases h
            · rename_i hw2
              simp only [hw2, if_false, Bool.false_eq_true]
              split at h
              · rename_i e r' he; rw [ihP _ _ _ _ he]; exact ihL _ _ _ _ _ h
              · cases h
          · rename_i hp; simp only [hp, if_false]; exact h
      · split at h
        · rename_i hw; simp only [hw, if_true]; exact h
        · rename_i hw
          simp only [hw, if_false, Bool.false_eq_true]
          split at h
          · rename_i hp
            simp only [hp, if_true]
            split at h
            · cases h
            · rename_i hw2
              simp only [hw2, if_false, Bool.false_eq_true]
              exact bracketG_mono (fun ts x => ihP false 0 ts x) (fun l ts x => ihL wss p l ts x) _ _ _ h
          · rename_i hp; simp only [hp, if_false]; exact h
      · split at h
        · rename_i hw; simp only [hw, if_true]; exact h
        · rename_i hw
          simp only [hw, if_false, Bool.false_eq_true]
          split at h
          · rename_i hp
            simp only [hp, if_true]
            split at h
            · cases h
            · rename_i hw2
              simp only [hw2, if_false, Bool.false_eq_true]
              exact dottedW_mono (fun l ts x => ihL wss p l ts x) _ _ _ h
          · rename_i hp; simp only [hp, if_false]; exact h
      · exact h

theorem mono_parseW {f g : Nat} (hfg : f ≤ g) {wss p ts x} (h : parseExprW wss f p ts = some x) : parseExprW wss g p ts = some x := by
  induction hfg with
  | refl => exact h
  | step _ ih => exact (mono_stepW _).1 _ _ _ _ ih

theorem mono_loopW {f g : Nat} (hfg : f ≤ g) {wss p l ts x} (h : loopW wss f p l ts = some x) : loopW wss g p l ts = some x := by
  induction hfg with
  | refl => exact h
  | step _ ih => exact (mono_stepW _).2 _ _ _ _ _ ih


/-- the loop stops at whitespace (in a whitespace-sensitive context) and at a token that does not bind tighter than `p` -/
theorem loop_stopW (wss : Bool) (f p : Nat) (e : E) (rest : List WTok)
    (h : (wss = true ∧ headWs rest = true) ∨ hp (er rest) ≤ p) : loopW wss (f + 1) p e rest = some (e, rest) := by
  unfold loopW
  cases rest with
  | nil => rfl
  | cons t r =>
    obtain ⟨w, t⟩ := t
    cases t <;> simp only [] <;> try rfl
    all_goals
      rcases h with ⟨h1, h2⟩ | h
      · simp only [headWs] at h2
        simp [h1, h2]
      · simp only [er_cons, hp, Tok.prec] at h
        by_cases hw : (wss && w) = true
        · simp [hw]
        · simp only [hw, if_false, Bool.false_eq_true]
          rw [if_neg (by omega)]

/-! ### what follows `[` in the formatter's layout -/

variable {pe : List WTok → Option (E × List WTok)} {lp : E → List WTok → Option (E × List WTok)}

theorem bracketW_index (left i : E) (rest : List WTok)
    (h : pe (layout false false i ++ ⟨false, .rbracket⟩ :: rest) = some (i, ⟨false, .rbracket⟩ :: rest)) :
    bracketW pe lp left (layout false false i ++ ⟨false, .rbracket⟩ :: rest) = lp (.index left i) rest := by
  obtain ⟨t, tl, ht, h1, _⟩ := layout_head i false false
  rw [ht] at h ⊢
  unfold bracketW bracketG
  cases t <;> simp_all

theorem bracketW_sliceAll (left : E) (rest : List WTok) :
    bracketW pe lp left (⟨false, .colon⟩ :: ⟨false, .rbracket⟩ :: rest) = lp (.sliceAll left) rest := by
  simp [bracketW, bracketG]

theorem bracketW_sliceTo (left b : E) (rest : List WTok)
    (h : pe (layout false false b ++ ⟨false, .rbracket⟩ :: rest) = some (b, ⟨false, .rbracket⟩ :: rest)) :
    bracketW pe lp left (⟨false, .colon⟩ :: (layout false false b ++ ⟨false, .rbracket⟩ :: rest)) = lp (.sliceTo left b) rest := by
  obtain ⟨t, tl, ht, _, h2⟩ := layout_head b false false
  rw [ht] at h ⊢
  unfold bracketW bracketG
  cases t <;> simp_all

theorem bracketW_sliceFrom (left a : E) (rest : List WTok)
    (h : pe (layout false false a ++ ⟨false, .colon⟩ :: ⟨false, .rbracket⟩ :: rest) = some (a, ⟨false, .colon⟩ :: ⟨false, .rbracket⟩ :: rest)) :
    bracketW pe lp left (layout false false a ++ ⟨false, .colon⟩ :: ⟨false, .rbracket⟩ :: rest) = lp (.sliceFrom left a) rest := by
  obtain ⟨t, tl, ht, h1, _⟩ := layout_head a false false
  rw [ht] at h ⊢
  unfold bracketW bracketG
  cases t <;> simp_all

theorem bracketW_slice (left a b : E) (rest : List WTok)
    (ha : pe (layout false false a ++ ⟨false, .colon⟩ :: (layout false false b ++ ⟨false, .rbracket⟩ :: rest)) =
      some (a, ⟨false, .colon⟩ :: (layout false false b ++ ⟨false, .rbracket⟩ :: rest)))
    (hb : pe (layout false false b ++ ⟨false, .rbracket⟩ :: rest) = some (b, ⟨false, .rbracket⟩ :: rest)) :
    bracketW pe lp left (layout false false a ++ ⟨false, .colon⟩ :: (layout false false b ++ ⟨false, .rbracket⟩ :: rest)) =
      lp (.slice left a b) rest := by
  obtain ⟨t, tl, ht, h1, _⟩ := layout_head a false false
  obtain ⟨u, ul, hu, _, h2⟩ := layout_head b false false
  rw [ht] at ha ⊢
  rw [hu] at ha hb ⊢
  unfold bracketW bracketG
  cases t <;> cases u <;> simp_all


/-! ### the formatter's layout of a precedence-respecting tree is read back as that tree -/

/-- what may follow an expression for the loop to end there (as in `sound_stepW`) -/
def RestOK (wss : Bool) (e : E) (rest : List WTok) : Prop :=
  (wss = true ∧ headWs rest = true) ∨ hp (er rest) ≤ rlvl e

theorem completeW (e : E) : WF e → ∀ (wss first : Bool) (f p : Nat) (rest : List WTok) (x : E × List WTok),
    p < llvl e → RestOK wss e rest → loopW wss f p e rest = some x →
    parseExprW wss (f + 2 * (toks e).length) p (layout wss first e ++ rest) = some x := by
  induction e with
  | atom n =>
    intro _ wss first f p rest x _ _ h
    simp only [toks, layout, List.length_singleton, List.singleton_append]
    show parseExprW wss (f + 1 + 1) p _ = some x
    unfold parseExprW
    exact mono_loopW (Nat.le_succ f) h
  | un u e ih =>
    intro hw wss first f p rest x _ hr h
    obtain ⟨hwe, hl⟩ := hw
    have hr' : (wss = true ∧ headWs rest = true) ∨ hp (er rest) ≤ unaryPrec := by
      rcases hr with hr | hr
      · exact Or.inl hr
      · exact Or.inr (by simp only [rlvl] at hr; omega)
    have hre : RestOK wss e rest := by
      rcases hr with hr | hr
      · exact Or.inl hr
      · exact Or.inr (by simp only [rlvl] at hr; omega)
    have inner : parseExprW wss (f + 1 + 2 * (toks e).length) unaryPrec (layout wss false e ++ rest) = some (e, rest) :=
      ih hwe wss false (f + 1) unaryPrec rest (e, rest) hl hre (loop_stopW wss f unaryPrec e rest hr')
    have hk : loopW wss (f + 1 + 2 * (toks e).length) p (.un u e) rest = some x := mono_loopW (by omega) h
    have hh : headWs (layout wss false e ++ rest) = false := headWs_layout e wss false rest
    cases u with
    | neg =>
      simp only [toks, layout, List.length_cons, List.cons_append]
      have : f + 2 * ((toks e).length + 1) = (f + 1 + 2 * (toks e).length) + 1 := by omega
      rw [this]; unfold parseExprW; simp only [hh, if_false, Bool.false_eq_true, inner]; exact hk
    | not =>
      simp only [toks, layout, List.length_cons, List.cons_append]
      have : f + 2 * ((toks e).length + 1) = (f + 1 + 2 * (toks e).length) + 1 := by omega
      rw [this]; unfold parseExprW; simp only [hh, if_false, Bool.false_eq_true, inner]; exact hk
  | bin o l r ihl ihr =>
    intro hw wss first f p rest x hp' hr h
    obtain ⟨hwl, hwr, hll, hrl, hlr⟩ := hw
    simp only [llvl] at hp'
    simp only [toks, layout, List.length_append, List.length_cons, List.append_assoc, List.cons_append]
    have e1 : f + 2 * ((toks l).length + ((toks r).length + 1)) = (f + 2 * (toks r).length + 2) + 2 * (toks l).length := by omega
    rw [e1]
    refine ihl hwl wss first _ p _ x (by omega) (Or.inr (by simp only [er_cons, hp, Tok.prec]; exact hrl)) ?_
    show loopW wss ((f + 2 * (toks r).length + 1) + 1) p l _ = some x
    unfold loopW
    have hw1 : (wss && !wss) = false := by cases wss <;> rfl
    have hh : headWs (layout wss (!wss) r ++ rest) = !wss := headWs_layout r wss (!wss) rest
    simp only [hw1, if_false, Bool.false_eq_true, hp', if_true, hh]
    have hr' : (wss = true ∧ headWs rest = true) ∨ hp (er rest) ≤ o.prec := by
      rcases hr with hr | hr
      · exact Or.inl hr
      · exact Or.inr (by simp only [rlvl] at hr; omega)
    have hrr : RestOK wss r rest := by
      rcases hr with hr | hr
      · exact Or.inl hr
      · exact Or.inr (by simp only [rlvl] at hr; omega)
    have inner : parseExprW wss (f + 1 + 2 * (toks r).length) o.prec (layout wss (!wss) r ++ rest) = some (r, rest) :=
      ihr hwr wss (!wss) (f + 1) o.prec rest (r, rest) hlr hrr (loop_stopW wss f o.prec r rest hr')
    have e2 : f + 2 * (toks r).length + 1 = f + 1 + 2 * (toks r).length := by omega
    rw [e2, inner]
    exact mono_loopW (by omega) h
  | group e ih =>
    intro hw wss first f p rest x _ _ h
    have hwe : WF e := hw
    simp only [toks, layout, List.length_cons, List.length_append, List.length_nil, Nat.zero_add, List.nil_append, List.cons_append, List.append_assoc]
    have inner : parseExprW false (f + 1 + 2 * (toks e).length) 0 (layout false false e ++ ⟨false, Tok.rparen⟩ :: rest) =
        some (e, ⟨false, Tok.rparen⟩ :: rest) :=
      ih hwe false false (f + 1) 0 _ (e, _) (llvl_pos e) (Or.inr (by simp [hp, Tok.prec]))
        (loop_stopW false f 0 e _ (Or.inr (by simp [hp, Tok.prec])))
    have : f + 2 * ((toks e).length + 1 + 1) = (f + 1 + 2 * (toks e).length) + 1 + 2 := by omega
    rw [this]
    apply mono_parseW (Nat.le_add_right _ 2)
    unfold parseExprW
    simp only [inner]
    exact mono_loopW (by omega) h
  | index l i ihl ihi =>
    intro hw wss first f p rest x hp' _ h
    obtain ⟨hwl, hwi, hll, hrl⟩ := hw
    simp only [llvl] at hp'
    simp only [toks, layout, List.length_append, List.length_cons, List.length_nil, Nat.zero_add, List.nil_append, List.append_assoc, List.cons_append]
    have e1 : f + 2 * ((toks l).length + ((toks i).length + 1 + 1)) = (f + 2 * (toks i).length + 4) + 2 * (toks l).length := by omega
    rw [e1]
    refine ihl hwl wss first _ p _ x (by omega) (Or.inr (by simp only [er_cons, hp, Tok.prec]; exact hrl)) ?_
    show loopW wss ((f + 2 * (toks i).length + 3) + 1) p l _ = some x
    unfold loopW
    simp only [Bool.and_false, if_false, Bool.false_eq_true, hp', if_true]
    have inner : parseExprW false (f + 1 + 2 * (toks i).length) 0 (layout false false i ++ ⟨false, Tok.rbracket⟩ :: rest) =
        some (i, ⟨false, Tok.rbracket⟩ :: rest) :=
      ihi hwi false false (f + 1) 0 _ (i, _) (llvl_pos i) (Or.inr (by simp [hp, Tok.prec]))
        (loop_stopW false f 0 i _ (Or.inr (by simp [hp, Tok.prec])))
    rw [bracketW_index l i rest (mono_parseW (by omega) inner)]
    exact mono_loopW (by omega) h
  | sliceAll l ihl =>
    intro hw wss first f p rest x hp' _ h
    obtain ⟨hwl, hll, hrl⟩ := hw
    simp only [llvl] at hp'
    simp only [toks, layout, List.length_append, List.length_cons, List.length_nil, List.append_assoc, List.cons_append, List.nil_append]
    have e1 : f + 2 * ((toks l).length + (0 + 1 + 1 + 1)) = (f + 6) + 2 * (toks l).length := by omega
    rw [e1]
    refine ihl hwl wss first _ p _ x (by omega) (Or.inr (by simp only [er_cons, hp, Tok.prec]; exact hrl)) ?_
    show loopW wss ((f + 5) + 1) p l _ = some x
    unfold loopW
    simp only [Bool.and_false, if_false, Bool.false_eq_true, hp', if_true, bracketW_sliceAll]
    exact mono_loopW (by omega) h
  | sliceTo l b ihl ihb =>
    intro hw wss first f p rest x hp' _ h
    obtain ⟨hwl, hwb, hll, hrl⟩ := hw
    simp only [llvl] at hp'
    simp only [toks, layout, List.length_append, List.length_cons, List.length_nil, Nat.zero_add, List.nil_append, List.append_assoc, List.cons_append]
    have e1 : f + 2 * ((toks l).length + ((toks b).length + 1 + 1 + 1)) = (f + 2 * (toks b).length + 6) + 2 * (toks l).length := by omega
    rw [e1]
    refine ihl hwl wss first _ p _ x (by omega) (Or.inr (by simp only [er_cons, hp, Tok.prec]; exact hrl)) ?_
    show loopW wss ((f + 2 * (toks b).length + 5) + 1) p l _ = some x
    unfold loopW
    simp only [Bool.and_false, if_false, Bool.false_eq_true, hp', if_true]
    have inner : parseExprW false (f + 1 + 2 * (toks b).length) 0 (layout false false b ++ ⟨false, Tok.rbracket⟩ :: rest) =
        some (b, ⟨false, Tok.rbracket⟩ :: rest) :=
      ihb hwb false false (f + 1) 0 _ (b, _) (llvl_pos b) (Or.inr (by simp [hp, Tok.prec]))
        (loop_stopW false f 0 b _ (Or.inr (by simp [hp, Tok.prec])))
    rw [bracketW_sliceTo l b rest (mono_parseW (by omega) inner)]
    exact mono_loopW (by omega) h
  | sliceFrom l a ihl iha =>
    intro hw wss first f p rest x hp' _ h
    obtain ⟨hwl, hwa, hll, hrl⟩ := hw
    simp only [llvl] at hp'
    simp only [toks, layout, List.length_append, List.length_cons, List.length_nil, Nat.zero_add, List.nil_append, List.append_assoc, List.cons_append]
    have e1 : f + 2 * ((toks l).length + ((toks a).length + (0 + 1 + 1) + 1)) = (f + 2 * (toks a).length + 6) + 2 * (toks l).length := by omega
    rw [e1]
    refine ihl hwl wss first _ p _ x (by omega) (Or.inr (by simp only [er_cons, hp, Tok.prec]; exact hrl)) ?_
    show loopW wss ((f + 2 * (toks a).length + 5) + 1) p l _ = some x
    unfold loopW
    simp only [Bool.and_false, if_false, Bool.false_eq_true, hp', if_true]
    have inner : parseExprW false (f + 1 + 2 * (toks a).length) 0 (layout false false a ++ ⟨false, Tok.colon⟩ :: ⟨false, Tok.rbracket⟩ :: rest) =
        some (a, ⟨false, Tok.colon⟩ :: ⟨false, Tok.rbracket⟩ :: rest) :=
      iha hwa false false (f + 1) 0 _ (a, _) (llvl_pos a) (Or.inr (by simp [hp, Tok.prec]))
        (loop_stopW false f 0 a _ (Or.inr (by simp [hp, Tok.prec])))
    rw [bracketW_sliceFrom l a rest (mono_parseW (by omega) inner)]
    exact mono_loopW (by omega) h
  | slice l a b ihl iha ihb =>
    intro hw wss first f p rest x hp' _ h
    obtain ⟨hwl, hwa, hwb, hll, hrl⟩ := hw
    simp only [llvl] at hp'
    simp only [toks, layout, List.length_append, List.length_cons, List.length_nil, Nat.zero_add, List.nil_append, List.append_assoc, List.cons_append]
    have e1 : f + 2 * ((toks l).length + ((toks a).length + ((toks b).length + 1 + 1) + 1)) =
        (f + 2 * (toks a).length + 2 * (toks b).length + 6) + 2 * (toks l).length := by omega
    rw [e1]
    refine ihl hwl wss first _ p _ x (by omega) (Or.inr (by simp only [er_cons, hp, Tok.prec]; exact hrl)) ?_
    show loopW wss ((f + 2 * (toks a).length + 2 * (toks b).length + 5) + 1) p l _ = some x
    unfold loopW
    simp only [Bool.and_false, if_false, Bool.false_eq_true, hp', if_true]
    have innerA : parseExprW false (f + 1 + 2 * (toks a).length) 0
        (layout false false a ++ ⟨false, Tok.colon⟩ :: (layout false false b ++ ⟨false, Tok.rbracket⟩ :: rest)) =
        some (a, ⟨false, Tok.colon⟩ :: (layout false false b ++ ⟨false, Tok.rbracket⟩ :: rest)) :=
      iha hwa false false (f + 1) 0 _ (a, _) (llvl_pos a) (Or.inr (by simp [hp, Tok.prec]))
        (loop_stopW false f 0 a _ (Or.inr (by simp [hp, Tok.prec])))
    have innerB : parseExprW false (f + 1 + 2 * (toks b).length) 0 (layout false false b ++ ⟨false, Tok.rbracket⟩ :: rest) =
        some (b, ⟨false, Tok.rbracket⟩ :: rest) :=
      ihb hwb false false (f + 1) 0 _ (b, _) (llvl_pos b) (Or.inr (by simp [hp, Tok.prec]))
        (loop_stopW false f 0 b _ (Or.inr (by simp [hp, Tok.prec])))
    rw [bracketW_slice l a b rest (mono_parseW (by omega) innerA) (mono_parseW (by omega) innerB)]
    exact mono_loopW (by omega) h
  | dot l k ihl =>
    intro hw wss first f p rest x hp' _ h
    obtain ⟨hwl, hll, hrl⟩ := hw
    simp only [llvl] at hp'
    simp only [toks, layout, List.length_append, List.length_cons, List.length_nil, List.append_assoc, List.cons_append, List.nil_append]
    have e1 : f + 2 * ((toks l).length + (0 + 1 + 1)) = (f + 4) + 2 * (toks l).length := by omega
    rw [e1]
    refine ihl hwl wss first _ p _ x (by omega) (Or.inr (by simp only [er_cons, hp, Tok.prec]; exact hrl)) ?_
    show loopW wss ((f + 3) + 1) p l _ = some x
    unfold loopW
    simp only [Bool.and_false, if_false, Bool.false_eq_true, hp', if_true, dottedW]
    exact mono_loopW (by omega) h
  | assert l k ihl =>
    intro hw wss first f p rest x hp' _ h
    obtain ⟨hwl, hll, hrl⟩ := hw
    simp only [llvl] at hp'
    simp only [toks, layout, List.length_append, List.length_cons, List.length_nil, List.append_assoc, List.cons_append, List.nil_append]
    have e1 : f + 2 * ((toks l).length + (0 + 1 + 1 + 1 + 1)) = (f + 8) + 2 * (toks l).length := by omega
    rw [e1]
    refine ihl hwl wss first _ p _ x (by omega) (Or.inr (by simp only [er_cons, hp, Tok.prec]; exact hrl)) ?_
    show loopW wss ((f + 7) + 1) p l _ = some x
    unfold loopW
    simp only [Bool.and_false, if_false, Bool.false_eq_true, hp', if_true, dottedW]
    exact mono_loopW (by omega) h


/-- **the formatter's layout of any precedence-respecting tree is read back as that tree**, in a
whitespace-sensitive context (tight operators) and outside one (spaced operators) alike, whatever follows the
expression (whitespace, in an argument list; a token that does not continue an expression otherwise) -/
theorem layout_reparses (wss first : Bool) (e : E) (rest : List WTok) (hw : WF e)
    (hr : (wss = true ∧ headWs rest = true) ∨ hp (er rest) = 0) :
    parseW wss (layout wss first e ++ rest) = some (e, rest) := by
  unfold parseW
  have hr' : RestOK wss e rest := by
    rcases hr with hr | hr
    · exact Or.inl hr
    · exact Or.inr (by omega)
  have hs : (wss = true ∧ headWs rest = true) ∨ hp (er rest) ≤ 0 := by
    rcases hr with hr | hr
    · exact Or.inl hr
    · exact Or.inr (by omega)
  have h := completeW e hw wss first 1 0 rest (e, rest) (llvl_pos e) hr' (loop_stopW wss 0 0 e rest hs)
  exact mono_parseW (by simp only [List.length_append, layout_length]; omega) h

/-- **format, then parse again**: whatever the parser accepted (in either mode), the formatter's layout of the
tree it built — followed by what it left — is accepted in the same mode and gives the same tree and the same
rest. The formatter neither needs extra parentheses nor may it add a space in an argument list. -/
theorem formatted_expression_is_read_back (wss first : Bool) (ts : List WTok) (e : E) (r : List WTok)
    (h : parseW wss ts = some (e, r)) : parseW wss (layout wss first e ++ r) = some (e, r) := by
  obtain ⟨hw, _, hs⟩ := parseW_sound wss ts e r h
  exact layout_reparses wss first e r hw hs

/-- and it writes exactly the tokens that were consumed -/
theorem layout_keeps_tokens (wss first : Bool) (ts : List WTok) (e : E) (r : List WTok)
    (h : parseW wss ts = some (e, r)) : er (layout wss first e ++ r) = er ts := by
  obtain ⟨_, heq, _⟩ := parseW_sound wss ts e r h
  rw [er_append, er_layout, heq]

/-! examples: `a-b` as an argument stays tight and is one argument; with spaces around the operator (what a
formatter that ignored the context would write) the same tokens are two arguments and a stray operator -/
private def A' (n : Nat) (ws : Bool := false) : WTok := ⟨ws, .atom n⟩

example : layout true false (.bin .minus (.atom 0) (.atom 1)) = [A' 0, ⟨false, .op .minus⟩, A' 1] := by decide
example : layout false false (.bin .minus (.atom 0) (.atom 1)) = [A' 0, ⟨true, .op .minus⟩, A' 1 true] := by decide
example : parseW true (layout true false (.bin .minus (.atom 0) (.atom 1))) = some (.bin .minus (.atom 0) (.atom 1), []) := by decide
example : parseW true (layout false false (.bin .minus (.atom 0) (.atom 1))) ≠ some (.bin .minus (.atom 0) (.atom 1), []) := by decide
example : layout true false (.bin .and (.group (.bin .or (.atom 0) (.atom 1))) (.atom 2)) =
    [⟨false, .lparen⟩, A' 0, ⟨true, .op .or⟩, A' 1 true, ⟨false, .rparen⟩, ⟨false, .op .and⟩, A' 2] := by decide


/-! ### C07 for expressions: the layout is canonical and formatting is idempotent -/

/-- **idempotence**: formatting the formatted expression gives the same layout again (the tree read back from
the layout is the tree that was laid out) -/
theorem layout_idempotent (wss first : Bool) (ts : List WTok) (e : E) (r : List WTok) (h : parseW wss ts = some (e, r)) :
    ∃ e', parseW wss (layout wss first e ++ r) = some (e', r) ∧ layout wss first e' = layout wss first e :=
  ⟨e, formatted_expression_is_read_back wss first ts e r h, rfl⟩

/-- **canonical form**: outside whitespace-sensitive contexts two accepted texts that differ only in optional
whitespace (same token kinds) are formatted to the same layout -/
theorem layout_canonical (first : Bool) (ts ts' : List WTok) (e e' : E) (r r' : List WTok) (hk : er ts = er ts')
    (h : parseW false ts = some (e, r)) (h' : parseW false ts' = some (e', r')) :
    layout false first e = layout false first e' := by
  rw [(layout_irrelevant ts ts' e e' r r' hk h h').1]

/-- the layout has no whitespace before `[`, `]`, `:`, `.` and after a unary operator, and exactly the operator
spacing of its mode: it is accepted by the parser it came from (no "unexpected whitespace" error is possible) -/
theorem layout_accepted (wss first : Bool) (e : E) (hw : WF e) : parseW wss (layout wss first e) = some (e, []) := by
  simpa using layout_reparses wss first e [] hw (Or.inr rfl)

end EvyV.Pratt
