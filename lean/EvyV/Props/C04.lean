import EvyV.Spec.Typing
/-
C04: the type relations the parser decides (Model/Types.lean, tied to pkg/parser/type.go by an
exhaustive function-level correspondence) are exactly the rules of docs/spec.md (Spec/Typing.lean).
-/
namespace EvyV.C04
open EvyV.Types EvyV.Types.Spec

/-! ### the Fixed flag of the target is irrelevant -/

theorem acceptsAux_fixed_left (top rf : Bool) (l r : Ty) :
    Ty.acceptsAux top rf l.fixedType r = Ty.acceptsAux top rf l r := by
  cases l <;> simp [Ty.fixedType, Ty.acceptsAux]

/-! ### constants: accepted iff convertible -/

theorem ofL_not_fixed (l : LTy) : (ofL l).isFixed = false := by
  cases l <;> simp [ofL, Ty.isFixed]

theorem ofL_ne_none (l : LTy) : ofL l ≠ .none := by
  cases l <;> simp [ofL]

theorem acceptsAux_const (t : STy) : ∀ (top : Bool) (l : LTy),
    Ty.acceptsAux top false (ofS t) (ofL l) = true ↔ Conv l t := by
  induction t with
  | num => intro top l; cases l <;> simp [ofS, ofL, Ty.acceptsAux] <;> first | exact Conv.num | (intro h; cases h)
  | str => intro top l; cases l <;> simp [ofS, ofL, Ty.acceptsAux] <;> first | exact Conv.str | (intro h; cases h)
  | bool => intro top l; cases l <;> simp [ofS, ofL, Ty.acceptsAux] <;> first | exact Conv.bool | (intro h; cases h)
  | any =>
    intro top l
    have h1 := ofL_not_fixed l
    have h2 := ofL_ne_none l
    constructor
    · intro _; exact Conv.toAny l
    · intro _; simp [ofS, Ty.acceptsAux, h1, h2]
  | arr s ih =>
    intro top l
    cases l with
    | arr l' =>
      simp only [ofS, ofL, Ty.acceptsAux, Bool.or_false]
      rw [ih false l']
      exact ⟨Conv.arr, fun h => by cases h; assumption⟩
    | emptyArr => simp [ofS, ofL, Ty.acceptsAux]; exact Conv.emptyArr s
    | _ => simp [ofS, ofL, Ty.acceptsAux]; intro h; cases h
  | map s ih =>
    intro top l
    cases l with
    | map l' =>
      simp only [ofS, ofL, Ty.acceptsAux, Bool.or_false]
      rw [ih false l']
      exact ⟨Conv.map, fun h => by cases h; assumption⟩
    | emptyMap => simp [ofS, ofL, Ty.acceptsAux]; exact Conv.emptyMap s
    | _ => simp [ofS, ofL, Ty.acceptsAux]; intro h; cases h

/-- **constants** (spec.md "Assignability of constant values" and "of empty composite literals"):
a target of declared type `t` accepts a constant of type `l` iff `l` converts to `t` -/
theorem accepts_const_iff (t : STy) (l : LTy) :
    (ofS t).fixedType.accepts (ofL l) = true ↔ Conv l t := by
  unfold Ty.accepts
  rw [acceptsAux_fixed_left]
  exact acceptsAux_const t true l

/-! ### variables: accepted iff identical type, or the target is `any` -/

theorem ofS_inj : ∀ (t u : STy), ofS t = ofS u → t = u := by
  intro t
  induction t with
  | arr s ih => intro u h; cases u <;> simp [ofS] at h; rw [ih _ h]
  | map s ih => intro u h; cases u <;> simp [ofS] at h; rw [ih _ h]
  | _ => intro u h; cases u <;> simp [ofS] at h <;> rfl

theorem ofS_ne_none (t : STy) : ofS t ≠ .none := by
  cases t <;> simp [ofS]

/-- below a Fixed composite nothing converts: the types must be identical -/
theorem acceptsAux_under_fixed (t : STy) : ∀ (u : STy),
    Ty.acceptsAux false true (ofS t) (ofS u) = true ↔ t = u := by
  induction t with
  | arr s ih =>
    intro u
    cases u with
    | arr s' => simp only [ofS, Ty.acceptsAux, Bool.or_false]; rw [ih s']; simp
    | _ => simp [ofS, Ty.acceptsAux]
  | map s ih =>
    intro u
    cases u with
    | map s' => simp only [ofS, Ty.acceptsAux, Bool.or_false]; rw [ih s']; simp
    | _ => simp [ofS, Ty.acceptsAux]
  | _ => intro u; cases u <;> simp [ofS, Ty.acceptsAux]

/-- **variables** (spec.md "Assignability of variable values"): a target of declared type `t` accepts a
variable (parameter, element, field, call result …) of type `u` iff `t = u` or `t = any` -/
theorem accepts_var_iff (t u : STy) :
    (ofS t).fixedType.accepts (ofS u).fixedType = true ↔ (t = u ∨ t = .any) := by
  unfold Ty.accepts
  rw [acceptsAux_fixed_left]
  cases t with
  | any =>
    have := ofS_ne_none u
    cases u <;> simp_all [ofS, Ty.fixedType, Ty.acceptsAux, Ty.isFixed]
  | arr s =>
    cases u with
    | arr s' =>
      simp only [ofS, Ty.fixedType, Ty.acceptsAux, Bool.false_or]
      rw [acceptsAux_under_fixed s s']; simp
    | _ => simp [ofS, Ty.fixedType, Ty.acceptsAux]
  | map s =>
    cases u with
    | map s' =>
      simp only [ofS, Ty.fixedType, Ty.acceptsAux, Bool.false_or]
      rw [acceptsAux_under_fixed s s']; simp
    | _ => simp [ofS, Ty.fixedType, Ty.acceptsAux]
  | _ => cases u <;> simp [ofS, Ty.fixedType, Ty.acceptsAux]

/-- a literal with a composite VARIABLE element (`[x]`, x:[]num) does not convert: it is accepted only
by the identical type or by any -/
theorem accepts_literal_of_var_iff (t u : STy) :
    (ofS (.arr t)).fixedType.accepts (.arr false (ofS u).fixedType) = true ↔ t = u ∨ (t = .any ∧ ∀ s, u ≠ .arr s ∧ u ≠ .map s) := by
  unfold Ty.accepts
  cases u with
  | arr s' =>
    cases t with
    | arr s => simp only [ofS, Ty.fixedType, Ty.acceptsAux, Bool.false_or]; rw [acceptsAux_under_fixed s s']; simp
    | _ => simp [ofS, Ty.fixedType, Ty.acceptsAux, Ty.isFixed]
  | map s' =>
    cases t with
    | map s => simp only [ofS, Ty.fixedType, Ty.acceptsAux, Bool.false_or]; rw [acceptsAux_under_fixed s s']; simp
    | _ => simp [ofS, Ty.fixedType, Ty.acceptsAux, Ty.isFixed]
  | _ => cases t <;> simp [ofS, Ty.fixedType, Ty.acceptsAux, Ty.isFixed]

/-! ### operands of binary operators -/

theorem matches_iff (a : LTy) : ∀ (b : LTy), (ofL a).matchesT (ofL b) = true ↔ Same a b := by
  induction a with
  | arr s ih =>
    intro b
    cases b with
    | arr s' => simp only [ofL, Ty.matchesT]; rw [ih s']; exact ⟨Same.arr, fun h => by cases h; assumption⟩
    | emptyArr => simp [ofL, Ty.matchesT]; exact Same.emptyArrR s
    | _ => simp [ofL, Ty.matchesT]; intro h; cases h
  | map s ih =>
    intro b
    cases b with
    | map s' => simp only [ofL, Ty.matchesT]; rw [ih s']; exact ⟨Same.map, fun h => by cases h; assumption⟩
    | emptyMap => simp [ofL, Ty.matchesT]; exact Same.emptyMapR s
    | _ => simp [ofL, Ty.matchesT]; intro h; cases h
  | emptyArr =>
    intro b
    cases b <;> simp [ofL, Ty.matchesT, Ty.name] <;>
      first | exact Same.emptyArr | exact Same.emptyArrL _ | (intro h; cases h)
  | emptyMap =>
    intro b
    cases b <;> simp [ofL, Ty.matchesT, Ty.name] <;>
      first | exact Same.emptyMap | exact Same.emptyMapL _ | (intro h; cases h)
  | num => intro b; cases b <;> simp [ofL, Ty.matchesT] <;> first | exact Same.num | (intro h; cases h)
  | str => intro b; cases b <;> simp [ofL, Ty.matchesT] <;> first | exact Same.str | (intro h; cases h)
  | bool => intro b; cases b <;> simp [ofL, Ty.matchesT] <;> first | exact Same.bool | (intro h; cases h)
  | any => intro b; cases b <;> simp [ofL, Ty.matchesT] <;> first | exact Same.any | (intro h; cases h)

/-! ### the operator table (spec.md "Operators and Expressions"), for all types -/

theorem arith_iff (op : BinOp) (h : op = .minus ∨ op = .slash ∨ op = .percent) (l r : Ty) :
    binType op l r = (if l = .num ∧ r = .num then some .num else none) := by
  rcases h with rfl | rfl | rfl <;> cases l <;> cases r <;> simp [binType, Ty.matchesT, Ty.name, BinOp.isComparison]

theorem logical_iff (op : BinOp) (h : op = .and ∨ op = .or) (l r : Ty) :
    binType op l r = (if l = .bool ∧ r = .bool then some .bool else none) := by
  rcases h with rfl | rfl <;> cases l <;> cases r <;> simp [binType, Ty.matchesT, Ty.name, BinOp.isComparison]

theorem ordering_iff (op : BinOp) (h : op = .lt ∨ op = .gt ∨ op = .le ∨ op = .ge) (l r : Ty) :
    binType op l r = (if (l = .num ∧ r = .num) ∨ (l = .str ∧ r = .str) then some .bool else none) := by
  rcases h with rfl | rfl | rfl | rfl <;> cases l <;> cases r <;>
    simp [binType, Ty.matchesT, Ty.name, BinOp.isComparison]

theorem equality_iff (op : BinOp) (h : op = .eq ∨ op = .ne) (l r : Ty) :
    binType op l r = (if l.matchesT r then some .bool else none) := by
  rcases h with rfl | rfl <;> by_cases hm : l.matchesT r = true <;>
    simp [binType, hm, BinOp.isComparison] <;> cases l <;> simp_all [Ty.name, Ty.matchesT]

theorem plus_iff (l r : Ty) :
    binType .plus l r =
      (if l = .num ∧ r = .num then some .num
       else if l = .str ∧ r = .str then some .str
       else if l.name = .array ∧ l.matchesT r then some (if r.name = .array then l.concatType r else l)
       else none) := by
  cases l <;> cases r <;> simp [binType, Ty.matchesT, Ty.name, BinOp.isComparison]
  rename_i f1 s1 f2 s2
  cases h : s1.matchesT s2 <;> simp

theorem star_iff (l r : Ty) :
    binType .star l r =
      (if l = .num ∧ r = .num then some .num
       else if l.name = .array ∧ r = .num then some l
       else none) := by
  cases l <;> cases r <;> simp [binType, Ty.matchesT, Ty.name, BinOp.isComparison]

theorem unary_iff (t : Ty) :
    unType .neg t = (if t = .num then some .num else none) ∧ unType .not t = (if t = .bool then some .bool else none) := by
  cases t <;> simp [unType]

/-! ### inference of declarations -/

/-- `x := <constant>`: empty literals become any-based composites at every depth, nothing else changes;
the result has no untyped part left -/
theorem infer_const (l : LTy) : ∃ t : STy, (ofL l).infer = ofS t := by
  induction l with
  | num => exact ⟨.num, rfl⟩
  | str => exact ⟨.str, rfl⟩
  | bool => exact ⟨.bool, rfl⟩
  | any => exact ⟨.any, rfl⟩
  | emptyArr => exact ⟨.arr .any, rfl⟩
  | emptyMap => exact ⟨.map .any, rfl⟩
  | arr s ih => obtain ⟨t, ht⟩ := ih; exact ⟨.arr t, by simp [ofL, Ty.infer, ht, ofS]⟩
  | map s ih => obtain ⟨t, ht⟩ := ih; exact ⟨.map t, by simp [ofL, Ty.infer, ht, ofS]⟩

/-- the inferred type accepts the constant it was inferred from (so the declaration never fails) -/
theorem infer_accepts (l : LTy) : ∀ top, Ty.acceptsAux top false (ofL l).infer (ofL l) = true := by
  induction l with
  | arr s ih => intro top; simp [ofL, Ty.infer, Ty.acceptsAux, ih]
  | map s ih => intro top; simp [ofL, Ty.infer, Ty.acceptsAux, ih]
  | _ => intro top; simp [ofL, Ty.infer, Ty.acceptsAux, Ty.isFixed]

/-- and a declared (non-literal) type is left alone -/
theorem infer_declared (t : STy) : (ofS t).infer = ofS t := by
  induction t with
  | arr s ih => simp [ofS, Ty.infer, ih]
  | map s ih => simp [ofS, Ty.infer, ih]
  | _ => rfl

/-! ### literals: the strictest common type of the elements -/

theorem equals_const (a : LTy) : ∀ b : LTy, (ofL a).equals (ofL b) = true ↔ a = b := by
  induction a with
  | arr s ih => intro b; cases b <;> simp [ofL, Ty.equals, ih]
  | map s ih => intro b; cases b <;> simp [ofL, Ty.equals, ih]
  | _ => intro b; cases b <;> simp [ofL, Ty.equals]

theorem join_self (a : LTy) : join a a = a := by
  induction a with
  | arr s ih => simp [join, ih]
  | map s ih => simp [join, ih]
  | _ => simp [join]

theorem join_comm (a : LTy) : ∀ b : LTy, join a b = join b a := by
  induction a with
  | arr s ih => intro b; cases b <;> simp [join, ih]
  | map s ih => intro b; cases b <;> simp [join, ih]
  | _ => intro b; cases b <;> simp [join]

/-- the recursive step of combineTypes computes the join, in whichever order it is called -/
theorem combineSub_const (a : LTy) : ∀ (sw : Bool) (b : LTy),
    Ty.combineSub sw (ofL a) (ofL b) = ofL (join a b) := by
  induction a with
  | arr s ih =>
    intro sw b
    by_cases hab : LTy.arr s = b
    · subst hab
      have : (ofL (.arr s)).equals (ofL (.arr s)) = true := (equals_const _ _).2 rfl
      unfold Ty.combineSub; simp [this, join_self, ofL_not_fixed]
    · have hne : (ofL (.arr s)).equals (ofL b) = false := by
        cases h : (ofL (.arr s)).equals (ofL b) with
        | false => rfl
        | true => exact absurd ((equals_const _ _).1 h) hab
      have hne' : (ofL b).equals (ofL (.arr s)) = false := by
        cases h : (ofL b).equals (ofL (.arr s)) with
        | false => rfl
        | true => exact absurd ((equals_const _ _).1 h).symm hab
      cases b with
      | arr s' =>
        simp only [ofL] at hne hne'
        unfold Ty.combineSub
        cases sw <;> simp [hne, hne', ofL, Ty.isFixed, join, ih]
      | _ =>
        unfold Ty.combineSub
        cases sw <;> simp_all [ofL, Ty.isFixed, join]
  | map s ih =>
    intro sw b
    by_cases hab : LTy.map s = b
    · subst hab
      have : (ofL (.map s)).equals (ofL (.map s)) = true := (equals_const _ _).2 rfl
      unfold Ty.combineSub; simp [this, join_self, ofL_not_fixed]
    · have hne : (ofL (.map s)).equals (ofL b) = false := by
        cases h : (ofL (.map s)).equals (ofL b) with
        | false => rfl
        | true => exact absurd ((equals_const _ _).1 h) hab
      have hne' : (ofL b).equals (ofL (.map s)) = false := by
        cases h : (ofL b).equals (ofL (.map s)) with
        | false => rfl
        | true => exact absurd ((equals_const _ _).1 h).symm hab
      cases b with
      | map s' =>
        simp only [ofL] at hne hne'
        unfold Ty.combineSub
        cases sw <;> simp [hne, hne', ofL, Ty.isFixed, join, ih]
      | _ =>
        unfold Ty.combineSub
        cases sw <;> simp_all [ofL, Ty.isFixed, join]
  | _ =>
    intro sw b
    unfold Ty.combineSub
    cases sw <;> cases b <;> simp [ofL, Ty.equals, Ty.isFixed, join]

/-- the join is an upper bound … -/
theorem join_upper (a : LTy) : ∀ b : LTy, Le a (join a b) ∧ Le b (join a b) := by
  induction a with
  | arr s ih =>
    intro b
    cases b with
    | arr s' => simp only [join]; exact ⟨Le.arr (ih s').1, Le.arr (ih s').2⟩
    | emptyArr => simp only [join]; exact ⟨Le.refl _, Le.emptyArr _⟩
    | _ => simp [join]; exact ⟨Le.toAny _, Le.toAny _⟩
  | map s ih =>
    intro b
    cases b with
    | map s' => simp only [join]; exact ⟨Le.map (ih s').1, Le.map (ih s').2⟩
    | emptyMap => simp only [join]; exact ⟨Le.refl _, Le.emptyMap _⟩
    | _ => simp [join]; exact ⟨Le.toAny _, Le.toAny _⟩
  | emptyArr =>
    intro b
    cases b <;> simp [join] <;> (try constructor) <;>
      first | exact Le.refl _ | exact Le.toAny _ | exact Le.emptyArr _ | exact Le.emptyMap _
  | emptyMap =>
    intro b
    cases b <;> simp [join] <;> (try constructor) <;>
      first | exact Le.refl _ | exact Le.toAny _ | exact Le.emptyArr _ | exact Le.emptyMap _
  | _ =>
    intro b
    cases b <;> simp [join] <;> (try constructor) <;>
      first | exact Le.refl _ | exact Le.toAny _ | exact Le.emptyArr _ | exact Le.emptyMap _

/-- … and the least one: inference picks the STRICTEST common type -/
theorem join_least (a : LTy) : ∀ (b c : LTy), Le a c → Le b c → Le (join a b) c := by
  induction a with
  | arr s ih =>
    intro b c hac hbc
    cases hac with
    | refl =>
      cases hbc with
      | refl => rw [join_self]; exact Le.refl _
      | arr h => simp only [join]; exact Le.arr (ih _ _ (Le.refl _) h)
      | emptyArr => simp only [join]; exact Le.refl _
    | toAny => exact Le.toAny _
    | arr h1 =>
      cases hbc with
      | refl => simp only [join]; exact Le.arr (ih _ _ h1 (Le.refl _))
      | arr h2 => simp only [join]; exact Le.arr (ih _ _ h1 h2)
      | emptyArr => simp only [join]; exact Le.arr h1
  | map s ih =>
    intro b c hac hbc
    cases hac with
    | refl =>
      cases hbc with
      | refl => rw [join_self]; exact Le.refl _
      | map h => simp only [join]; exact Le.map (ih _ _ (Le.refl _) h)
      | emptyMap => simp only [join]; exact Le.refl _
    | toAny => exact Le.toAny _
    | map h1 =>
      cases hbc with
      | refl => simp only [join]; exact Le.map (ih _ _ h1 (Le.refl _))
      | map h2 => simp only [join]; exact Le.map (ih _ _ h1 h2)
      | emptyMap => simp only [join]; exact Le.map h1
  | emptyArr =>
    intro b c hac hbc
    cases hac with
    | refl => cases hbc with
      | refl => simp [join]; exact Le.refl _
    | toAny => exact Le.toAny _
    | emptyArr c' =>
      cases hbc with
      | refl => simp only [join]; exact Le.refl _
      | arr h => simp only [join]; exact Le.arr h
      | emptyArr => simp [join]; exact Le.emptyArr _
  | emptyMap =>
    intro b c hac hbc
    cases hac with
    | refl => cases hbc with
      | refl => simp [join]; exact Le.refl _
    | toAny => exact Le.toAny _
    | emptyMap c' =>
      cases hbc with
      | refl => simp only [join]; exact Le.refl _
      | map h => simp only [join]; exact Le.map h
      | emptyMap => simp [join]; exact Le.emptyMap _
  | _ =>
    intro b c hac hbc
    cases hac with
    | refl => cases hbc <;> simp [join] <;> first | exact Le.refl _ | exact Le.toAny _
    | toAny => exact Le.toAny _

/-- combineTypes on two constant element types is their join (the top-level call gives up with `any`
exactly where the join is `any`) -/
theorem combine2_const (a b : LTy) :
    (Ty.combine2 (ofL a) (ofL b)).getD .any = ofL (join a b) := by
  by_cases hab : a = b
  · subst hab
    have : (ofL a).equals (ofL a) = true := (equals_const _ _).2 rfl
    simp [Ty.combine2, this, ofL_not_fixed, join_self]
  · have hne : (ofL a).equals (ofL b) = false := by
      cases h : (ofL a).equals (ofL b) with
      | false => rfl
      | true => exact absurd ((equals_const _ _).1 h) hab
    cases a <;> cases b <;> simp_all [Ty.combine2, ofL, Ty.isFixed, join, combineSub_const]
    all_goals (rw [join_comm])

/-! ### non-vacuity and the spec's own examples -/

example : Conv (.arr (.map (.arr .num))) (.arr (.map .any)) := Conv.arr (Conv.map (Conv.toAny _))
example : (ofS (.arr .any)).fixedType.accepts (ofL (.arr .num)) = true := by decide
example : (ofS (.arr .any)).fixedType.accepts (ofS (.arr .num)).fixedType = false := by decide
example : (ofS (.arr (.map .any))).accepts (ofL (.arr (.map (.arr .emptyArr)))) = true := by decide
example : binType .plus (ofL (.arr .emptyArr)) (ofL (.arr (.arr .num))) = some (ofL (.arr (.arr .num))) := by decide
example : binType .star .emptyArr .num = some .emptyArr := by decide

end EvyV.C04
