import EvyV.Model.Static
import EvyV.Model.Interp
import EvyV.Gen.Shapes
/-
C05 (the part that is logic):

* the parser's termination analysis is SOUND for the evaluator: a statement or block that the parser
  says "always terminates" (so that code after it is unreachable and a typed function ending in it
  needs no further return) never completes normally in any execution — for every program, state,
  oracle and number of steps;
* nothing of a rejected program runs: the entry points parse first and return on error (extracted
  call shapes of evaluator.Run).
-/
namespace EvyV.C05
variable {F : Type} (ops : NumOps F) (ext : Ext F) (prog : Program F)

theorem terminating_never_normal (fuel : Nat) :
    (∀ (s : Stmt F) st c st', stmtTerms s = true → execS ops ext prog fuel s st = .ok c st' → c ≠ .normal) ∧
    (∀ (b : List (Stmt F)) st c st', blockTerms b = true → execStmts ops ext prog fuel b st = .ok c st' → c ≠ .normal) ∧
    (∀ (b : List (Stmt F)) st c st', blockTerms b = true → execBlockNode ops ext prog fuel b st = .ok c st' → c ≠ .normal) ∧
    (∀ (cond : Expr F) (b : List (Stmt F)) st c st', blockTerms b = true →
        execCond ops ext prog fuel cond b st = .ok (c, true) st' → c ≠ .normal) ∧
    (∀ (conds : List (Expr F × List (Stmt F))) (e : List (Stmt F)) st c st', blockTerms e = true → condsTerm conds = true →
        execIfChain ops ext prog fuel conds (some e) st = .ok c st' → c ≠ .normal) := by
  induction fuel with
  | zero =>
    refine ⟨?_, ?_, ?_, ?_, ?_⟩ <;> intros <;> simp_all [execS, execStmts, execBlockNode, execCond, execIfChain]
  | succ n ih =>
    obtain ⟨ih1, ih2, ih3, ih4, ih5⟩ := ih
    refine ⟨?_, ?_, ?_, ?_, ?_⟩
    · -- one statement
      intro s st c st' hs h
      unfold execS at h
      cases ht : tick st with
      | none => simp [ht] at h
      | some st1 =>
        simp only [ht] at h
        cases s with
        | ret v =>
          cases v with
          | none => simp at h; rw [← h.1]; simp
          | some e =>
            simp only at h
            cases he : evalE ops ext prog n e st1 with
            | err o s2 => simp [he] at h
            | ok v s2 => simp [he] at h; rw [← h.1]; simp
        | brk => simp at h; rw [← h.1]; simp
        | ifS conds els =>
          cases els with
          | none => simp [stmtTerms] at hs
          | some e =>
            simp only [stmtTerms, Bool.and_eq_true] at hs
            simp only at h
            exact ih5 conds e st1 c st' hs.1 hs.2 h
        | decl _ _ => simp [stmtTerms] at hs
        | assign _ _ => simp [stmtTerms] at hs
        | callS _ => simp [stmtTerms] at hs
        | whileS _ _ => simp [stmtTerms] at hs
        | forS _ _ _ _ => simp [stmtTerms] at hs
        | noop => simp [stmtTerms] at hs
    · -- a statement list
      intro b st c st' hb h
      cases b with
      | nil => simp [blockTerms] at hb
      | cons s rest =>
        simp only [blockTerms, Bool.or_eq_true] at hb
        unfold execStmts at h
        cases hs : execS ops ext prog n s st with
        | err o s2 => simp [hs] at h
        | ok c1 s2 =>
          cases c1 with
          | normal =>
            simp only [hs] at h
            rcases hb with hb | hb
            · exact absurd rfl (ih1 s st .normal s2 hb hs)
            · exact ih2 rest s2 c st' hb h
          | brk => simp [hs] at h; rw [← h.1]; simp
          | ret v => simp [hs] at h; rw [← h.1]; simp
    · -- a block node
      intro b st c st' hb h
      unfold execBlockNode at h
      cases ht : tick st with
      | none => simp [ht] at h
      | some st1 => simp only [ht] at h; exact ih2 b st1 c st' hb h
    · -- a conditional block
      intro cond b st c st' hb h
      unfold execCond at h
      simp only at h
      cases he : evalE ops ext prog n cond (pushScope st) with
      | err o s2 => simp [he] at h
      | ok v s2 =>
        simp only [he] at h
        cases v with
        | bool bv =>
          cases bv with
          | true =>
            simp only at h
            cases hx : execBlockNode ops ext prog n b s2 with
            | err o s3 => simp [hx] at h
            | ok c3 s3 =>
              simp [hx] at h
              rw [← h.1]
              exact ih3 b s2 c3 s3 hb hx
          | false => simp at h
        | _ => simp at h
    · -- the if / else-if / else chain
      intro conds e st c st' he hc h
      cases conds with
      | nil =>
        unfold execIfChain at h
        simp only at h
        cases hx : execBlockNode ops ext prog n e (pushScope st) with
        | err o s3 => simp [hx] at h
        | ok c3 s3 =>
          simp [hx] at h
          rw [← h.1]
          exact ih3 e _ c3 s3 he hx
      | cons cb rest =>
        obtain ⟨cnd, body⟩ := cb
        simp only [condsTerm, Bool.and_eq_true] at hc
        unfold execIfChain at h
        cases hx : execCond ops ext prog n cnd body st with
        | err o s3 => simp [hx] at h
        | ok r s3 =>
          obtain ⟨comp, taken⟩ := r
          cases taken with
          | true =>
            simp [hx] at h
            rw [← h.1]
            exact ih4 cnd body st comp s3 hc.1 hx
          | false =>
            simp only [hx] at h
            exact ih5 rest e s3 c st' he hc.2 h

/-- **soundness of "unreachable code" / "missing return"**: whatever the parser's analysis calls
terminating never falls through, in any execution of any length -/
theorem block_terminates_sound (fuel : Nat) (b : List (Stmt F)) (st st' : St F) (c : Completion F)
    (hb : blockTerms b = true) (h : execStmts ops ext prog fuel b st = .ok c st') : c ≠ .normal :=
  (terminating_never_normal ops ext prog fuel).2.1 b st c st' hb h

/-! ### a function with a return type always returns a value -/

/-- how a statement inside such a body can complete: `break` only if inside a loop, `return` only
with a value -/
def Compl (inLoop : Bool) (c : Completion F) : Prop :=
  (c = .brk → inLoop = true) ∧ ∀ v, c = .ret v → v.isSome = true

theorem Compl.normal (il : Bool) : Compl il (.normal : Completion F) := ⟨(by intro h; cases h), (by intro v h; cases h)⟩
theorem Compl.weaken {il : Bool} {c : Completion F} (h : Compl false c) : Compl il c :=
  ⟨fun e => absurd (h.1 e) (by simp), h.2⟩

theorem for_tail_ok (n : Nat) (lv : Str) (body : List (Stmt F)) (rr : Res F (Ranger F)) (c : Completion F) (st' : St F)
    (h : (match rr with
      | .err o s => (.err o (popScope s) : Res F (Completion F))
      | .ok r s =>
        match execForLoop ops ext prog n lv r body s with
        | .err o s' => .err o (popScope s')
        | .ok c s' => .ok c (popScope s')) = .ok c st') :
    ∃ r s s', execForLoop ops ext prog n lv r body s = .ok c s' := by
  cases rr with
  | err o s => simp at h
  | ok r s =>
    simp only at h
    cases hx : execForLoop ops ext prog n lv r body s with
    | err o s' => simp [hx] at h
    | ok c' s' => simp [hx] at h; exact ⟨r, s, s', by rw [hx, h.1]⟩

theorem fn_completions (fuel : Nat) :
    (∀ (il : Bool) (s : Stmt F) st c st', fnOkS il s = true → execS ops ext prog fuel s st = .ok c st' → Compl il c) ∧
    (∀ (il : Bool) (b : List (Stmt F)) st c st', fnOkB il b = true → execStmts ops ext prog fuel b st = .ok c st' → Compl il c) ∧
    (∀ (il : Bool) (b : List (Stmt F)) st c st', fnOkB il b = true → execBlockNode ops ext prog fuel b st = .ok c st' → Compl il c) ∧
    (∀ (il : Bool) (cond : Expr F) (b : List (Stmt F)) st c t st', fnOkB il b = true →
        execCond ops ext prog fuel cond b st = .ok (c, t) st' → Compl il c) ∧
    (∀ (il : Bool) (conds : List (Expr F × List (Stmt F))) (e : Option (List (Stmt F))) st c st',
        fnOkConds il conds = true → (∀ b, e = some b → fnOkB il b = true) →
        execIfChain ops ext prog fuel conds e st = .ok c st' → Compl il c) ∧
    (∀ (cond : Expr F) (b : List (Stmt F)) st c st', fnOkB true b = true →
        execWhile ops ext prog fuel cond b st = .ok c st' → Compl false c) ∧
    (∀ (lv : Str) (r : Ranger F) (b : List (Stmt F)) st c st', fnOkB true b = true →
        execForLoop ops ext prog fuel lv r b st = .ok c st' → Compl false c) := by
  induction fuel with
  | zero =>
    refine ⟨?_, ?_, ?_, ?_, ?_, ?_, ?_⟩ <;> intros <;>
      simp_all [execS, execStmts, execBlockNode, execCond, execIfChain, execWhile, execForLoop]
  | succ n ih =>
    obtain ⟨ih1, ih2, ih3, ih4, ih5, ih6, ih7⟩ := ih
    refine ⟨?_, ?_, ?_, ?_, ?_, ?_, ?_⟩
    · -- one statement
      intro il s st c st' hs h
      unfold execS at h
      cases ht : tick st with
      | none => simp [ht] at h
      | some st1 =>
        simp only [ht] at h
        cases s with
        | noop => simp at h; rw [← h.1]; exact Compl.normal il
        | brk =>
          simp at h; rw [← h.1]
          simp only [fnOkS] at hs
          exact ⟨fun _ => hs, (by intro v e; cases e)⟩
        | decl name value =>
          simp only at h
          cases he : evalE ops ext prog n value st1 with
          | err o s2 => simp [he] at h
          | ok v s2 => simp [he] at h; rw [← h.1]; exact Compl.normal il
        | callS e =>
          cases e with
          | call name args =>
            simp only at h
            cases hc : evalCall ops ext prog n name args st1 with
            | err o s2 => simp [hc] at h
            | ok v s2 => simp [hc] at h; rw [← h.1]; exact Compl.normal il
          | _ => simp at h
        | ret v =>
          cases v with
          | none => simp [fnOkS] at hs
          | some e =>
            simp only at h
            cases he : evalE ops ext prog n e st1 with
            | err o s2 => simp [he] at h
            | ok v s2 =>
              simp [he] at h; rw [← h.1]
              exact ⟨(by intro e; cases e), (by intro w e; cases e; rfl)⟩
        | ifS conds els =>
          simp only at h
          cases els with
          | none =>
            simp only [fnOkS, Bool.and_eq_true] at hs
            exact ih5 il conds none st1 c st' hs.1 (by intro b hb; cases hb) h
          | some e =>
            simp only [fnOkS, Bool.and_eq_true] at hs
            exact ih5 il conds (some e) st1 c st' hs.1 (by intro b hb; cases hb; exact hs.2) h
        | whileS cnd body =>
          simp only [fnOkS] at hs
          simp only at h
          exact (ih6 cnd body st1 c st' hs h).weaken
        | assign target value =>
          -- an assignment completes normally or fails
          have : c = .normal := by
            simp only at h
            cases he : evalE ops ext prog n value st1 with
            | err o s2 => simp [he] at h
            | ok v s2 =>
              simp only [he] at h
              cases target with
              | var nm =>
                simp only at h
                cases hu : updateVar s2 nm v with
                | none => simp [hu] at h
                | some s3 => simp [hu] at h; exact h.1.symm
              | index l i =>
                simp only at h
                cases hl : evalE ops ext prog n l s2 with
                | err o s3 => simp [hl] at h
                | ok left s3 =>
                  simp only [hl] at h
                  cases hi : evalE ops ext prog n i s3 with
                  | err o s4 => simp [hi] at h
                  | ok idx s4 =>
                    simp only [hi] at h
                    repeat' split at h
                    all_goals first | (simp at h; exact h.1.symm) | (simp at h)
              | dot l key =>
                simp only at h
                cases hl : evalE ops ext prog n l s2 with
                | err o s3 => simp [hl] at h
                | ok left s3 =>
                  simp only [hl] at h
                  repeat' split at h
                  all_goals first | (simp at h; exact h.1.symm) | (simp at h)
              | _ => simp at h
          rw [this]; exact Compl.normal il
        | forS lvOpt lvTy range body =>
          simp only [fnOkS] at hs
          simp only at h
          obtain ⟨r, s, s', hx⟩ := for_tail_ok ops ext prog n _ body _ c st' h
          exact (ih7 _ r body s c s' hs hx).weaken
    · -- a statement list
      intro il b st c st' hb h
      cases b with
      | nil => simp [execStmts] at h; rw [← h.1]; exact Compl.normal il
      | cons s rest =>
        simp only [fnOkB, Bool.and_eq_true] at hb
        unfold execStmts at h
        cases hs : execS ops ext prog n s st with
        | err o s2 => simp [hs] at h
        | ok c1 s2 =>
          have g := ih1 il s st c1 s2 hb.1 hs
          cases c1 with
          | normal => simp only [hs] at h; exact ih2 il rest s2 c st' hb.2 h
          | brk => simp [hs] at h; rw [← h.1]; exact g
          | ret v => simp [hs] at h; rw [← h.1]; exact g
    · -- a block node
      intro il b st c st' hb h
      unfold execBlockNode at h
      cases ht : tick st with
      | none => simp [ht] at h
      | some st1 => simp only [ht] at h; exact ih2 il b st1 c st' hb h
    · -- a conditional block
      intro il cond b st c t st' hb h
      unfold execCond at h
      simp only at h
      cases he : evalE ops ext prog n cond (pushScope st) with
      | err o s2 => simp [he] at h
      | ok v s2 =>
        simp only [he] at h
        cases v with
        | bool bv =>
          cases bv with
          | true =>
            simp only at h
            cases hx : execBlockNode ops ext prog n b s2 with
            | err o s3 => simp [hx] at h
            | ok c3 s3 =>
              simp [hx] at h
              rw [← h.1.1]
              exact ih3 il b s2 c3 s3 hb hx
          | false => simp at h; rw [← h.1.1]; exact Compl.normal il
        | _ => simp at h
    · -- the if chain
      intro il conds e st c st' hc he h
      cases conds with
      | nil =>
        unfold execIfChain at h
        cases e with
        | none => simp at h; rw [← h.1]; exact Compl.normal il
        | some body =>
          simp only at h
          cases hx : execBlockNode ops ext prog n body (pushScope st) with
          | err o s3 => simp [hx] at h
          | ok c3 s3 =>
            simp [hx] at h
            rw [← h.1]
            exact ih3 il body _ c3 s3 (he body rfl) hx
      | cons cb rest =>
        obtain ⟨cnd, body⟩ := cb
        simp only [fnOkConds, Bool.and_eq_true] at hc
        unfold execIfChain at h
        cases hx : execCond ops ext prog n cnd body st with
        | err o s3 => simp [hx] at h
        | ok r s3 =>
          obtain ⟨comp, taken⟩ := r
          cases taken with
          | true =>
            simp [hx] at h
            rw [← h.1]
            exact ih4 il cnd body st comp true s3 hc.1 hx
          | false =>
            simp only [hx] at h
            exact ih5 il rest e s3 c st' hc.2 he h
    · -- while: a break ends the loop, a return passes through
      intro cond b st c st' hb h
      unfold execWhile at h
      cases hx : execCond ops ext prog n cond b st with
      | err o s3 => simp [hx] at h
      | ok r s3 =>
        obtain ⟨comp, taken⟩ := r
        have g := ih4 true cond b st comp taken s3 hb hx
        cases taken with
        | false => simp [hx] at h; rw [← h.1]; exact Compl.normal false
        | true =>
          cases comp with
          | brk => simp [hx] at h; rw [← h.1]; exact Compl.normal false
          | ret v =>
            simp [hx] at h; rw [← h.1]
            exact ⟨(by intro e; cases e), g.2⟩
          | normal => simp only [hx] at h; exact ih6 cond b s3 c st' hb h
    · -- for
      intro lv r b st c st' hb h
      unfold execForLoop at h
      cases hn : rangerNext ops st r with
      | none => simp [hn] at h; rw [← h.1]; exact Compl.normal false
      | some p =>
        obtain ⟨v, r'⟩ := p
        simp only [hn] at h
        cases hu : updateVar st lv v with
        | none => simp [hu] at h
        | some st1 =>
          simp only [hu] at h
          cases hx : execBlockNode ops ext prog n b (pushScope st1) with
          | err o s2 => simp [hx] at h
          | ok comp s2 =>
            have g := ih3 true b _ comp s2 hb hx
            cases comp with
            | brk => simp [hx] at h; rw [← h.1]; exact Compl.normal false
            | ret rv =>
              simp [hx] at h; rw [← h.1]
              exact ⟨(by intro e; cases e), g.2⟩
            | normal => simp only [hx] at h; exact ih7 lv r' b _ c st' hb h

/-- **soundness of "missing return"**: a function body that the parser accepts for a function with a
return type — it always terminates, breaks only inside loops, returns only values — can only end by
returning a value (or by failing): it never falls off its end and never returns nothing -/
theorem typed_function_returns_a_value (fuel : Nat) (body : List (Stmt F)) (st st' : St F) (c : Completion F)
    (ht : blockTerms body = true) (hf : fnOkB false body = true)
    (h : execBlockNode ops ext prog fuel body st = .ok c st') : ∃ v, c = .ret (some v) := by
  have h1 := (terminating_never_normal ops ext prog fuel).2.2.1 body st c st' ht h
  have h2 := (fn_completions ops ext prog fuel).2.2.1 false body st c st' hf h
  cases c with
  | normal => exact absurd rfl h1
  | brk => exact absurd (h2.1 rfl) (by simp)
  | ret v =>
    cases v with
    | none => exact absurd (h2.2 none rfl) (by simp)
    | some w => exact ⟨w, rfl⟩

/-! ### nothing of a rejected program runs: the entry point parses first and returns on error -/

theorem run_parses_first :
    Gen.evaluatorRun = [("parse", "checked"), ("eval", "returned")] := by decide

/-- the abstract entry point with that shape: a parse error means no effect at all -/
def runShape {P E : Type} (parse : String → Except E P) (eval : P → List String) (src : String) : List String :=
  match parse src with
  | .error _ => []
  | .ok p => eval p

theorem rejected_runs_nothing {P E : Type} (parse : String → Except E P) (eval : P → List String) (src : String) (e : E)
    (h : parse src = .error e) : runShape parse eval src = [] := by
  simp [runShape, h]

/-! ### non-vacuity -/

example : blockTerms ([.decl ['x'] (.num (1 : Int)), .ifS [(.bool true, [.ret none])] (some [.brk]), .noop] : List (Stmt Int)) = true := by
  decide
example : blockTerms ([.ifS [(.bool true, [.ret none])] none] : List (Stmt Int)) = false := by decide
example : blockTerms ([.whileS (.bool true) [.ret none]] : List (Stmt Int)) = false := by decide
example : fnOkB false ([.whileS (.bool true) [.brk], .ifS [(.bool true, [.ret (some (.num (1 : Int)))])] (some [.ret (some (.num 2))])] : List (Stmt Int)) = true ∧
    blockTerms ([.whileS (.bool true) [.brk], .ifS [(.bool true, [.ret (some (.num (1 : Int)))])] (some [.ret (some (.num 2))])] : List (Stmt Int)) = true := by decide

end EvyV.C05
