import EvyV.Model.Static
import EvyV.Model.Interp
import EvyV.Gen.Shapes
/-
C05 (the part that is logic):

* the parser's termination analysis is SOUND for the evaluator: a statement or block that the parser
  says "always terminates" (so that code after it is unreachable and a typed function ending in it
  needs no further return) never completes normally in any execution — for every program, state,
  oracle and number of steps;
* nothing of a rejected program runs: the entry points parse first and return on error (extracted
  call shapes of evaluator.Run).
-/
namespace EvyV.C05
variable {F : Type} (ops : NumOps F) (ext : Ext F) (prog : Program F)

theorem terminating_never_normal (fuel : Nat) :
    (∀ (s : Stmt F) st c st', stmtTerms s = true → execS ops ext prog fuel s st = .ok c st' → c ≠ .normal) ∧
    (∀ (b : List (Stmt F)) st c st', blockTerms b = true → execStmts ops ext prog fuel b st = .ok c st' → c ≠ .normal) ∧
    (∀ (b : List (Stmt F)) st c st', blockTerms b = true → execBlockNode ops ext prog fuel b st = .ok c st' → c ≠ .normal) ∧
    (∀ (cond : Expr F) (b : List (Stmt F)) st c st', blockTerms b = true →
        execCond ops ext prog fuel cond b st = .ok (c, true) st' → c ≠ .normal) ∧
    (∀ (conds : List (Expr F × List (Stmt F))) (e : List (Stmt F)) st c st', blockTerms e = true → condsTerm conds = true →
        execIfChain ops ext prog fuel conds (some e) st = .ok c st' → c ≠ .normal) := by
  induction fuel with
  | zero =>
    refine ⟨?_, ?_, ?_, ?_, ?_⟩ <;> intros <;> simp_all [execS, execStmts, execBlockNode, execCond, execIfChain]
  | succ n ih =>
    obtain ⟨ih1, ih2, ih3, ih4, ih5⟩ := ih
    refine ⟨?_, ?_, ?_, ?_, ?_⟩
    · -- one statement
      intro s st c st' hs h
      unfold execS at h
      cases ht : tick st with
      | none => simp [ht] at h
      | some st1 =>
        simp only [ht] at h
        cases s with
        | ret v =>
          cases v with
          | none => simp at h; rw [← h.1]; simp
          | some e =>
            simp only at h
            cases he : evalE ops ext prog n e st1 with
            | err o s2 => simp [he] at h
            | ok v s2 => simp [he] at h; rw [← h.1]; simp
        | brk => simp at h; rw [← h.1]; simp
        | ifS conds els =>
          cases els with
          | none => simp [stmtTerms] at hs
          | some e =>
            simp only [stmtTerms, Bool.and_eq_true] at hs
            simp only at h
            exact ih5 conds e st1 c st' hs.1 hs.2 h
        | decl _ _ => simp [stmtTerms] at hs
        | assign _ _ => simp [stmtTerms] at hs
        | callS _ => simp [stmtTerms] at hs
        | whileS _ _ => simp [stmtTerms] at hs
        | forS _ _ _ _ => simp [stmtTerms] at hs
        | noop => simp [stmtTerms] at hs
    · -- a statement list
      intro b st c st' hb h
      cases b with
      | nil => simp [blockTerms] at hb
      | cons s rest =>
        simp only [blockTerms, Bool.or_eq_true] at hb
        unfold execStmts at h
        cases hs : execS ops ext prog n s st with
        | err o s2 => simp [hs] at h
        | ok c1 s2 =>
          cases c1 with
          | normal =>
            simp only [hs] at h
            rcases hb with hb | hb
            · exact absurd rfl (ih1 s st .normal s2 hb hs)
            · exact ih2 rest s2 c st' hb h
          | brk => simp [hs] at h; rw [← h.1]; simp
          | ret v => simp [hs] at h; rw [← h.1]; simp
    · -- a block node
      intro b st c st' hb h
      unfold execBlockNode at h
      cases ht : tick st with
      | none => simp [ht] at h
      | some st1 => simp only [ht] at h; exact ih2 b st1 c st' hb h
    · -- a conditional block
      intro cond b st c st' hb h
      unfold execCond at h
      simp only at h
      cases he : evalE ops ext prog n cond (pushScope st) with
      | err o s2 => simp [he] at h
      | ok v s2 =>
        simp only [he] at h
        cases v with
        | bool bv =>
          cases bv with
          | true =>
            simp only at h
            cases hx : execBlockNode ops ext prog n b s2 with
            | err o s3 => simp [hx] at h
            | ok c3 s3 =>
              simp [hx] at h
              rw [← h.1]
              exact ih3 b s2 c3 s3 hb hx
          | false => simp at h
        | _ => simp at h
    · -- the if / else-if / else chain
      intro conds e st c st' he hc h
      cases conds with
      | nil =>
        unfold execIfChain at h
        simp only at h
        cases hx : execBlockNode ops ext prog n e (pushScope st) with
        | err o s3 => simp [hx] at h
        | ok c3 s3 =>
          simp [hx] at h
          rw [← h.1]
          exact ih3 e _ c3 s3 he hx
      | cons cb rest =>
        obtain ⟨cnd, body⟩ := cb
        simp only [condsTerm, Bool.and_eq_true] at hc
        unfold execIfChain at h
        cases hx : execCond ops ext prog n cnd body st with
        | err o s3 => simp [hx] at h
        | ok r s3 =>
          obtain ⟨comp, taken⟩ := r
          cases taken with
          | true =>
            simp [hx] at h
            rw [← h.1]
            exact ih4 cnd body st comp s3 hc.1 hx
          | false =>
            simp only [hx] at h
            exact ih5 rest e s3 c st' he hc.2 h

/-- **soundness of "unreachable code" / "missing return"**: whatever the parser's analysis calls
terminating never falls through, in any execution of any length -/
theorem block_terminates_sound (fuel : Nat) (b : List (Stmt F)) (st st' : St F) (c : Completion F)
    (hb : blockTerms b = true) (h : execStmts ops ext prog fuel b st = .ok c st') : c ≠ .normal :=
  (terminating_never_normal ops ext prog fuel).2.1 b st c st' hb h

/-! ### nothing of a rejected program runs: the entry point parses first and returns on error -/

theorem run_parses_first :
    Gen.evaluatorRun = [("parse", "checked"), ("eval", "returned")] := by decide

/-- the abstract entry point with that shape: a parse error means no effect at all -/
def runShape {P E : Type} (parse : String → Except E P) (eval : P → List String) (src : String) : List String :=
  match parse src with
  | .error _ => []
  | .ok p => eval p

theorem rejected_runs_nothing {P E : Type} (parse : String → Except E P) (eval : P → List String) (src : String) (e : E)
    (h : parse src = .error e) : runShape parse eval src = [] := by
  simp [runShape, h]

/-! ### non-vacuity -/

example : blockTerms ([.decl ['x'] (.num (1 : Int)), .ifS [(.bool true, [.ret none])] (some [.brk]), .noop] : List (Stmt Int)) = true := by
  decide
example : blockTerms ([.ifS [(.bool true, [.ret none])] none] : List (Stmt Int)) = false := by decide
example : blockTerms ([.whileS (.bool true) [.ret none]] : List (Stmt Int)) = false := by decide

end EvyV.C05
