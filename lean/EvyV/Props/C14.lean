import EvyV.Props.EvalCore
import EvyV.Props.Frame
/-
C14 — running programs stay interruptible and stop cleanly.

In the model every entry into Go's `eval` is a `tick`: stop check, then one
yield, and the platform raises the flag during yield `stopAt`.
-/
namespace EvyV.C14
open EvyV
variable {F : Type} (ops : NumOps F) (ext : Ext F) (prog : Program F)

/-- every entry into `eval` (expression, statement, block) yields exactly once before doing
anything else, or returns 'stopped' without doing anything when the flag is up -/
theorem entry_yields_once (st : St F) :
    (st.stopped = true ∧ tick st = none) ∨
    (st.stopped = false ∧ ∃ st', tick st = some st' ∧ st'.yields = st.yields + 1 ∧ st'.trace = st.trace) := by
  cases h : st.stopped
  · right; exact ⟨rfl, _, tick_running st h, rfl, rfl⟩
  · left; exact ⟨rfl, tick_stopped st h⟩

/-- the flag is raised exactly during yield number `k` -/
theorem flag_raised_at_k (st st' : St F) (k : Nat) (hk : st.stopAt = some k) (ht : tick st = some st') :
    st'.stopped = true ↔ st.yields + 1 = k := by
  have := tick_some st st' ht
  rw [this.2.2.2.2.2.2.2, hk]
  simp only [beq_iff_eq, Option.some.injEq]
  exact eq_comm

/-- without a stop request the flag is never raised -/
theorem never_stopped_without_request (st st' : St F) (hk : st.stopAt = none) (ht : tick st = some st') :
    st'.stopped = false ∧ st'.stopAt = none := by
  have := tick_some st st' ht
  rw [this.2.2.2.2.2.2.2, this.2.2.2.2.2.2.1, hk]
  simp

/-- **Clean stop**: once the flag is up, evaluating any expression, statement or block returns
'stopped' and leaves the state — effects, variables, heap — exactly as it was. -/
theorem stop_is_clean (n : Nat) (st : St F) (h : st.stopped = true) :
    (∀ e, evalE ops ext prog (n + 1) e st = .err .stopped st) ∧
    (∀ s, execS ops ext prog (n + 1) s st = .err .stopped st) ∧
    (∀ b, execBlockNode ops ext prog (n + 1) b st = .err .stopped st) :=
  ⟨fun e => stopped_expr ops ext prog n e st h, fun s => stopped_stmt ops ext prog n s st h,
   fun b => stopped_block ops ext prog n b st h⟩

/-- errors (in particular 'stopped') propagate out of statement sequences: nothing after the
failing statement is executed -/
theorem stmts_stop_at_error (n : Nat) (s : Stmt F) (rest : List (Stmt F)) (st st' : St F) (o : Outcome)
    (h : execS ops ext prog n s st = .err o st') :
    execStmts ops ext prog (n + 1) (s :: rest) st = .err o st' := by
  simp [execStmts, h]

/-- a while loop re-evaluates its condition (at least one yield) before every iteration, and
runs the body through a block node (another yield) -/
theorem while_next_iteration (n : Nat) (c : Expr F) (body : List (Stmt F)) (st st' : St F)
    (h : execCond ops ext prog n c body st = .ok (.normal, true) st') :
    execWhile ops ext prog (n + 1) c body st = execWhile ops ext prog n c body st' := by
  simp [execWhile, h]

theorem while_tests_first (n : Nat) (c : Expr F) (body : List (Stmt F)) (st st' : St F) (comp : Completion F)
    (h : execCond ops ext prog n c body st = .ok (comp, false) st') :
    execWhile ops ext prog (n + 1) c body st = .ok .normal st' := by
  simp [execWhile, h]

theorem while_stops_on_error (n : Nat) (c : Expr F) (body : List (Stmt F)) (st st' : St F) (o : Outcome)
    (h : execCond ops ext prog n c body st = .err o st') :
    execWhile ops ext prog (n + 1) c body st = .err o st' := by
  simp [execWhile, h]

/-- every iteration of a for loop runs the body through a block node, i.e. through `tick` -/
theorem for_iteration_ticks (n : Nat) (lv : Str) (r r' : Ranger F) (body : List (Stmt F)) (st st1 : St F) (v : Val F)
    (hn : rangerNext ops st r = some (v, r')) (hu : updateVar st lv v = some st1) (hs : st1.stopped = true) :
    execForLoop ops ext prog (n + 2) lv r body st = .err .stopped (popScope (pushScope st1)) := by
  have : (pushScope st1).stopped = true := by simp [pushScope, hs]
  simp [execForLoop, hn, hu, stopped_block ops ext prog n body (pushScope st1) this]

/-- every call of a user function runs its body through a block node, i.e. through `tick` -/
theorem body_is_block_node (n : Nat) (b : List (Stmt F)) (st : St F) :
    execBlockNode ops ext prog (n + 1) b st =
      match tick st with
      | none => .err .stopped st
      | some st' => execStmts ops ext prog n b st' := by
  simp [execBlockNode]
  cases tick st <;> simp

/-- the report printed after a stop is the test summary only -/
theorem only_summary_follows (st : St F) :
    (testReport st).trace = st.trace ∨ ∃ s, (testReport st).trace = .print s :: st.trace := by
  unfold testReport
  split
  · left; rfl
  · split <;> (right; exact ⟨_, rfl⟩)

/-! Non-vacuity: states with and without the flag -/
example : ∃ st : St Int, st.stopped = true ∧ tick st = none := ⟨{ stopped := true }, rfl, rfl⟩
example : ∃ st st' : St Int, st.stopAt = some 1 ∧ tick st = some st' ∧ st'.stopped = true :=
  ⟨{ stopAt := some 1 }, _, rfl, rfl, rfl⟩

/-- **whole programs**: through any execution a raised stop flag stays raised, the stop request is
untouched, yields only increase and the platform trace is only extended (nothing already done is
undone when a program is stopped) -/
theorem stop_is_latched_everywhere (n : Nat) (b : List (Stmt F)) (st : St F) :
    let st' := (execStmts ops ext prog n b st).st
    (st.stopped = true → st'.stopped = true) ∧ st'.stopAt = st.stopAt ∧ st.yields ≤ st'.yields ∧
    ∃ suf, st'.trace = suf ++ st.trace := stop_latched_effects_kept ops ext prog n b st

end EvyV.C14
