import EvyV.Props.EvalCore
import EvyV.Props.Frame
import EvyV.Props.TwoRun
/-
C14 — running programs stay interruptible and stop cleanly.

In the model every entry into Go's `eval` is a `tick`: stop check, then one
yield, and the platform raises the flag during yield `stopAt`.
-/
namespace EvyV.C14
open EvyV
variable {F : Type} (ops : NumOps F) (ext : Ext F) (prog : Program F)

/-- every entry into `eval` (expression, statement, block) yields exactly once before doing
anything else, or returns 'stopped' without doing anything when the flag is up -/
theorem entry_yields_once (st : St F) :
    (st.stopped = true ∧ tick st = none) ∨
    (st.stopped = false ∧ ∃ st', tick st = some st' ∧ st'.yields = st.yields + 1 ∧ st'.trace = st.trace) := by
  cases h : st.stopped
  · right; exact ⟨rfl, _, tick_running st h, rfl, rfl⟩
  · left; exact ⟨rfl, tick_stopped st h⟩

/-- the flag is raised exactly during yield number `k` -/
theorem flag_raised_at_k (st st' : St F) (k : Nat) (hk : st.stopAt = some k) (ht : tick st = some st') :
    st'.stopped = true ↔ st.yields + 1 = k := by
  have := tick_some st st' ht
  rw [this.2.2.2.2.2.2.2, hk]
  simp only [beq_iff_eq, Option.some.injEq]
  exact eq_comm

/-- without a stop request the flag is never raised -/
theorem never_stopped_without_request (st st' : St F) (hk : st.stopAt = none) (ht : tick st = some st') :
    st'.stopped = false ∧ st'.stopAt = none := by
  have := tick_some st st' ht
  rw [this.2.2.2.2.2.2.2, this.2.2.2.2.2.2.1, hk]
  simp

/-- **Clean stop**: once the flag is up, evaluating any expression, statement or block returns
'stopped' and leaves the state — effects, variables, heap — exactly as it was. -/
theorem stop_is_clean (n : Nat) (st : St F) (h : st.stopped = true) :
    (∀ e, evalE ops ext prog (n + 1) e st = .err .stopped st) ∧
    (∀ s, execS ops ext prog (n + 1) s st = .err .stopped st) ∧
    (∀ b, execBlockNode ops ext prog (n + 1) b st = .err .stopped st) :=
  ⟨fun e => stopped_expr ops ext prog n e st h, fun s => stopped_stmt ops ext prog n s st h,
   fun b => stopped_block ops ext prog n b st h⟩

/-- errors (in particular 'stopped') propagate out of statement sequences: nothing after the
failing statement is executed -/
theorem stmts_stop_at_error (n : Nat) (s : Stmt F) (rest : List (Stmt F)) (st st' : St F) (o : Outcome)
    (h : execS ops ext prog n s st = .err o st') :
    execStmts ops ext prog (n + 1) (s :: rest) st = .err o st' := by
  simp [execStmts, h]

/-- a while loop re-evaluates its condition (at least one yield) before every iteration, and
runs the body through a block node (another yield) -/
theorem while_next_iteration (n : Nat) (c : Expr F) (body : List (Stmt F)) (st st' : St F)
    (h : execCond ops ext prog n c body st = .ok (.normal, true) st') :
    execWhile ops ext prog (n + 1) c body st = execWhile ops ext prog n c body st' := by
  simp [execWhile, h]

theorem while_tests_first (n : Nat) (c : Expr F) (body : List (Stmt F)) (st st' : St F) (comp : Completion F)
    (h : execCond ops ext prog n c body st = .ok (comp, false) st') :
    execWhile ops ext prog (n + 1) c body st = .ok .normal st' := by
  simp [execWhile, h]

theorem while_stops_on_error (n : Nat) (c : Expr F) (body : List (Stmt F)) (st st' : St F) (o : Outcome)
    (h : execCond ops ext prog n c body st = .err o st') :
    execWhile ops ext prog (n + 1) c body st = .err o st' := by
  simp [execWhile, h]

/-- every iteration of a for loop runs the body through a block node, i.e. through `tick` -/
theorem for_iteration_ticks (n : Nat) (lv : Str) (r r' : Ranger F) (body : List (Stmt F)) (st st1 : St F) (v : Val F)
    (hn : rangerNext ops st r = some (v, r')) (hu : updateVar st lv v = some st1) (hs : st1.stopped = true) :
    execForLoop ops ext prog (n + 2) lv r body st = .err .stopped (popScope (pushScope st1)) := by
  have : (pushScope st1).stopped = true := by simp [pushScope, hs]
  simp [execForLoop, hn, hu, stopped_block ops ext prog n body (pushScope st1) this]

/-- every call of a user function runs its body through a block node, i.e. through `tick` -/
theorem body_is_block_node (n : Nat) (b : List (Stmt F)) (st : St F) :
    execBlockNode ops ext prog (n + 1) b st =
      match tick st with
      | none => .err .stopped st
      | some st' => execStmts ops ext prog n b st' := by
  simp [execBlockNode]
  cases tick st <;> simp

/-- the report printed after a stop is the test summary only -/
theorem only_summary_follows (st : St F) :
    (testReport st).trace = st.trace ∨ ∃ s, (testReport st).trace = .print s :: st.trace := by
  unfold testReport
  split
  · left; rfl
  · split <;> (right; exact ⟨_, rfl⟩)

/-! ### the stopped run against the uninterrupted run (Props/TwoRun.lean) -/

/-- the effects in the order in which they happened -/
def effects (st : St F) : List (Effect F) := st.trace.reverse

theorem TrLe.prefix {a b : St F} (h : TrLe a b) : effects a <+: effects b := by
  obtain ⟨suf, hs⟩ := h
  exact ⟨suf.reverse, by simp [effects, hs]⟩

theorem testReport_ov (sa : Option Nat) (x : Bool) (b : St F) : testReport (ov sa x b) = ov sa x (testReport b) := by
  unfold testReport
  by_cases h1 : (b.noSummary || decide (b.testTotal = 0)) = true
  · have h1' : ((ov sa x b).noSummary || decide ((ov sa x b).testTotal = 0)) = true := h1
    rw [if_pos h1', if_pos h1]
  · have h1' : ¬ ((ov sa x b).noSummary || decide ((ov sa x b).testTotal = 0)) = true := h1
    rw [if_neg h1', if_neg h1]
    by_cases h2 : b.testFails > 0
    · have h2' : (ov sa x b).testFails > 0 := h2
      simp only [if_pos h2', if_pos h2]; rfl
    · have h2' : ¬ (ov sa x b).testFails > 0 := h2
      simp only [if_neg h2', if_neg h2]; rfl

theorem ov_false (sa : Option Nat) (b : St F) : ov sa false b = { b with stopAt := sa } := by
  simp [ov]

/-- **the effects of a stopped run are a prefix of those of the uninterrupted run** (only the test summary
may follow). Run the program from the same state once with the request "raise the stop flag during yield k"
and once without any request, with any step budget. Then both runs end with the test report applied to
states a' and b', and
* either the request was never reached (or both runs ended before it mattered): same result, and a' is
  b' but for the request and the flag;
* or the first run ends with `stopped`, its flag up, and everything it did up to then is an initial part, in
  order, of what the uninterrupted run does. -/
theorem stopped_run_effects_are_a_prefix (k : Nat) (fuel : Nat) (b : St F) (hb : b.stopAt = none) :
    ∃ a' b', (runProgram ops ext prog fuel { b with stopAt := some k }).2 = testReport a' ∧
      (runProgram ops ext prog fuel b).2 = testReport b' ∧
      (((runProgram ops ext prog fuel { b with stopAt := some k }).1 = (runProgram ops ext prog fuel b).1 ∧
          ∃ x, a' = ov (some k) x b') ∨
       ((runProgram ops ext prog fuel { b with stopAt := some k }).1 = .err .stopped ∧ a'.stopped = true ∧
          effects a' <+: effects b')) := by
  rw [← ov_false (some k) b]
  by_cases hst : (b.stopped || false) = true
  · -- already stopped: both runs end at the first tick
    have hbs : b.stopped = true := by simpa using hst
    refine ⟨ov (some k) false b, b, ?_, ?_, Or.inl ⟨?_, false, rfl⟩⟩
    · unfold runProgram; rw [tick_ov_stopped (some k) false b hst]
    · unfold runProgram; rw [tick_stopped b hbs]
    · unfold runProgram; rw [tick_ov_stopped (some k) false b hst, tick_stopped b hbs]
  · obtain ⟨b1, x1, htb, hta, hb1⟩ := tick_two (some k) false b hb (by simpa using hst)
    unfold runProgram
    rw [hta, htb]
    simp only
    have h := (two_runs ops ext prog (some k) fuel).stmts prog.stmts b1 x1 hb1
    generalize execStmts ops ext prog fuel prog.stmts (ov (some k) x1 b1) = ra at h ⊢
    generalize execStmts ops ext prog fuel prog.stmts b1 = rb at h ⊢
    cases h with
    | ok c x2 a t ha ht =>
      subst ha
      simp only [testReport_ov, ov_testFails]
      refine ⟨ov (some k) x2 t, t, ?_, ?_, Or.inl ⟨?_, x2, rfl⟩⟩
      · split <;> simp only [testReport_ov]
      · split <;> rfl
      · split <;> rfl
    | err o x2 a t ha ht =>
      subst ha
      exact ⟨ov (some k) x2 t, t, rfl, rfl, Or.inl ⟨rfl, x2, rfl⟩⟩
    | stop s rb hs htr =>
      cases rb with
      | err o t => exact ⟨s, t, rfl, rfl, Or.inr ⟨rfl, hs, TrLe.prefix htr⟩⟩
      | ok c t => exact ⟨s, t, rfl, by simp only; split <;> rfl, Or.inr ⟨rfl, hs, TrLe.prefix htr⟩⟩

/-- what the stopped run did is, in particular, an initial part of EVERYTHING the uninterrupted run does
(its own summary included) -/
theorem stopped_run_effects_in_full_run (k : Nat) (fuel : Nat) (b : St F) (hb : b.stopAt = none)
    (hs : (runProgram ops ext prog fuel { b with stopAt := some k }).1 = .err .stopped)
    (hne : (runProgram ops ext prog fuel b).1 ≠ .err .stopped) :
    ∃ a', (runProgram ops ext prog fuel { b with stopAt := some k }).2 = testReport a' ∧
      effects a' <+: effects (runProgram ops ext prog fuel b).2 := by
  obtain ⟨a', b', h1, h2, h3⟩ := stopped_run_effects_are_a_prefix ops ext prog k fuel b hb
  refine ⟨a', h1, ?_⟩
  rcases h3 with ⟨he, _⟩ | ⟨_, _, hp⟩
  · rw [hs] at he; exact absurd he.symm hne
  · rw [h2]
    refine List.IsPrefix.trans hp ?_
    rcases only_summary_follows b' with h | ⟨s, h⟩
    · exact ⟨[], by simp [effects, h]⟩
    · exact ⟨[.print s], by simp [effects, h]⟩

theorem bindPayload_ov (sa : Option Nat) (x : Bool) : ∀ (ps : List (Str × Ty)) (vs : List (Val F)) (b : St F),
    bindPayload ps vs (ov sa x b) = (bindPayload ps vs b).map (ov sa x) := by
  intro ps
  induction ps with
  | nil => intro vs b; cases vs <;> rfl
  | cons p ps ih =>
    intro vs b
    obtain ⟨n, t⟩ := p
    cases vs with
    | nil => rfl
    | cons v vs =>
      simp only [bindPayload]
      split
      · rw [setVar_ov, ih]
      · rfl

/-- the same for an event handler that is stopped while it runs: what it did is an initial part of what
the uninterrupted handler run does -/
theorem stopped_handler_effects_are_a_prefix (k : Nat) (fuel : Nat) (name : Str) (payload : List (Val F)) (b : St F)
    (hb : b.stopAt = none) :
    ((handleEvent ops ext prog fuel name payload { b with stopAt := some k }).1 = (handleEvent ops ext prog fuel name payload b).1 ∧
      ∃ x, (handleEvent ops ext prog fuel name payload { b with stopAt := some k }).2
        = ov (some k) x (handleEvent ops ext prog fuel name payload b).2) ∨
    ((handleEvent ops ext prog fuel name payload { b with stopAt := some k }).1 = .err .stopped ∧
      (handleEvent ops ext prog fuel name payload { b with stopAt := some k }).2.stopped = true ∧
      effects (handleEvent ops ext prog fuel name payload { b with stopAt := some k }).2
        <+: effects (handleEvent ops ext prog fuel name payload b).2) := by
  rw [← ov_false (some k) b]
  unfold handleEvent
  cases prog.handlers.find? (fun h => h.name == name) with
  | none => exact Or.inl ⟨rfl, false, rfl⟩
  | some h =>
    simp only
    split
    · exact Or.inl ⟨rfl, false, rfl⟩
    · have e1 : ({ ov (some k) false b with locals := [[]] } : St F) = ov (some k) false { b with locals := [[]] } := rfl
      rw [e1, bindPayload_ov]
      cases hbp : bindPayload h.params payload { b with locals := [[]] } with
      | none => exact Or.inl ⟨rfl, false, rfl⟩
      | some b2 =>
        have hb2 : b2.stopAt = none := by
          have := (bindPayload_frame h.params payload _ b2 hbp).stopAt
          exact this.trans hb
        simp only [Option.map_some]
        have hr := (two_runs ops ext prog (some k) fuel).block h.body b2 false hb2
        generalize execBlockNode ops ext prog fuel h.body (ov (some k) false b2) = ra at hr ⊢
        generalize execBlockNode ops ext prog fuel h.body b2 = rb at hr ⊢
        cases hr with
        | ok c x2 a t ha ht => subst ha; exact Or.inl ⟨rfl, x2, rfl⟩
        | err o x2 a t ha ht => subst ha; exact Or.inl ⟨rfl, x2, rfl⟩
        | stop s rb hs htr =>
          cases rb with
          | err o t => exact Or.inr ⟨rfl, hs, TrLe.prefix htr⟩
          | ok c t => exact Or.inr ⟨rfl, hs, TrLe.prefix htr⟩

/-! Non-vacuity of the second alternative: two `cls` calls, the flag raised during the second yield — the
stopped run has done one of the two effects of the uninterrupted run -/
def twoCls : Program Int := ⟨[], [], [.callS (.call (lit "cls") []), .callS (.call (lit "cls") [])]⟩
example : (runProgram intOps ⟨fun _ _ => none⟩ twoCls 10 { stopAt := some 2 }).1 = .err .stopped ∧
    (runProgram intOps ⟨fun _ _ => none⟩ twoCls 10 { stopAt := some 2 }).2.trace.length = 1 ∧
    (runProgram intOps ⟨fun _ _ => none⟩ twoCls 10 {}).1 = .ok ∧
    (runProgram intOps ⟨fun _ _ => none⟩ twoCls 10 {}).2.trace.length = 2 := by decide

/-! Non-vacuity: states with and without the flag -/
example : ∃ st : St Int, st.stopped = true ∧ tick st = none := ⟨{ stopped := true }, rfl, rfl⟩
example : ∃ st st' : St Int, st.stopAt = some 1 ∧ tick st = some st' ∧ st'.stopped = true :=
  ⟨{ stopAt := some 1 }, _, rfl, rfl, rfl⟩

/-- **whole programs**: through any execution a raised stop flag stays raised, the stop request is
untouched, yields only increase and the platform trace is only extended (nothing already done is
undone when a program is stopped) -/
theorem stop_is_latched_everywhere (n : Nat) (b : List (Stmt F)) (st : St F) :
    let st' := (execStmts ops ext prog n b st).st
    (st.stopped = true → st'.stopped = true) ∧ st'.stopAt = st.stopAt ∧ st.yields ≤ st'.yields ∧
    ∃ suf, st'.trace = suf ++ st.trace := stop_latched_effects_kept ops ext prog n b st

end EvyV.C14
