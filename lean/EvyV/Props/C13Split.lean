import EvyV.Props.C13Str
/-!
C13, `split` and `replace`, which the evaluator model now computes itself (Model/Builtins.lean `strSplit`,
`strReplace`: transcriptions of strings.Split / strings.ReplaceAll, tied to the real built-ins by the
correspondence run) instead of asking the library oracle.

docs/builtins.md: "split splits the string s into substrings separated by sep and returns an array of the
substrings between those separators"; "join concatenates the elements of its first argument to create a single
string. The separator string sep is placed between elements in the resulting string"; "replace returns a copy
of the string s with all non-overlapping instances of old replaced by new".

For ALL strings (lists of code points):
* `split_join`        : join (split s sep) sep = s, whatever s and sep are (also for the empty separator);
* `split_nonempty`    : with a non-empty separator there is always at least one piece;
* `split_pieces_free` : with a non-empty separator no piece contains the separator;
* `split_no_sep`      : a string without the separator is the only piece;
* `split_empty_sep`   : the empty separator gives the code points one by one;
* `replace_self`      : replace s old old = s;
* `replace_absent`    : replacing something that does not occur changes nothing;
* `replace_eq`        : for non-empty `old`, replace s old new = join (split s old) new.
-/
namespace EvyV.C13
open EvyV

theorem joinWith_cons (sep x : Str) (l : List Str) (h : l ≠ []) :
    joinWith sep (x :: l) = x ++ sep ++ joinWith sep l := by
  cases l with
  | nil => exact absurd rfl h
  | cons y ys => rfl

theorem splitSep_ne_nil (sep s cur : Str) : splitSep sep s cur ≠ [] := by
  fun_induction splitSep sep s cur <;> simp_all

/-- a match of a non-empty separator at the head: what `splitSep` skips is exactly the separator -/
theorem isPrefix_drop (sep : Str) (c : Char) (rest : Str) (hs : sep ≠ [])
    (h : isPrefix sep (c :: rest) = true) : c :: rest = sep ++ rest.drop (sep.length - 1) := by
  obtain ⟨t, ht⟩ := (isPrefix_iff sep (c :: rest)).mp h
  cases sep with
  | nil => exact absurd rfl hs
  | cons a as =>
    simp only [List.cons_append, List.cons.injEq] at ht
    obtain ⟨rfl, rfl⟩ := ht
    simp

theorem splitSep_join (sep : Str) (hs : sep ≠ []) (s cur : Str) :
    joinWith sep (splitSep sep s cur) = cur.reverse ++ s := by
  fun_induction splitSep sep s cur with
  | case1 cur => simp [joinWith]
  | case2 c rest cur hp ih =>
    rw [joinWith_cons _ _ _ (splitSep_ne_nil _ _ _), ih]
    simp only [List.reverse_nil, List.nil_append, List.append_assoc]
    rw [← isPrefix_drop sep c rest hs hp]
  | case3 c rest cur hp ih => rw [ih]; simp

theorem join_singletons (s : Str) : joinWith [] (s.map (fun c => [c])) = s := by
  induction s with
  | nil => rfl
  | cons c rest ih =>
    cases rest with
    | nil => rfl
    | cons d r => simp only [List.map_cons, joinWith] at ih ⊢; simp [ih]

/-- **join undoes split**, for every string and every separator -/
theorem split_join (s sep : Str) : joinWith sep (strSplit s sep) = s := by
  unfold strSplit
  split
  · rename_i h
    have : sep = [] := by simpa using h
    subst this
    exact join_singletons s
  · rename_i h
    have hs : sep ≠ [] := by simpa using h
    simpa using splitSep_join sep hs s []

theorem split_nonempty (s sep : Str) (hs : sep ≠ []) : strSplit s sep ≠ [] := by
  unfold strSplit
  have : sep.isEmpty = false := by simpa using hs
  simp only [this, Bool.false_eq_true, ↓reduceIte]
  exact splitSep_ne_nil _ _ _

theorem split_empty_sep (s : Str) : strSplit s [] = s.map (fun c => [c]) := by
  simp [strSplit]

/-- no occurrence of `sep` in `p`, at any position -/
def Free (sep p : Str) : Prop := ∀ j, ¬ sep <+: p.drop j

theorem prefix_drop_append (sep a b : Str) (j : Nat) (h : sep <+: a.drop j) : sep <+: (a ++ b).drop j := by
  by_cases hj : j ≤ a.length
  · rw [List.drop_append_of_le_length hj]
    exact h.trans (List.prefix_append _ _)
  · have : a.drop j = [] := List.drop_eq_nil_of_le (by omega)
    rw [this] at h
    have : sep = [] := List.prefix_nil.mp h
    subst this
    exact List.nil_prefix

/-- the invariant of the scan: no occurrence of the separator begins inside the current piece -/
theorem splitSep_free (sep : Str) (hs : sep ≠ []) (s cur : Str)
    (H : ∀ j < cur.length, ¬ sep <+: (cur.reverse ++ s).drop j) :
    ∀ p ∈ splitSep sep s cur, Free sep p := by
  fun_induction splitSep sep s cur with
  | case1 cur =>
    intro p hp j hj
    simp only [List.mem_singleton] at hp
    subst hp
    by_cases hl : j < cur.length
    · exact H j hl (by simpa using hj)
    · have : cur.reverse.drop j = [] := List.drop_eq_nil_of_le (by simp; omega)
      rw [this] at hj
      exact hs (List.prefix_nil.mp hj)
  | case2 c rest cur hp ih =>
    intro p hmem
    simp only [List.mem_cons] at hmem
    rcases hmem with rfl | hmem
    · intro j hj
      by_cases hl : j < cur.length
      · exact H j hl (prefix_drop_append sep cur.reverse (c :: rest) j hj)
      · have : cur.reverse.drop j = [] := List.drop_eq_nil_of_le (by simp; omega)
        rw [this] at hj
        exact hs (List.prefix_nil.mp hj)
    · exact ih (by intro j hj; simp at hj) p hmem
  | case3 c rest cur hp ih =>
    refine ih ?_
    intro j hj
    simp only [List.length_cons] at hj
    simp only [List.reverse_cons, List.append_assoc, List.singleton_append]
    by_cases hl : j < cur.length
    · exact H j hl
    · have hje : j = cur.length := by omega
      subst hje
      have : (cur.reverse ++ c :: rest).drop cur.length = c :: rest := by
        rw [List.drop_append_of_le_length (by simp)]
        simp
      rw [this]
      intro hpre
      exact hp ((isPrefix_iff sep (c :: rest)).mpr hpre)

/-- **the pieces are what lies between separators**: none of them contains the separator -/
theorem split_pieces_free (s sep : Str) (hs : sep ≠ []) : ∀ p ∈ strSplit s sep, Free sep p := by
  unfold strSplit
  have : sep.isEmpty = false := by simpa using hs
  simp only [this, Bool.false_eq_true, ↓reduceIte]
  exact splitSep_free sep hs s [] (by intro j hj; simp at hj)

theorem splitSep_no_sep (sep : Str) (s cur : Str) (H : Free sep s) :
    splitSep sep s cur = [cur.reverse ++ s] := by
  fun_induction splitSep sep s cur with
  | case1 cur => simp
  | case2 c rest cur hp ih => exact absurd ((isPrefix_iff _ _).mp hp) (by simpa using H 0)
  | case3 c rest cur hp ih =>
    rw [ih (by intro j; simpa using H (j + 1))]
    simp

/-- a string in which the separator does not occur is the only piece -/
theorem split_no_sep (s sep : Str) (hs : sep ≠ []) (H : Free sep s) : strSplit s sep = [s] := by
  unfold strSplit
  have : sep.isEmpty = false := by simpa using hs
  simp only [this, Bool.false_eq_true, ↓reduceIte]
  simpa using splitSep_no_sep sep s [] H

theorem replace_eq (s old new : Str) (ho : old ≠ []) :
    strReplace s old new = joinWith new (strSplit s old) := by
  have : old.isEmpty = false := by simpa using ho
  simp [strReplace, this]

/-- replacing `old` by itself gives the string back -/
theorem replace_self (s old : Str) : strReplace s old old = s := by
  unfold strReplace
  split
  · rename_i h
    have : old = [] := by simpa using h
    subst this
    induction s with
    | nil => rfl
    | cons c rest ih => simpa using ih
  · exact split_join s old

/-- replacing something that does not occur changes nothing -/
theorem replace_absent (s old new : Str) (ho : old ≠ []) (H : Free old s) : strReplace s old new = s := by
  rw [replace_eq s old new ho, split_no_sep s old ho H]
  rfl

/-! non-vacuity and the overlapping case: the scan goes on BEHIND a match (leftmost, non-overlapping) -/
example : strSplit "aaa".toList "aa".toList = ["".toList, "a".toList] := by
  simp [strSplit, splitSep, isPrefix]
example : strSplit ",a,,b,".toList ",".toList = [[], ['a'], [], ['b'], []] := by
  simp [strSplit, splitSep, isPrefix]
example : strReplace "abc".toList [] ['-'] = "-a-b-c-".toList := by
  simp [strReplace]
example : Free ",".toList "ab".toList := by
  intro j
  match j with
  | 0 => simp
  | 1 => simp
  | (n + 2) => simp

end EvyV.C13
