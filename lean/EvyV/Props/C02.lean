import EvyV.Props.EvalCore
import EvyV.Gen.Sites
/-
C02 — accepted programs never go wrong (type soundness).

What is proved here is about single evaluation steps of the model and about the
regenerated inventories; the statement for whole programs ("every accepted
program ends in a documented class") is validated by the harness on generated
programs and on every builtin x value-class tuple, it is NOT proved.
-/
namespace EvyV.C02
open EvyV
variable {F : Type} (ops : NumOps F) (ext : Ext F) (prog : Program F)

/-- the evaluator has a case for every node kind and its fall-through is an error (regenerated) -/
theorem eval_cases_complete :
    (∀ k ∈ Gen.nodeKinds, k ∈ Gen.evalCases ∨ k = "ConditionalBlock" ∨ k = "StepRange") ∧
    Gen.evalFallThroughIsError = true := by decide

/-- **a value stored in an `any` always carries a concrete non-any value**: evaluating an `Any`
node either fails or yields `any t v` with `v` not itself an any -/
theorem any_is_concrete (n : Nat) (t : Ty) (e : Expr F) (st st' : St F) (v : Val F)
    (h : evalE ops ext prog (n + 1) (.any t e) st = .ok v st') :
    ∃ w, v = .any t w ∧ ∀ t2 w2, w ≠ .any t2 w2 := by
  simp only [evalE] at h
  cases ht : tick st with
  | none => simp [ht] at h
  | some st1 =>
    simp only [ht] at h
    cases he : evalE ops ext prog n e st1 with
    | err o s => simp [he] at h
    | ok w s =>
      cases w <;> simp [he] at h <;> (obtain ⟨rfl, _⟩ := h; exact ⟨_, rfl, by intro t2 w2; simp⟩)

/-- the dynamic type tag of an any value is the static type of the wrapped expression, which is
what `typeof` reports -/
theorem any_tag_is_static_type (n : Nat) (t : Ty) (e : Expr F) (st st' : St F) (w : Val F) (t' : Ty)
    (h : evalE ops ext prog (n + 1) (.any t e) st = .ok (.any t' w) st') : t' = t := by
  obtain ⟨w', hv, _⟩ := any_is_concrete ops ext prog n t e st st' _ h
  injection hv with h1 _
  
/-- a type assertion succeeds exactly on an any whose tag equals the asserted type; otherwise it
is the documented conversion panic — never a wrong value -/
theorem assertion_checks_tag (n : Nat) (t : Ty) (e : Expr F) (st st1 st2 : St F) (dynT : Ty) (v : Val F)
    (ht : tick st = some st1) (he : evalE ops ext prog n e st1 = .ok (.any dynT v) st2) :
    evalE ops ext prog (n + 1) (.assert t e) st =
      if dynT.equals t then .ok v st2 else .err (.panic .anyConversion) st2 := by
  simp [evalE, ht, he]

/-- reading an undeclared (not yet initialised) variable and assigning to one are both the
documented "variable has not been set yet" panic -/
theorem unset_variable_is_panic (n : Nat) (name : Str) (st st1 : St F)
    (ht : tick st = some st1) (hg : getVar st1 name = none) :
    evalE ops ext prog (n + 1) (.var name) st = .err (.panic .varNotSet) st1 := by
  simp [evalE, ht, hg]

theorem assign_unset_is_panic (n : Nat) (name : Str) (e : Expr F) (st st1 st2 : St F) (v : Val F)
    (ht : tick st = some st1) (he : evalE ops ext prog n e st1 = .ok v st2) (hu : updateVar st2 name v = none) :
    execS ops ext prog (n + 1) (.assign (.var name) e) st = .err (.panic .varNotSet) st2 := by
  simp [execS, ht, he, hu]

/-- indexing never reaches Go's own bounds check, for any array, string and index value -/
theorem index_never_host_panics (st : St F) (a : Nat) (es : List (Val F)) (i : F)
    (h : heapGet st a = some (.arr es)) :
    ∀ site, indexVal ops st (.arr a) (.num i) ≠ .err (.goPanic site) st := by
  intro site
  unfold indexVal
  simp only [h]
  cases hi : indexList ops es i with
  | error e => cases e <;> simp [idxErr]
  | ok o =>
    cases o with
    | some v => simp
    | none =>
      -- `.ok none` is unreachable (C11.indexList_never_gopanic); here by direct computation
      exfalso
      unfold indexList at hi
      cases hn : normalizeIndex ops i es.length .index with
      | error e => simp [hn] at hi
      | ok j =>
        simp only [hn, Except.ok.injEq] at hi
        unfold normalizeIndex at hn
        have : j < es.length := by grind
        simp [List.getElem?_eq_getElem this] at hi

/-- array repetition with a negative or fractional count is the documented panic -/
theorem bad_repetition_is_panic (st : St F) (a : Nat) (ls : List (Val F)) (n : F)
    (h : heapGet st a = some (.arr ls)) (hbad : ops.eq (ops.ofInt (ops.toInt n)) n = false ∨ ops.toInt n < 0) :
    binArr ops st .asterisk a (.num n) = .err (.panic .badRepetition) st := by
  unfold binArr
  simp only [h]
  rcases hbad with hb | hb
  · simp [hb]
  · by_cases hq : ops.eq (ops.ofInt (ops.toInt n)) n = false
    · simp [hq]
    · simp [hq, hb]

end EvyV.C02
