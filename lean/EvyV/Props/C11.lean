import EvyV.Model.Index
import EvyV.Spec.Index
/-
C11 — Index and slice laws for arrays and strings.

All theorems hold for every number carrier `F` and every `ops : NumOps F`, with
"v is an integer" meaning what the code tests: `float64(int(v)) == v`
(`ops.isIntegral`). There is no bound on the length of the sequence or on the
index value. `.ok none` in the model stands for a Go run-time panic
(out-of-range Go slice access) — the theorems show it is unreachable.
-/
namespace EvyV.C11
open EvyV

variable {F : Type} (ops : NumOps F)


theorem index_ok_iff (v : F) (n j : Nat) :
    normalizeIndex ops v n .index = .ok j ↔
      ops.isIntegral v = true ∧ -(n : Int) ≤ ops.toInt v ∧ ops.toInt v < n ∧
        j = (Spec.pos n (ops.toInt v)).toNat := by
  unfold normalizeIndex NumOps.isIntegral Spec.pos
  cases h : ops.eq v (ops.ofInt (ops.toInt v)) <;> simp only [] <;> grind

theorem slice_bound_ok_iff (v : F) (n j : Nat) :
    normalizeIndex ops v n .slice = .ok j ↔
      ops.isIntegral v = true ∧ -(n : Int) ≤ ops.toInt v ∧ ops.toInt v ≤ n ∧
        j = (Spec.pos n (ops.toInt v)).toNat := by
  unfold normalizeIndex NumOps.isIntegral Spec.pos
  cases h : ops.eq v (ops.ofInt (ops.toInt v)) <;> simp only [] <;> grind


theorem index_err (v : F) (n : Nat) :
    (∃ j, normalizeIndex ops v n .index = .ok j) ∨
    (ops.isIntegral v = false ∧ normalizeIndex ops v n .index = .error .indexValue) ∨
    (ops.isIntegral v = true ∧ (ops.toInt v < -(n : Int) ∨ (n : Int) ≤ ops.toInt v) ∧
      normalizeIndex ops v n .index = .error .bounds) := by
  unfold normalizeIndex NumOps.isIntegral
  cases h : ops.eq v (ops.ofInt (ops.toInt v)) <;> simp only [] <;> grind

theorem indexList_spec {α : Type} (xs : List α) (v : F) (hv : ops.isIntegral v = true) :
    indexList ops xs v =
      match Spec.index xs (ops.toInt v) with
      | some x => .ok (some x)
      | none => .error .bounds := by
  unfold indexList Spec.index normalizeIndex Spec.pos
  unfold NumOps.isIntegral at hv
  simp only [hv]
  grind

theorem indexList_nonint {α : Type} (xs : List α) (v : F) (hv : ops.isIntegral v = false) :
    indexList ops xs v = .error .indexValue := by
  unfold indexList normalizeIndex
  unfold NumOps.isIntegral at hv
  simp [hv]

theorem indexList_never_gopanic {α : Type} (xs : List α) (v : F) :
    indexList ops xs v ≠ .ok none := by
  cases hv : ops.isIntegral v
  · simp [indexList_nonint ops xs v hv]
  · rw [indexList_spec ops xs v hv]; split <;> simp

theorem setIndex_same_domain {α : Type} (xs : List α) (v : F) (x : α) :
    (∀ e, setIndexList ops xs v x = .error e ↔ indexList ops xs v = .error e) ∧
    (∀ j, normalizeIndex ops v xs.length .index = .ok j →
        setIndexList ops xs v x = .ok (some (xs.set j x)) ∧ j < xs.length) := by
  unfold setIndexList indexList normalizeIndex
  constructor
  · intro e; grind
  · intro j; grind


def bnd (b : Option F) : Option Int := b.map ops.toInt
def allIntegral (b : Option F) : Bool := match b with | none => true | some v => ops.isIntegral v

theorem slice_bound_eq (v : F) (n : Nat) (hv : ops.isIntegral v = true) :
    normalizeIndex ops v n .slice =
      if -(n : Int) ≤ ops.toInt v ∧ ops.toInt v ≤ n then .ok (Spec.pos n (ops.toInt v)).toNat
      else .error .bounds := by
  unfold normalizeIndex Spec.pos
  unfold NumOps.isIntegral at hv
  simp only [hv]; grind

theorem sliceIdx_eq (n : Nat) (a b : Option F)
    (ha : allIntegral ops a = true) (hb : allIntegral ops b = true) :
    (0 ≤ Spec.bound n (bnd ops a) 0 ∧ Spec.bound n (bnd ops a) 0 ≤ Spec.bound n (bnd ops b) n ∧ Spec.bound n (bnd ops b) n ≤ n →
      normalizeSliceIndices ops a b n = .ok ((Spec.bound n (bnd ops a) 0).toNat, (Spec.bound n (bnd ops b) n).toNat)) ∧
    (¬ (0 ≤ Spec.bound n (bnd ops a) 0 ∧ Spec.bound n (bnd ops a) 0 ≤ Spec.bound n (bnd ops b) n ∧ Spec.bound n (bnd ops b) n ≤ n) →
      normalizeSliceIndices ops a b n = .error .bounds ∨ normalizeSliceIndices ops a b n = .error .badSlice) := by
  unfold normalizeSliceIndices Spec.bound bnd
  cases a with
  | none =>
    cases b with
    | none => simp
    | some vb =>
      simp only [allIntegral] at hb
      simp only [Option.map, slice_bound_eq ops vb n hb, Spec.pos]
      by_cases h : -(n:Int) ≤ ops.toInt vb ∧ ops.toInt vb ≤ n <;> simp only [h] <;> grind
  | some va =>
    simp only [allIntegral] at ha
    cases b with
    | none =>
      simp only [Option.map, slice_bound_eq ops va n ha, Spec.pos]
      by_cases h : -(n:Int) ≤ ops.toInt va ∧ ops.toInt va ≤ n <;> simp only [h] <;> grind
    | some vb =>
      simp only [allIntegral] at hb
      simp only [Option.map, slice_bound_eq ops va n ha, slice_bound_eq ops vb n hb, Spec.pos]
      by_cases h : -(n:Int) ≤ ops.toInt va ∧ ops.toInt va ≤ n <;>
      by_cases h' : -(n:Int) ≤ ops.toInt vb ∧ ops.toInt vb ≤ n <;> simp only [h, h'] <;> grind

theorem sliceList_spec {α : Type} (xs : List α) (a b : Option F)
    (ha : allIntegral ops a = true) (hb : allIntegral ops b = true) :
    match Spec.slice xs (bnd ops a) (bnd ops b) with
    | some ys => sliceList ops xs a b = .ok (some ys)
    | none => sliceList ops xs a b = .error .bounds ∨ sliceList ops xs a b = .error .badSlice := by
  have h := sliceIdx_eq ops xs.length a b ha hb
  unfold Spec.slice sliceList
  by_cases hc : 0 ≤ Spec.bound xs.length (bnd ops a) 0 ∧ Spec.bound xs.length (bnd ops a) 0 ≤ Spec.bound xs.length (bnd ops b) xs.length ∧ Spec.bound xs.length (bnd ops b) xs.length ≤ xs.length
  · rw [if_pos hc, h.1 hc]
    have h1 : (Spec.bound xs.length (bnd ops a) 0).toNat ≤ (Spec.bound xs.length (bnd ops b) ↑xs.length).toNat ∧ (Spec.bound xs.length (bnd ops b) ↑xs.length).toNat ≤ xs.length := by omega
    have h2 : (Spec.bound xs.length (bnd ops b) ↑xs.length - Spec.bound xs.length (bnd ops a) 0).toNat = (Spec.bound xs.length (bnd ops b) ↑xs.length).toNat - (Spec.bound xs.length (bnd ops a) 0).toNat := by omega
    simp [h1, h2]
  · rw [if_neg hc]
    rcases h.2 hc with h2 | h2 <;> simp [h2]

/-- A non-integer start bound is the `indexValue` panic. -/
theorem sliceList_nonint_start {α : Type} (xs : List α) (va : F) (b : Option F)
    (h : ops.isIntegral va = false) : sliceList ops xs (some va) b = .error .indexValue := by
  unfold sliceList normalizeSliceIndices normalizeIndex
  unfold NumOps.isIntegral at h
  simp [h]

/-- Slicing never reaches Go's own slice-bounds check. -/
theorem sliceList_never_gopanic {α : Type} (xs : List α) (a b : Option F) :
    sliceList ops xs a b ≠ .ok none := by
  unfold sliceList
  cases h : normalizeSliceIndices ops a b xs.length with
  | error e => simp
  | ok p =>
    obtain ⟨s, e⟩ := p
    simp only
    have hs : s ≤ e ∧ e ≤ xs.length := by
      unfold normalizeSliceIndices at h
      have key : ∀ (v : F) j, normalizeIndex ops v xs.length .slice = .ok j → j ≤ xs.length := by
        intro v j hj
        unfold normalizeIndex at hj
        grind
      cases a <;> cases b <;> simp only at h <;> grind
    simp [hs]

/-- A successful slice has exactly b-a elements. -/
theorem slice_length {α : Type} (xs ys : List α) (a b : Option Int)
    (h : Spec.slice xs a b = some ys) :
    (ys.length : Int) = Spec.bound xs.length b xs.length - Spec.bound xs.length a 0 := by
  unfold Spec.slice at h
  split at h
  · rename_i hc
    injection h with h; subst h
    simp [List.length_take, List.length_drop]; omega
  · simp at h

/-! Non-vacuity: concrete instances over the integer toy carrier. -/
example : indexList intOps [10, 20, 30] (-1 : Int) = .ok (some 30) := by rfl
example : indexList intOps [10, 20, 30] (3 : Int) = .error .bounds := by rfl
example : indexList intOps [10, 20, 30] (-4 : Int) = .error .bounds := by rfl
example : sliceList intOps [10, 20, 30] (some (-2 : Int)) none = .ok (some [20, 30]) := by rfl
example : sliceList intOps [10, 20, 30] (some (2 : Int)) (some 1) = .error .badSlice := by rfl
example : sliceList intOps [10, 20, 30] (some (3 : Int)) (some 3) = .ok (some []) := by rfl
example : intOps.isIntegral (5 : Int) = true ∧ allIntegral intOps (some (5 : Int)) = true := by decide

end EvyV.C11
