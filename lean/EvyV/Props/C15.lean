import EvyV.Props.EvalCore
import EvyV.Props.Frame
/-
C15 — events run their handlers in order, isolated, on shared globals.
-/
namespace EvyV.C15
open EvyV
variable {F : Type} (ops : NumOps F) (ext : Ext F) (prog : Program F)

/-- a handler runs in a fresh function scope and the caller's scopes are restored afterwards,
whatever the outcome: locals of a handler never survive the event -/
theorem locals_do_not_survive (fuel : Nat) (name : Str) (payload : List (Val F)) (st : St F) :
    (handleEvent ops ext prog fuel name payload st).2.locals = st.locals := by
  unfold handleEvent
  cases hf : prog.handlers.find? (fun h => h.name == name) with
  | none => rfl
  | some h =>
    simp only []
    by_cases hl : payload.length < h.params.length
    · simp [hl]
    · simp only [hl, if_false]
      cases hb : bindPayload h.params payload { st with locals := [[]] } with
      | none => rfl
      | some st2 =>
        simp only []
        cases execBlockNode ops ext prog fuel h.body st2 <;> rfl

/-- the payload is bound to the declared parameters positionally; surplus payload values are
ignored, so a handler declared without parameters ignores the whole payload -/
theorem no_params_ignores_payload (payload : List (Val F)) (st : St F) :
    bindPayload ([] : List (Str × Ty)) payload st = some st := by
  cases payload <;> rfl

/-- `_` parameters consume their payload position but bind nothing -/
theorem underscore_binds_nothing (t : Ty) (v : Val F) (ps : List (Str × Ty)) (vs : List (Val F)) (st : St F)
    (hv : payloadOk t v = true) :
    bindPayload ((underscore, t) :: ps) (v :: vs) st = bindPayload ps vs st := by
  simp [bindPayload, hv, setVar]

/-- a named parameter is bound to the payload value at its own position -/
theorem named_param_bound (n : Str) (t : Ty) (v : Val F) (ps : List (Str × Ty)) (vs : List (Val F)) (st : St F)
    (hv : payloadOk t v = true) :
    bindPayload ((n, t) :: ps) (v :: vs) st = bindPayload ps vs (setVar st n v) := by
  simp [bindPayload, hv]

/-- handlers read and update the same globals as the main program: the body is executed on the
state whose `global` is the caller's (only `locals` is replaced) -/
theorem globals_shared (fuel : Nat) (h : Handler F) (payload : List (Val F)) (st st2 : St F)
    (hf : prog.handlers.find? (fun x => x.name == h.name) = some h)
    (hl : ¬ payload.length < h.params.length)
    (hb : bindPayload h.params payload { st with locals := [[]] } = some st2) :
    handleEvent ops ext prog fuel h.name payload st =
      match execBlockNode ops ext prog fuel h.body st2 with
      | .err o st' => (.err o, { st' with locals := st.locals })
      | .ok _ st' => (.ok, { st' with locals := st.locals }) := by
  unfold handleEvent
  simp only [hf, hl, if_false, hb]
  cases execBlockNode ops ext prog fuel h.body st2 <;> rfl

/-- a payload of the wrong type is the documented conversion panic, not a crash -/
theorem bad_payload_is_panic (fuel : Nat) (h : Handler F) (payload : List (Val F)) (st : St F)
    (hf : prog.handlers.find? (fun x => x.name == h.name) = some h)
    (hl : ¬ payload.length < h.params.length)
    (hb : bindPayload h.params payload { st with locals := [[]] } = none) :
    (handleEvent ops ext prog fuel h.name payload st).1 = .err (.panic .anyConversion) := by
  unfold handleEvent
  simp [hf, hl, hb]

/-- **whole programs**: a handler run of any length gives the scope stack back exactly, and only adds to
heap, yields and trace -/
theorem handler_is_isolated (n : Nat) (name : Str) (payload : List (Val F)) (st : St F) :
    let st' := (handleEvent ops ext prog n name payload st).2
    st'.locals = st.locals ∧ st.heap.size ≤ st'.heap.size ∧ st.yields ≤ st'.yields ∧ st'.stopAt = st.stopAt ∧
    (st.stopped = true → st'.stopped = true) ∧ ∃ suf, st'.trace = suf ++ st.trace :=
  handleEvent_frame ops ext prog n name payload st

end EvyV.C15
