import EvyV.Props.EvalCore
import EvyV.Props.Frame
/-
C15 — events run their handlers in order, isolated, on shared globals.
-/
namespace EvyV.C15
open EvyV
variable {F : Type} (ops : NumOps F) (ext : Ext F) (prog : Program F)

/-- a handler runs in a fresh function scope and the caller's scopes are restored afterwards,
whatever the outcome: locals of a handler never survive the event -/
theorem locals_do_not_survive (fuel : Nat) (name : Str) (payload : List (Val F)) (st : St F) :
    (handleEvent ops ext prog fuel name payload st).2.locals = st.locals := by
  unfold handleEvent
  cases hf : prog.handlers.find? (fun h => h.name == name) with
  | none => rfl
  | some h =>
    simp only []
    by_cases hl : payload.length < h.params.length
    · simp [hl]
    · simp only [hl, if_false]
      cases hb : bindPayload h.params payload { st with locals := [[]] } with
      | none => rfl
      | some st2 =>
        simp only []
        cases execBlockNode ops ext prog fuel h.body st2 <;> rfl

/-- the payload is bound to the declared parameters positionally; surplus payload values are
ignored, so a handler declared without parameters ignores the whole payload -/
theorem no_params_ignores_payload (payload : List (Val F)) (st : St F) :
    bindPayload ([] : List (Str × Ty)) payload st = some st := by
  cases payload <;> rfl

/-- `_` parameters consume their payload position but bind nothing -/
theorem underscore_binds_nothing (t : Ty) (v : Val F) (ps : List (Str × Ty)) (vs : List (Val F)) (st : St F)
    (hv : payloadOk t v = true) :
    bindPayload ((underscore, t) :: ps) (v :: vs) st = bindPayload ps vs st := by
  simp [bindPayload, hv, setVar]

/-- a named parameter is bound to the payload value at its own position -/
theorem named_param_bound (n : Str) (t : Ty) (v : Val F) (ps : List (Str × Ty)) (vs : List (Val F)) (st : St F)
    (hv : payloadOk t v = true) :
    bindPayload ((n, t) :: ps) (v :: vs) st = bindPayload ps vs (setVar st n v) := by
  simp [bindPayload, hv]

/-- handlers read and update the same globals as the main program: the body is executed on the
state whose `global` is the caller's (only `locals` is replaced) -/
theorem globals_shared (fuel : Nat) (h : Handler F) (payload : List (Val F)) (st st2 : St F)
    (hf : prog.handlers.find? (fun x => x.name == h.name) = some h)
    (hl : ¬ payload.length < h.params.length)
    (hb : bindPayload h.params payload { st with locals := [[]] } = some st2) :
    handleEvent ops ext prog fuel h.name payload st =
      match execBlockNode ops ext prog fuel h.body st2 with
      | .err o st' => (.err o, { st' with locals := st.locals })
      | .ok _ st' => (.ok, { st' with locals := st.locals }) := by
  unfold handleEvent
  simp only [hf, hl, if_false, hb]
  cases execBlockNode ops ext prog fuel h.body st2 <;> rfl

/-- a payload of the wrong type is the documented conversion panic, not a crash -/
theorem bad_payload_is_panic (fuel : Nat) (h : Handler F) (payload : List (Val F)) (st : St F)
    (hf : prog.handlers.find? (fun x => x.name == h.name) = some h)
    (hl : ¬ payload.length < h.params.length)
    (hb : bindPayload h.params payload { st with locals := [[]] } = none) :
    (handleEvent ops ext prog fuel h.name payload st).1 = .err (.panic .anyConversion) := by
  unfold handleEvent
  simp [hf, hl, hb]

/-! ### a handler run is the call of the equivalent procedure -/

/-- the procedure equivalent to a handler: same parameter names, same body -/
def asProc (h : Handler F) (fname : Str) : FuncDef F :=
  { name := fname, params := h.params.map (·.1), variadic := Option.none, body := h.body }

/-- what evalFunccall does for a user-defined function once its arguments are values (the last
match of `evalCall`, verbatim) -/
def callTail (fuel : Nat) (fd : FuncDef F) (vs : List (Val F)) (st : St F) : Res F (Val F) :=
  match execBlockNode ops ext prog fuel fd.body (calleeState fd vs st) with
  | .err o st4 => .err o { st4 with locals := st.locals }
  | .ok (.ret (some v)) st4 => .ok v { st4 with locals := st.locals }
  | .ok _ st4 => .ok .none { st4 with locals := st.locals }

/-- `callTail` IS the user-function branch of the model's evalFunccall -/
theorem evalCall_is_callTail (fuel : Nat) (name : Str) (args : List (Expr F)) (st st' : St F) (vs : List (Val F))
    (fd : FuncDef F) (ha : evalList ops ext prog fuel args st = .ok vs st')
    (hb : callBuiltin ops ext name vs st' = Option.none) (hf : lookupFunc prog.funcs name = some fd)
    (hl : ¬ vs.length < fd.params.length) :
    evalCall ops ext prog (fuel + 1) name args st = callTail ops ext prog fuel fd vs st' := by
  simp only [evalCall, ha, hb, hf, hl, if_false, callTail]
  cases execBlockNode ops ext prog fuel fd.body (calleeState fd vs st') with
  | err o s => rfl
  | ok c s => cases c with
    | ret v => cases v <;> rfl
    | _ => rfl

/-- the result of a procedure call read as the result of an event delivery -/
def asRun : Res F (Val F) → RunResult × St F
  | .ok _ s => (.ok, s)
  | .err o s => (.err o, s)

/-- binding a well-typed payload is positional parameter binding -/
theorem bindPayload_is_bindParams : ∀ (ps : List (Str × Ty)) (vs : List (Val F)) (st st2 : St F),
    bindPayload ps vs st = some st2 → st2 = bindParams (ps.map (·.1)) vs st := by
  intro ps
  induction ps with
  | nil => intro vs st st2 h; cases vs <;> simp_all [bindPayload, bindParams]
  | cons p ps ih =>
    intro vs st st2 h
    obtain ⟨n, t⟩ := p
    cases vs with
    | nil => simp [bindPayload] at h
    | cons v vs =>
      simp only [bindPayload] at h
      split at h
      · simpa [bindParams] using ih vs _ st2 h
      · cases h

/-- **handler = procedure**: delivering an event whose payload has the declared types runs the handler
exactly as a call of the procedure with the same parameters and body would run with the payload as
arguments: same outcome, same final state (globals, heap, effects, yields, test counters — every field) -/
theorem handler_equals_procedure (fuel : Nat) (h : Handler F) (fname : Str) (payload : List (Val F)) (st st2 : St F)
    (hf : prog.handlers.find? (fun x => x.name == h.name) = some h)
    (hl : ¬ payload.length < h.params.length)
    (hb : bindPayload h.params payload { st with locals := [[]] } = some st2) :
    handleEvent ops ext prog fuel h.name payload st
      = asRun (callTail ops ext prog fuel (asProc h fname) payload st) := by
  have h2 := bindPayload_is_bindParams h.params payload _ st2 hb
  have hcs : calleeState (asProc h fname) payload st = st2 := by
    simp [calleeState, asProc, h2]
  rw [globals_shared ops ext prog fuel h payload st st2 hf hl hb]
  unfold callTail
  rw [hcs]
  have hbody : (asProc h fname).body = h.body := rfl
  rw [hbody]
  cases hq : execBlockNode ops ext prog fuel h.body st2 with
  | err o s => rfl
  | ok c s => cases c with
    | ret v => cases v <;> rfl
    | _ => rfl

/-- delivery of a sequence of events, as the platform does it: in order, until one fails -/
def deliver (fuel : Nat) : List (Str × List (Val F)) → St F → RunResult × St F
  | [], st => (.ok, st)
  | (name, payload) :: rest, st =>
    match handleEvent ops ext prog fuel name payload st with
    | (.ok, st') => deliver fuel rest st'
    | r => r

/-- the same sequence as calls of procedures: `procOf name` is the procedure standing for handler `name` -/
def callAll (fuel : Nat) (procOf : Str → FuncDef F) : List (Str × List (Val F)) → St F → RunResult × St F
  | [], st => (.ok, st)
  | (name, payload) :: rest, st =>
    match asRun (callTail ops ext prog fuel (procOf name) payload st) with
    | (.ok, st') => callAll fuel procOf rest st'
    | r => r

/-- every event of the sequence names a handler and carries a payload of its declared types
(checked in the state in which it is delivered: binding looks at the values only) -/
def Deliverable (evs : List (Str × List (Val F))) : Prop :=
  ∀ ev ∈ evs, ∃ h, prog.handlers.find? (fun x => x.name == ev.1) = some h ∧ h.name = ev.1 ∧
    ¬ ev.2.length < h.params.length ∧ ∀ st : St F, (bindPayload h.params ev.2 st).isSome

/-- **for every sequence of events** the cumulative result — outcome and whole final state — equals that
of calling the equivalent procedures in that order -/
theorem event_sequence_equals_procedure_calls (fuel : Nat) (procOf : Str → FuncDef F) (fname : Str → Str)
    (hp : ∀ name h, prog.handlers.find? (fun x => x.name == name) = some h → procOf name = asProc h (fname name)) :
    ∀ (evs : List (Str × List (Val F))) (st : St F), Deliverable prog evs →
      deliver ops ext prog fuel evs st = callAll ops ext prog fuel procOf evs st := by
  intro evs
  induction evs with
  | nil => intro st _; rfl
  | cons ev rest ih =>
    intro st hd
    obtain ⟨name, payload⟩ := ev
    obtain ⟨h, hf, hn, hl, hb⟩ := hd (name, payload) (by simp)
    simp only at hf hn hl hb
    have hb' := hb { st with locals := [[]] }
    obtain ⟨st2, hst2⟩ := Option.isSome_iff_exists.mp hb'
    have he := handler_equals_procedure ops ext prog fuel h (fname name) payload st st2 (by rw [hn]; exact hf) hl hst2
    rw [hn] at he
    have hrest : Deliverable prog rest := fun e he' => hd e (by simp [he'])
    simp only [deliver, callAll, he, hp name h hf]
    cases hq : asRun (callTail ops ext prog fuel (asProc h (fname name)) payload st) with
    | mk r s => cases r with
      | ok => exact ih s hrest
      | _ => rfl

/-- the hypotheses are satisfiable: a `key` handler and a `key` event with a string payload -/
example : Deliverable (F := F) ⟨[], [⟨lit "key", [(lit "k", .str)], [.noop]⟩], []⟩ [(lit "key", [.str (lit "a")])] := by
  intro ev hev
  simp only [List.mem_singleton] at hev
  subst hev
  exact ⟨⟨lit "key", [(lit "k", .str)], [.noop]⟩, by simp [lit], rfl, by simp, fun st => by simp [bindPayload, payloadOk]⟩

/-- **whole programs**: a handler run of any length gives the scope stack back exactly, and only adds to
heap, yields and trace -/
theorem handler_is_isolated (n : Nat) (name : Str) (payload : List (Val F)) (st : St F) :
    let st' := (handleEvent ops ext prog n name payload st).2
    st'.locals = st.locals ∧ st.heap.size ≤ st'.heap.size ∧ st.yields ≤ st'.yields ∧ st'.stopAt = st.stopAt ∧
    (st.stopped = true → st'.stopped = true) ∧ ∃ suf, st'.trace = suf ++ st.trace :=
  handleEvent_frame ops ext prog n name payload st

end EvyV.C15
