import EvyV.Spec.Canvas
import EvyV.Gen.Svg
/-
C19: the SVG platform (Model/Svg.lean: buffering, grouping, stripping of default attributes,
inheritance) shows exactly what the canvas specification (Spec/Canvas.lean) says was drawn — for
every command sequence.
-/
namespace EvyV.C19
open EvyV.Svg EvyV.Svg.Spec

variable {F : Type} (ops : NumOps F)

/-- The only fact about `float64` that the theorem needs: the numbers 1, 60 and 400 have one
representation, so `==` against them is equality (true of IEEE binary64: only 0 has two). -/
def EqExact : Prop :=
  ∀ (a : F) (k : Int), (k = 1 ∨ k = 60 ∨ k = 400) → ops.eq a (ops.ofInt k) = true → a = ops.ofInt k

/-- What the extracted quirks force us to exclude, and the one degenerate input on which the code
itself is inconsistent (an empty stroke colour: a lone text is then black, grouped texts take the fill). -/
def CmdOk (q : Quirks) : Cmd F → Prop
  | .ellipse .. => q.ellipseYUsesX = false
  | .font p => q.baselineRaw = true → ∀ b, p.baseline = some b → b = lit "middle" ∨ b = lit "alphabetic"
  | .stroke c => c ≠ []
  | .color c => c ≠ []
  | _ => True

/-! ### attribute resolution -/

theorem pick_nil_left (a : Str) : pick [] a = a := by simp [pick]
theorem pick_nil_right (a : Str) : pick a [] = a := by
  unfold pick; split <;> simp_all

theorem pick_strip (s d : Str) (hd : d ≠ []) : pick (strip s d) d = orDefault s d := by
  unfold pick strip orDefault
  by_cases h : s = d
  · subst h; simp [hd]
  · simp [h]

theorem orDefault_ne_nil (s d : Str) (hd : d ≠ []) : orDefault s d ≠ [] := by
  unfold orDefault; split <;> simp_all

theorem pick_of_ne_nil (a b : Str) (h : a ≠ []) : pick a b = a := by simp [pick, h]

theorem black_ne : lit "black" ≠ [] := by decide
theorem round_ne : lit "round" ≠ [] := by decide
theorem start_ne : lit "start" ≠ [] := by decide
theorem alphabetic_ne : lit "alphabetic" ≠ [] := by decide
theorem normal_ne : lit "normal" ≠ [] := by decide
theorem zero_ne : lit "0" ≠ [] := by decide
theorem family_ne : defaultFamily ≠ [] := by decide

/-- the context a wrapper group provides to its children -/
def ctxA (p : Pen F) : Attr F := (nonDefaultAttr ops p).over rootAttr
def ctxT (t : TextPen F) : TextAttr F := (nonDefaultTextAttr ops t).over (rootTextAttr ops)

theorem empty_over (a : Attr F) : ({} : Attr F).over a = a := by
  cases a; simp [Attr.over, pick]

theorem empty_tover (a : TextAttr F) : ({} : TextAttr F).over a = a := by
  cases a; simp [TextAttr.over, pick]

theorem nd_of_default (p : Pen F) (h : penIsDefault ops p = true) : nonDefaultAttr ops p = {} := by
  simp only [penIsDefault, Bool.and_eq_true, beq_iff_eq] at h
  obtain ⟨⟨⟨⟨h1, h2⟩, h3⟩, h4⟩, h5⟩ := h
  simp [nonDefaultAttr, strip, h1, h2, h3, h4, h5]

theorem ctxA_resolve (hx : EqExact ops) (p : Pen F) : (ctxA ops p).resolve ops = styleOf p := by
  have hw : (if ops.eq p.width ops.one = true then (none : Option F) else some p.width).getD ops.one = p.width := by
    split
    · rename_i h; exact (hx p.width 1 (Or.inl rfl) h).symm
    · rfl
  simp only [ctxA, Attr.over, Attr.resolve, nonDefaultAttr, rootAttr, styleOf, pick_nil_right, Option.or_none]
  rw [pick_strip _ _ black_ne, pick_strip _ _ black_ne, pick_strip _ _ round_ne,
    pick_of_ne_nil _ _ (orDefault_ne_nil _ _ black_ne), pick_of_ne_nil _ _ (orDefault_ne_nil _ _ round_ne), hw]

theorem ctxT_resolve (hx : EqExact ops) (t : TextPen F) : (ctxT ops t).resolve ops = tstyleOf t := by
  have hs : ((if ops.eq t.size (ops.ofInt 60) = true then (none : Option F) else some t.size).or (some (ops.ofInt 60))).getD (ops.ofInt 16) = t.size := by
    split
    · rename_i h; simp [(hx t.size 60 (Or.inr (Or.inl rfl)) h)]
    · rfl
  have hw : (if ops.eq t.weight (ops.ofInt 400) = true then (none : Option F) else some t.weight).getD (ops.ofInt 400) = t.weight := by
    split
    · rename_i h; exact (hx t.weight 400 (Or.inr (Or.inr rfl)) h).symm
    · rfl
  simp only [ctxT, TextAttr.over, TextAttr.resolve, nonDefaultTextAttr, rootTextAttr, tstyleOf, pick_nil_right, Option.or_none]
  rw [pick_strip _ _ start_ne, pick_strip _ _ alphabetic_ne, pick_strip _ _ normal_ne, pick_strip _ _ family_ne,
    pick_strip _ _ zero_ne, hs, hw]


/-! ### a pending element resolves to the same shape alone and inside a group -/

/-- the shape a pending element stands for under the pen in effect (as a child of the wrapper group) -/
def shapeIn (p : Pen F) (t : TextPen F) (i : Item F) : Shape F := flattenItem ops (ctxA ops p) (ctxT ops t) i

/-- the four forms of element the drawing commands create -/
inductive Created (p : Pen F) : Item F → Prop
  | plain (g : Geo F) (h : g.isText = false) : Created p (.leaf { geo := g })
  | clear (c : Str) (hc : c ≠ []) (x y : F) (w h : Str) :
      Created p (.leaf { attr := { fill := c, stroke := c }, geo := .rect x y w h })
  | text (x y : F) (s : Str) :
      Created p (.leaf { attr := if p.fill != p.stroke then { fill := p.stroke } else {}, geo := .text x y s })
  | grid (c : Str) (lines : List (GridLine F)) : Created p (.grid { attr := { stroke := c }, lines := lines })

theorem own_over_resolve (f s : Str) (ctx : Attr F) :
    (({ fill := f, stroke := s } : Attr F).over ctx).resolve ops =
      { ctx.resolve ops with fill := if f = [] then (ctx.resolve ops).fill else f,
                             stroke := if s = [] then (ctx.resolve ops).stroke else s } := by
  by_cases hf : f = [] <;> by_cases hs : s = [] <;> simp [Attr.over, Attr.resolve, pick, hf, hs]

theorem ctxA_default (p : Pen F) (h : penIsDefault ops p = true) : ctxA ops p = rootAttr := by
  simp [ctxA, nd_of_default ops p h, empty_over]


theorem withOwn_empty (a : Attr F) : withOwn a ({} : Attr F) = a := by
  cases a; simp [withOwn]

/-- Push on a single pending element gives the shape it would have inside a group -/
theorem single_eq_group (p : Pen F) (t : TextPen F) (i : Item F) (hc : Created p i) (hs : p.stroke ≠ []) :
    flattenItem ops rootAttr (rootTextAttr ops) (applySingle ops p t i) = shapeIn ops p t i := by
  cases hc with
  | plain g hg =>
    by_cases hd : penIsDefault ops p = true
    · cases g <;> simp_all [applySingle, shapeIn, flattenItem, Geo.isText, ctxA_default, empty_over]
    · cases g <;> simp_all [applySingle, shapeIn, flattenItem, Geo.isText, empty_over, withOwn_empty, ctxA]
  | clear c hc x y w h =>
    by_cases hd : penIsDefault ops p = true
    · simp [applySingle, shapeIn, flattenItem, Geo.isText, ctxA_default, hd]
    · simp [applySingle, shapeIn, flattenItem, Geo.isText, hd, withOwn, hc, ctxA, Attr.over, Attr.resolve, pick]
  | text x y str =>
    by_cases hd : penIsDefault ops p = true
    · simp [applySingle, shapeIn, flattenItem, Geo.isText, ctxA_default, hd, ctxT, empty_tover]
    · by_cases hfs : p.fill = p.stroke
      · simp [applySingle, shapeIn, flattenItem, Geo.isText, hd, ctxT, empty_tover, hfs, empty_over, ctxA, nonDefaultAttr]
      · have hne : (p.fill != p.stroke) = true := by simp [hfs]
        simp only [applySingle, shapeIn, flattenItem, Geo.isText, hd, ctxT, empty_tover, hne, if_true]
        have hfill : ∀ a : Attr F, a.fill = (nonDefaultAttr ops p).stroke → a.stroke = (nonDefaultAttr ops p).stroke →
            a.width = (nonDefaultAttr ops p).width → a.linecap = (nonDefaultAttr ops p).linecap →
            a.dash = (nonDefaultAttr ops p).dash →
            Attr.resolve ops (a.over rootAttr) = Attr.resolve ops (({ fill := p.stroke } : Attr F).over (ctxA ops p)) := by
          intro a h1 h2 h3 h4 h5
          by_cases hb : p.stroke = lit "black"
          · simp [Attr.over, Attr.resolve, ctxA, rootAttr, pick, h1, h2, h3, h4, h5, nonDefaultAttr, strip, hb, black_ne]
          · simp [Attr.over, Attr.resolve, ctxA, rootAttr, pick, h1, h2, h3, h4, h5, nonDefaultAttr, strip, hb, hs]
        simp only [Bool.false_eq_true, if_false]
        congr 1
        by_cases hb : ((nonDefaultAttr ops p).fill != (nonDefaultAttr ops p).stroke) = true
        · simp only [hb, if_true]; exact hfill _ rfl rfl rfl rfl rfl
        · simp only [hb]
          have : (nonDefaultAttr ops p).fill = (nonDefaultAttr ops p).stroke := by simpa using hb
          exact hfill _ this rfl rfl rfl rfl
  | grid c lines =>
    by_cases hd : penIsDefault ops p = true
    · simp [applySingle, shapeIn, flattenItem, ctxA_default, hd]
    · by_cases hc : c = [] <;>
        simp [applySingle, shapeIn, flattenItem, hd, withOwn, hc, ctxA, Attr.over, Attr.resolve, pick]


/-! ### what each element stands for -/

theorem shape_plain (hx : EqExact ops) (p : Pen F) (t : TextPen F) (g : Geo F) (hg : g.isText = false) :
    shapeIn ops p t (.leaf { geo := g }) = .leaf (styleOf p) none g := by
  simp [shapeIn, flattenItem, hg, empty_over, ctxA_resolve ops hx]

theorem shape_clear (hx : EqExact ops) (p : Pen F) (t : TextPen F) (c : Str) (hc : c ≠ []) (x y : F) (w h : Str) :
    shapeIn ops p t (.leaf { attr := { fill := c, stroke := c }, geo := .rect x y w h }) =
      .leaf { styleOf p with fill := c, stroke := c } none (.rect x y w h) := by
  simp [shapeIn, flattenItem, Geo.isText, own_over_resolve, ctxA_resolve ops hx, hc]

theorem shape_text (hx : EqExact ops) (p : Pen F) (t : TextPen F) (x y : F) (s : Str) (hs : p.stroke ≠ []) :
    shapeIn ops p t (.leaf { attr := if p.fill != p.stroke then { fill := p.stroke } else {}, geo := .text x y s }) =
      .leaf (textStyleOf p) (some (tstyleOf t)) (.text x y s) := by
  by_cases hfs : p.fill = p.stroke
  · simp [shapeIn, flattenItem, Geo.isText, hfs, empty_over, empty_tover, ctxA_resolve ops hx, ctxT_resolve ops hx,
      textStyleOf, styleOf]
  · have hne : (p.fill != p.stroke) = true := by simp [hfs]
    have := own_over_resolve ops p.stroke [] (ctxA ops p)
    simp only [hne, if_true, shapeIn, flattenItem, Geo.isText, empty_tover, ctxT_resolve ops hx]
    rw [show ({ fill := p.stroke } : Attr F) = { fill := p.stroke, stroke := [] } from rfl, this]
    simp [ctxA_resolve ops hx, hs, textStyleOf, styleOf, orDefault]

theorem shape_grid (hx : EqExact ops) (p : Pen F) (t : TextPen F) (c : Str) (lines : List (GridLine F)) :
    shapeIn ops p t (.grid { attr := { stroke := c }, lines := lines }) =
      .grid (if c == [] then (styleOf p).stroke else c) lines := by
  have := own_over_resolve ops [] c (ctxA ops p)
  simp only [shapeIn, flattenItem]
  rw [show ({ stroke := c } : Attr F) = { fill := [], stroke := c } from rfl, this]
  by_cases hc : c = [] <;> simp [ctxA_resolve ops hx, hc]

/-! ### the invariant -/

def flatTops (tops : List (Top F)) : List (Shape F) := tops.flatMap (flattenTop ops rootAttr (rootTextAttr ops))

/-- everything drawn so far: what is already in the document, then what the pending elements stand for -/
def out (s : State F) : List (Shape F) := flatTops ops s.tops ++ s.pending.map (shapeIn ops s.pen s.tpen)

def canvasOf (s : State F) : Canvas F := { x := s.x, y := s.y, pen := s.pen, tpen := s.tpen }

def Good (s : State F) : Prop := (∀ i ∈ s.pending, Created s.pen i) ∧ s.pen.stroke ≠ []

theorem push_spec (s : State F) (hg : Good s) :
    flatTops ops (push ops s).tops = out ops s ∧ (push ops s).pending = [] ∧
    (push ops s).pen = s.pen ∧ (push ops s).tpen = s.tpen ∧ (push ops s).x = s.x ∧ (push ops s).y = s.y := by
  obtain ⟨hc, hs⟩ := hg
  unfold push out
  match hp : s.pending with
  | [] => simp [hp]
  | [i] =>
    have := single_eq_group ops s.pen s.tpen i (hc i (by simp [hp])) hs
    simp [flatTops, flattenTop, this]
  | i :: j :: rest =>
    have hctx : (if penIsDefault ops s.pen = true then ({} : Attr F) else nonDefaultAttr ops s.pen).over rootAttr = ctxA ops s.pen := by
      split
      · rename_i h; rw [ctxA_default ops _ h, empty_over]
      · rfl
    simp [flatTops, flattenTop, hctx, shapeIn, ctxT]


theorem out_add (s : State F) (i : Item F) : out ops (add s i) = out ops s ++ [shapeIn ops s.pen s.tpen i] := by
  simp [out, add]

theorem good_add (s : State F) (i : Item F) (hg : Good s) (hi : Created s.pen i) : Good (add s i) := by
  obtain ⟨h1, h2⟩ := hg
  refine ⟨?_, h2⟩
  intro j hj
  simp only [add, List.mem_append, List.mem_singleton] at hj
  rcases hj with hj | hj
  · exact h1 j hj
  · subst hj; exact hi

theorem baseline_eq (q : Quirks) (b cur : Str)
    (h : q.baselineRaw = true → b = lit "middle" ∨ b = lit "alphabetic") :
    mapBaseline q b cur = baselineOf b cur := by
  unfold mapBaseline baselineOf
  cases hq : q.baselineRaw
  · simp
  · have h1 : (lit "middle" == lit "top") = false := by decide
    have h2 : (lit "alphabetic" == lit "top") = false := by decide
    have h3 : (lit "alphabetic" == lit "middle") = false := by decide
    have h4 : (lit "alphabetic" == lit "bottom") = false := by decide
    rcases h hq with rfl | rfl <;> simp [h1, h2, h3, h4]

theorem font_eq (q : Quirks) (t : TextPen F) (p : FontProps F)
    (h : q.baselineRaw = true → ∀ b, p.baseline = some b → b = lit "middle" ∨ b = lit "alphabetic") :
    applyFont ops q t p = setFont ops t p := by
  rcases p with ⟨fam, sz, wt, st, bl, al, sp⟩
  have hb : ∀ b, bl = some b → mapBaseline q b t.baseline = baselineOf b t.baseline := by
    intro b hb; exact baseline_eq q b _ (fun hq => h hq b (by simpa using hb))
  cases fam <;> cases sz <;> cases wt <;> cases st <;> cases bl <;> cases al <;> cases sp <;>
    simp_all [applyFont, setFont, mapAlign, anchorOf]


/-- one command: the document gains exactly the shapes the specification paints, and the pen agrees -/
theorem step_spec (hx : EqExact ops) (q : Quirks) (fuel : Nat) (s : State F) (c : Cmd F) (hg : Good s)
    (hc : CmdOk q c) :
    out ops (Svg.step ops q fuel s c) = out ops s ++ (Spec.step ops fuel (canvasOf s) c).2 ∧
    canvasOf (Svg.step ops q fuel s c) = (Spec.step ops fuel (canvasOf s) c).1 ∧ Good (Svg.step ops q fuel s c) := by
  obtain ⟨hp1, hp2, hp3, hp4, hp5, hp6⟩ := push_spec ops s hg
  have hstyle : ∀ (pen : Pen F) (tpen : TextPen F), pen.stroke ≠ [] →
      out ops { push ops s with pen := pen, tpen := tpen } = out ops s ∧
      Good ({ push ops s with pen := pen, tpen := tpen } : State F) := by
    intro pen tpen hne
    refine ⟨?_, ?_, hne⟩
    · simp [out, hp2, hp1]
    · intro i hi; simp [hp2] at hi
  cases c with
  | move x y => exact ⟨by simp [Svg.step, Spec.step, out], by simp [Svg.step, Spec.step, canvasOf], hg⟩
  | line x y =>
    let s' : State F := { s with x := tx ops x, y := ty ops y }
    have hg' : Good s' := hg
    refine ⟨?_, by simp [Svg.step, Spec.step, canvasOf, add], good_add _ _ hg' (Created.plain _ rfl)⟩
    simp only [Svg.step, out_add, Spec.step, canvasOf]
    rw [shape_plain ops hx _ _ _ rfl]; rfl
  | rect w h =>
    let s' : State F := { s with x := ops.add s.x (scale ops w), y := ops.add s.y (ops.neg (scale ops h)) }
    have hg' : Good s' := hg
    refine ⟨?_, by simp [Svg.step, Spec.step, canvasOf, add], good_add _ _ hg' (Created.plain _ rfl)⟩
    simp only [Svg.step, out_add, Spec.step, canvasOf]
    rw [shape_plain ops hx _ _ _ rfl]; rfl
  | circle r =>
    refine ⟨?_, by simp [Svg.step, Spec.step, canvasOf, add], good_add _ _ hg (Created.plain _ rfl)⟩
    simp only [Svg.step, out_add, Spec.step, canvasOf]
    rw [shape_plain ops hx _ _ _ rfl]
  | clear col =>
    have hne : (if col == [] then lit "white" else col) ≠ [] := by
      split
      · decide
      · rename_i h; simpa using h
    refine ⟨?_, by simp [Svg.step, Spec.step, canvasOf, add], good_add _ _ hg (Created.clear _ hne _ _ _ _)⟩
    simp only [Svg.step, out_add, Spec.step, canvasOf, clearItem]
    rw [shape_clear ops hx _ _ _ hne]
  | poly pts =>
    refine ⟨?_, by simp [Svg.step, Spec.step, canvasOf, add], good_add _ _ hg (Created.plain _ rfl)⟩
    simp only [Svg.step, out_add, Spec.step, canvasOf]
    rw [shape_plain ops hx _ _ _ rfl]
  | ellipse x y rx ry rot =>
    have hq : q.ellipseYUsesX = false := hc
    refine ⟨?_, by simp [Svg.step, Spec.step, canvasOf, add], good_add _ _ hg (Created.plain _ rfl)⟩
    simp only [Svg.step, out_add, Spec.step, canvasOf, hq]
    rw [shape_plain ops hx _ _ _ rfl]; rfl
  | text str =>
    refine ⟨?_, by simp [Svg.step, Spec.step, canvasOf, add], good_add _ _ hg (Created.text _ _ _)⟩
    simp only [Svg.step, out_add, Spec.step, canvasOf]
    rw [shape_text ops hx _ _ _ _ _ hg.2]
  | gridn u col =>
    refine ⟨?_, by simp [Svg.step, Spec.step, canvasOf, add], good_add _ _ hg (Created.grid _ _)⟩
    simp only [Svg.step, out_add, Spec.step, canvasOf]
    rw [shape_grid ops hx]
  | width w =>
    obtain ⟨h1, h2⟩ := hstyle { s.pen with width := scale ops w } s.tpen hg.2
    exact ⟨by simpa [Svg.step, Spec.step, hp3, hp4] using h1, by simp [Svg.step, Spec.step, canvasOf, hp3, hp4, hp5, hp6],
      by simpa [Svg.step, hp3, hp4] using h2⟩
  | color col =>
    have hne : col ≠ [] := hc
    obtain ⟨h1, h2⟩ := hstyle { s.pen with stroke := col, fill := col } s.tpen hne
    exact ⟨by simpa [Svg.step, Spec.step, hp3, hp4] using h1, by simp [Svg.step, Spec.step, canvasOf, hp3, hp4, hp5, hp6],
      by simpa [Svg.step, hp3, hp4] using h2⟩
  | stroke col =>
    have hne : col ≠ [] := hc
    obtain ⟨h1, h2⟩ := hstyle { s.pen with stroke := col } s.tpen hne
    exact ⟨by simpa [Svg.step, Spec.step, hp3, hp4] using h1, by simp [Svg.step, Spec.step, canvasOf, hp3, hp4, hp5, hp6],
      by simpa [Svg.step, hp3, hp4] using h2⟩
  | fill col =>
    obtain ⟨h1, h2⟩ := hstyle { s.pen with fill := col } s.tpen hg.2
    exact ⟨by simpa [Svg.step, Spec.step, hp3, hp4] using h1, by simp [Svg.step, Spec.step, canvasOf, hp3, hp4, hp5, hp6],
      by simpa [Svg.step, hp3, hp4] using h2⟩
  | dash segs =>
    obtain ⟨h1, h2⟩ := hstyle { s.pen with dash := dashStr ops segs } s.tpen hg.2
    exact ⟨by simpa [Svg.step, Spec.step, hp3, hp4] using h1, by simp [Svg.step, Spec.step, canvasOf, hp3, hp4, hp5, hp6],
      by simpa [Svg.step, hp3, hp4] using h2⟩
  | linecap cap =>
    obtain ⟨h1, h2⟩ := hstyle { s.pen with linecap := cap } s.tpen hg.2
    exact ⟨by simpa [Svg.step, Spec.step, hp3, hp4] using h1, by simp [Svg.step, Spec.step, canvasOf, hp3, hp4, hp5, hp6],
      by simpa [Svg.step, hp3, hp4] using h2⟩
  | font p =>
    have hf := font_eq ops q s.tpen p hc
    obtain ⟨h1, h2⟩ := hstyle s.pen (applyFont ops q s.tpen p) hg.2
    exact ⟨by simpa [Svg.step, Spec.step, hp3, hp4] using h1,
      by simp [Svg.step, Spec.step, canvasOf, hp3, hp4, hp5, hp6, hf],
      by simpa [Svg.step, hp3, hp4] using h2⟩


theorem run_spec (hx : EqExact ops) (q : Quirks) (fuel : Nat) (cmds : List (Cmd F)) :
    ∀ (s : State F), Good s → (∀ c ∈ cmds, CmdOk q c) →
      out ops (cmds.foldl (Svg.step ops q fuel) s) = out ops s ++ runFrom ops fuel (canvasOf s) cmds ∧
      Good (cmds.foldl (Svg.step ops q fuel) s) := by
  induction cmds with
  | nil => intro s hg _; simp [runFrom, hg]
  | cons c rest ih =>
    intro s hg hq
    obtain ⟨h1, h2, h3⟩ := step_spec ops hx q fuel s c hg (hq c (by simp))
    obtain ⟨i1, i2⟩ := ih (Svg.step ops q fuel s c) h3 (fun c' hc' => hq c' (by simp [hc']))
    refine ⟨?_, i2⟩
    simp only [List.foldl_cons, runFrom]
    rw [i1, h1, h2, List.append_assoc]

theorem init_good : Good (init ops) := by
  refine ⟨?_, black_ne⟩
  intro i hi
  simp only [init, List.mem_singleton] at hi
  subst hi
  exact Created.clear _ (by decide) _ _ _ _

/-- **C19** (every command sequence, any length): the shapes a viewer sees in the written SVG
document — after resolving inherited attributes — are the background followed by exactly one
shape per drawing command, in order, with the command's geometry and the pen style in effect.

`q` is the pair of quirks EXTRACTED from runtime.go; `CmdOk` excludes the commands they affect
(and `stroke ""`), see `ellipse_y_defect`, `baseline_defect`, `empty_stroke_defect`. -/
theorem render_is_canvas (hx : EqExact ops) (q : Quirks) (fuel : Nat) (cmds : List (Cmd F))
    (hq : ∀ c ∈ cmds, CmdOk q c) :
    flatten ops (writeSVG ops (Svg.run ops q fuel cmds)) = Spec.run ops fuel cmds := by
  obtain ⟨h1, h2⟩ := run_spec ops hx q fuel cmds (init ops) (init_good ops) hq
  obtain ⟨p1, _⟩ := push_spec ops _ h2
  have hinit : out ops (init ops) =
      [.leaf { styleOf (defaultPen ops) with fill := lit "white", stroke := lit "white" } none
        (.rect ops.zero ops.zero (lit "100%") (lit "100%"))] := by
    have := shape_clear ops hx (defaultPen ops) (defaultTextPen ops) (lit "white") (by decide) ops.zero ops.zero
      (lit "100%") (lit "100%")
    simp [out, init, flatTops, clearItem, this]
  simp only [flatten, writeSVG, Svg.run]
  change flatTops ops _ = _
  rw [p1, h1, hinit]
  rfl

/-- the corollary for code without the quirks: no exclusion except the empty stroke colour -/
theorem render_is_canvas_clean (hx : EqExact ops) (fuel : Nat) (cmds : List (Cmd F))
    (hs : ∀ c ∈ cmds, c ≠ Cmd.stroke [] ∧ c ≠ Cmd.color []) :
    flatten ops (writeSVG ops (Svg.run ops ⟨false, false⟩ fuel cmds)) = Spec.run ops fuel cmds := by
  apply render_is_canvas ops hx
  intro c hc
  obtain ⟨h1, h2⟩ := hs c hc
  cases c with
  | stroke col => exact fun h => h1 (by rw [h])
  | color col => exact fun h => h2 (by rw [h])
  | font p => intro h; cases h
  | ellipse => rfl
  | _ => trivial

/-! ### the coordinate transform is the same for every kind of shape -/

/-- every command that takes a point maps it with `tx`/`ty` (given the ellipse quirk is off) -/
theorem transform_uniform (fuel : Nat) (s : State F) (x y : F) :
    (Svg.step ops ⟨false, false⟩ fuel s (.move x y)).x = tx ops x ∧
    (Svg.step ops ⟨false, false⟩ fuel s (.move x y)).y = ty ops y ∧
    (Svg.step ops ⟨false, false⟩ fuel s (.line x y)).x = tx ops x ∧
    (Svg.step ops ⟨false, false⟩ fuel s (.line x y)).y = ty ops y ∧
    (∀ rx ry rot, (Svg.step ops ⟨false, false⟩ fuel s (.ellipse x y rx ry rot)).pending.getLast? =
      some (Item.leaf ⟨{}, {}, Geo.ellipse (tx ops x) (ty ops y) (scale ops rx) (scale ops ry)
        (if ops.eq rot ops.zero then none else some (rot, tx ops x, ty ops y))⟩)) ∧
    (Svg.step ops ⟨false, false⟩ fuel s (.poly [(x, y)])).pending.getLast? =
      some (Item.leaf ⟨{}, {}, Geo.polyline (ops.fmt (tx ops x) ++ [','] ++ ops.fmt (ty ops y))⟩) := by
  simp [Svg.step, add, pointsStr, joinWith]

/-! ### the extracted facts the model rests on (tie T1) -/

/-- the quirks as read from runtime.go on this run -/
def quirks : Quirks :=
  { ellipseYUsesX := Gen.ellipseYTransform == "rt.transformX", baselineRaw := Gen.baselineRawOverwrite }

theorem extracted_facts :
    (Gen.ellipseYTransform = "rt.transformX" ∨ Gen.ellipseYTransform = "rt.transformY") ∧
    Gen.defaultAttr = [("Fill", "black"), ("Stroke", "black"), ("StrokeWidth", "&defaultStrokeWidth"),
      ("StrokeLinecap", "round"), ("StrokeDashArray", "")] ∧
    Gen.defaultTextAttr = [("TextAnchor", "start"), ("Baseline", "alphabetic"), ("FontSize", "&defaultFontSize"),
      ("FontWeight", "&defaultFontWeight"), ("FontStyle", "normal"), ("FontFamily", "\"Fira Code\", monospace"),
      ("LetterSpacing", "0")] ∧
    Gen.numbers = [("evyWidth", "100"), ("evyHeight", "100"), ("scaleFactor", "10"), ("defaultStrokeWidth", "1.0"),
      ("defaultFontSize", "60.0"), ("defaultFontWeight", "400.0")] ∧
    Gen.transforms = [("transformX", "rt.scale(x)"), ("transformY", "(rt.scale(evyHeight) - rt.scale(y))"),
      ("scale", "float64((scaleFactor * s))")] ∧
    Gen.pushFirst = ["Width", "Color", "Stroke", "Fill", "Dash", "Linecap", "Font", "WriteSVG"] ∧
    Gen.appendsElement = ["Line", "Rect", "Circle", "Clear", "Poly", "Ellipse", "Text", "Gridn"] ∧
    Gen.assigns = [("Move", "rt.x rt.y"), ("Line", "rt.x rt.y"), ("Rect", "rt.x rt.y"),
      ("Width", "rt.attr.StrokeWidth"), ("Color", "rt.attr.Stroke rt.attr.Fill"), ("Stroke", "rt.attr.Stroke"),
      ("Fill", "rt.attr.Fill"), ("Dash", "rt.attr.StrokeDashArray"), ("Linecap", "rt.attr.StrokeLinecap"),
      ("Font", "rt.textAttr.FontFamily rt.textAttr.FontSize rt.textAttr.FontWeight rt.textAttr.FontStyle rt.textAttr.Baseline rt.textAttr.TextAnchor rt.textAttr.LetterSpacing")] ∧
    Gen.fontBaseline = [("top", "hanging"), ("middle", "middle"), ("bottom", "ideographic"), ("alphabetic", "alphabetic")] ∧
    Gen.fontAlign = [("left", "start"), ("right", "end"), ("center", "middle")] ∧
    Gen.setters = [("*Group.setAttr", "g.Attr = a.withOwn(g.Attr)"), ("*Group.setTextAttr", "g.TextAttr = ta"),
      ("*Line.setAttr", "l.Attr = a"), ("*Circle.setAttr", "c.Attr = a"), ("*Rect.setAttr", "r.Attr = a.withOwn(r.Attr)"),
      ("*Polyline.setAttr", "p.Attr = a"), ("*Ellipse.setAttr", "p.Attr = a"),
      ("*Text.setAttr", "t.Attr = a; if (t.Attr.Fill != t.Attr.Stroke) {t.Attr.Fill = t.Attr.Stroke;}"),
      ("*Text.setTextAttr", "t.TextAttr = ta")] :=
  ⟨by decide, rfl, rfl, rfl, rfl, rfl, rfl, rfl, rfl, rfl, rfl⟩

/-! ### the excluded inputs really fail (negative witnesses, on the integer instance) -/

def exEllipse : List (Cmd Int) := [.ellipse 20 30 5 5 0]

/-- with the extracted ellipse quirk the SVG shows the ellipse at y = 300 instead of 700 -/
theorem ellipse_y_defect :
    flatten intOps (writeSVG intOps (Svg.run intOps ⟨true, false⟩ 10 exEllipse)) ≠ Spec.run intOps 10 exEllipse := by
  decide

def exBaseline : List (Cmd Int) := [.font { baseline := some (lit "top") }, .text (lit "a")]

/-- with the raw overwrite the text gets dominant-baseline="top" (not an SVG value) instead of "hanging" -/
theorem baseline_defect :
    flatten intOps (writeSVG intOps (Svg.run intOps ⟨false, true⟩ 10 exBaseline)) ≠ Spec.run intOps 10 exBaseline := by
  decide

def exEmptyStroke : List (Cmd Int) := [.fill (lit "red"), .stroke [], .text (lit "a"), .text (lit "b")]

/-- an empty stroke colour: two texts in one group are filled red, a lone text black -/
theorem empty_stroke_defect :
    flatten intOps (writeSVG intOps (Svg.run intOps ⟨false, false⟩ 10 exEmptyStroke)) ≠ Spec.run intOps 10 exEmptyStroke := by
  decide

/-! ### non-vacuity: the hypotheses are met by a non-trivial history, and the theorem's two sides are then
the same five shapes -/

theorem intOps_exact : EqExact intOps := by
  intro a k _ h; simpa [intOps] using h

def exHistory : List (Cmd Int) :=
  [.color (lit "red"), .clear (lit "blue"), .width 2, .circle 5, .text (lit "<&>"), .dash [1, 2], .gridn 50 (lit "grey"),
   .move 10 10, .line 20 20, .font { size := some 3, align := some (lit "center") }, .text (lit "x")]

example : (∀ c ∈ exHistory, CmdOk ⟨true, true⟩ c) ∧ (Spec.run intOps 100 exHistory).length = 7 := by
  constructor
  · intro c hc
    simp only [exHistory, List.mem_cons, List.not_mem_nil, or_false] at hc
    rcases hc with rfl | rfl | rfl | rfl | rfl | rfl | rfl | rfl | rfl | rfl | rfl <;>
      first | trivial | (intro h; exact absurd h (by decide)) | (intro _ b hb; cases hb)
  · decide

/-! ### the grid loop terminates once the unit is validated (integer instance) -/

theorem gridFinishes_int (unit : Int) (hu : 0 < unit) :
    ∀ (fuel : Nat) (i : Int), 0 ≤ i → (1001 - i).toNat < fuel → gridFinishes intOps unit fuel i = true := by
  intro fuel
  induction fuel with
  | zero => intro i _ h; omega
  | succ n ih =>
    intro i hi h
    unfold gridFinishes
    by_cases hle : i ≤ 1000
    · have : intOps.le i (intOps.ofInt 1000) = true := by simp [intOps, hle]
      simp only [this, if_true]
      apply ih (intOps.add i unit)
      · simp [intOps]; omega
      · simp only [intOps]; omega
    · have : intOps.le i (intOps.ofInt 1000) = false := by simp [intOps, hle]
      simp [this]

/-- with the check `unit > 0` of gridnFunc the loop ends within 1002 iterations -/
theorem gridn_terminates (unit : Int) (hu : 0 < unit) : gridFinishes intOps unit 1002 0 = true :=
  gridFinishes_int unit hu 1002 0 (by omega) (by omega)

/-- without the check it does not: `gridn 0` never ends (no fuel suffices) -/
theorem gridn_zero_diverges (fuel : Nat) : gridFinishes intOps 0 fuel 0 = false := by
  induction fuel with
  | zero => rfl
  | succ n ih => simpa [gridFinishes, intOps] using ih

end EvyV.C19
