import EvyV.Props.C02Sound
/-!
C02: type soundness of the evaluator model, statements.

`stmt_sound`: a well-typed statement list (Spec/WellTyped.lean `BTyped`: declarations, assignments to
variables, elements and fields, if / else-if / else, while, return, break, print), executed for any
number of steps in a well-typed state, ends in a well-typed state — every scope pushed is popped,
every variable and heap object still has its declared type, a returned value has the function's
result type — or in a documented outcome. Never an internal error, never a Go panic.
-/
namespace EvyV.TS
open EvyV

variable {F : Type} (ops : NumOps F) (ext : Ext F) (prog : Program F)

/-! ### the state invariant -/

theorem All2.imp {α β : Type} {R Q : α → β → Prop} (h : ∀ a b, R a b → Q a b) {as : List α} {bs : List β}
    (r : All2 R as bs) : All2 Q as bs := by
  induction r with
  | nil => exact .nil
  | cons hab _ ih => exact .cons (h _ _ hab) ih

theorem ScOk.mono {S S' : Store} (g : Grows S S') {e : SEnv} {sc : Scope F} (h : ScOk S e sc) : ScOk S' e sc :=
  All2.imp (fun _ _ ⟨a, b⟩ => ⟨a, b.mono g⟩) h

theorem LocalsOk.mono {S S' : Store} (g : Grows S S') {Gs : List SEnv} {l : List (Scope F)} (h : LocalsOk S Gs l) : LocalsOk S' Gs l :=
  All2.imp (fun _ _ r => ScOk.mono g r) h

theorem GlobalOk.mono {S S' : Store} (g : Grows S S') {Gg : Env} {gl : Scope F} (h : GlobalOk S Gg gl) : GlobalOk S' Gg gl :=
  fun p hp t ht => (h p hp t ht).mono g

/-- scope lookups agree -/
theorem ScOk.get {S : Store} {e : SEnv} {sc : Scope F} (h : ScOk S e sc) (n : Str) :
    (scopeGet sc n = none ∧ senvGet e n = none) ∨ (∃ v t, scopeGet sc n = some v ∧ senvGet e n = some t ∧ VT S v t) := by
  induction h with
  | nil => left; exact ⟨rfl, rfl⟩
  | @cons p q ps qs hab _ ih =>
    obtain ⟨k, v⟩ := p
    obtain ⟨k', t⟩ := q
    obtain ⟨hk, hv⟩ := hab
    simp only at hk hv
    subst hk
    simp only [scopeGet, senvGet, List.lookup]
    cases hq : (n == k) with
    | true => right; exact ⟨v, t, rfl, rfl, hv⟩
    | false => simpa [scopeGet, senvGet] using ih

theorem LocalsOk.get {S : Store} {Gs : List SEnv} {l : List (Scope F)} (h : LocalsOk S Gs l) (n : Str) :
    (l.findSome? (fun s => scopeGet s n) = none ∧ Gs.findSome? (fun s => senvGet s n) = none) ∨
    (∃ v t, l.findSome? (fun s => scopeGet s n) = some v ∧ Gs.findSome? (fun s => senvGet s n) = some t ∧ VT S v t) := by
  induction h with
  | nil => left; exact ⟨rfl, rfl⟩
  | cons hab _ ih =>
    simp only [List.findSome?_cons]
    rcases hab.get n with ⟨h1, h2⟩ | ⟨v, t, h1, h2, hv⟩
    · rw [h1, h2]; exact ih
    · rw [h1, h2]; right; exact ⟨v, t, rfl, rfl, hv⟩

theorem mem_of_scopeGet (sc : Scope F) (n : Str) (v : Val F) (h : scopeGet sc n = some v) : (n, v) ∈ sc :=
  lookup_mem n sc v h

theorem StOk.envOk {S : Store} {Gs : List SEnv} {Gg : Env} {st : St F} (h : StOk S Gs Gg st) : EnvOk S (lookupG Gs Gg) st := by
  intro n t v hG hv
  unfold lookupG at hG
  unfold getVar at hv
  split at hG
  · cases hG
  · rename_i hne
    simp only [hne, if_false] at hv
    rcases h.locals.get n with ⟨h1, h2⟩ | ⟨w, t', h1, h2, hw⟩
    · rw [h1] at hv; rw [h2] at hG
      simp only at hv hG
      exact h.global (n, v) (mem_of_scopeGet _ _ _ hv) t hG
    · rw [h1] at hv; rw [h2] at hG
      simp only at hv hG
      cases hv; cases hG; exact hw

theorem StOk.mono {S S' : Store} (g : Grows S S') {Gs : List SEnv} {Gg : Env} {st st' : St F} (h : StOk S Gs Gg st)
    (hk : HeapOk S' st'.heap) (hl : st'.locals = st.locals) (hg : st'.global = st.global) : StOk S' Gs Gg st' :=
  ⟨by rw [hl]; exact h.locals.mono g, by rw [hg]; exact h.global.mono g, hk⟩

theorem lookupG_push (Gs : List SEnv) (Gg : Env) : lookupG ([] :: Gs) Gg = lookupG Gs Gg := by
  funext n
  simp [lookupG, senvGet, List.findSome?_cons]

/-! ### binding and rebinding -/

theorem ScOk.set {S : Store} {e : SEnv} {sc : Scope F} (h : ScOk S e sc) (n : Str) (v : Val F) (t : Ty) (hv : VT S v t) :
    ScOk S (senvSet e n t) (scopeSet sc n v) := by
  induction h with
  | nil => exact .cons ⟨rfl, hv⟩ .nil
  | @cons p q ps qs hab hrest ih =>
    obtain ⟨k, w⟩ := p
    obtain ⟨k', t'⟩ := q
    obtain ⟨hk, hw⟩ := hab
    simp only at hk hw
    subst hk
    simp only [scopeSet, senvSet]
    split
    · exact .cons ⟨rfl, hv⟩ hrest
    · exact .cons ⟨rfl, hw⟩ ih

/-- rebinding a name the scope has, to a value of its type -/
theorem ScOk.update {S : Store} {e : SEnv} {sc : Scope F} (h : ScOk S e sc) (n : Str) (v : Val F) (t : Ty)
    (ht : senvGet e n = some t) (hv : VT S v t) : ScOk S e (scopeSet sc n v) := by
  induction h with
  | nil => simp [senvGet] at ht
  | @cons p q ps qs hab hrest ih =>
    obtain ⟨k, w⟩ := p
    obtain ⟨k', t'⟩ := q
    obtain ⟨hk, hw⟩ := hab
    simp only at hk hw
    subst hk
    simp only [senvGet, List.lookup] at ht
    simp only [scopeSet]
    cases hq : (n == k) with
    | true =>
      have : k = n := by simpa using (beq_iff_eq.mp hq).symm
      rw [hq] at ht; simp only at ht; cases ht
      simp only [this, if_true]
      exact .cons ⟨this.symm ▸ rfl, hv⟩ hrest
    | false =>
      rw [hq] at ht
      have : ¬ k = n := by intro e; subst e; simp at hq
      simp only [this, if_false]
      exact .cons ⟨rfl, hw⟩ (ih (by simpa [senvGet] using ht))

theorem LocalsOk.update {S : Store} {Gs : List SEnv} {l : List (Scope F)} (h : LocalsOk S Gs l) (n : Str) (v : Val F) (t : Ty)
    (hv : VT S v t) :
    (Gs.findSome? (fun s => senvGet s n) = some t → ∃ l', updateLocals l n v = some l' ∧ LocalsOk S Gs l') ∧
    (Gs.findSome? (fun s => senvGet s n) = none → updateLocals l n v = none) := by
  induction h with
  | nil => constructor <;> intro h <;> simp [updateLocals] at h ⊢
  | @cons sc e scs es hab hrest ih =>
    simp only [List.findSome?_cons, updateLocals]
    rcases hab.get n with ⟨h1, h2⟩ | ⟨w, t', h1, h2, hw⟩
    · rw [h2]; simp only [h1, Option.isSome_none, Bool.false_eq_true, if_false]
      constructor
      · intro hf
        obtain ⟨l', hl', hok⟩ := ih.1 hf
        exact ⟨_, by rw [hl']; rfl, .cons hab hok⟩
      · intro hf; rw [ih.2 hf]; rfl
    · rw [h2]; simp only [h1, Option.isSome_some, if_true]
      constructor
      · intro hf; cases hf
        exact ⟨_, rfl, .cons (hab.update n v t h2 hv) hrest⟩
      · intro hf; cases hf

theorem mem_scopeSet (sc : Scope F) (n : Str) (v : Val F) (p : Str × Val F) (h : p ∈ scopeSet sc n v) : p = (n, v) ∨ p ∈ sc := by
  induction sc with
  | nil => simp [scopeSet] at h; exact Or.inl h
  | cons q rest ih =>
    obtain ⟨k, w⟩ := q
    simp only [scopeSet] at h
    split at h
    · rcases List.mem_cons.mp h with h | h
      · exact Or.inl h
      · exact Or.inr (List.mem_cons_of_mem _ h)
    · rcases List.mem_cons.mp h with h | h
      · exact Or.inr (h ▸ List.mem_cons_self)
      · rcases ih h with h | h
        · exact Or.inl h
        · exact Or.inr (List.mem_cons_of_mem _ h)

theorem GlobalOk.set {S : Store} {Gg : Env} {gl : Scope F} (h : GlobalOk S Gg gl) (n : Str) (v : Val F)
    (hv : ∀ t, Gg n = some t → VT S v t) : GlobalOk S Gg (scopeSet gl n v) := by
  intro p hp t ht
  rcases mem_scopeSet gl n v p hp with h' | h'
  · subst h'; exact hv t ht
  · exact h p h' t ht

/-! ### element stores -/

theorem HeapOk.set_arr {S : Store} {H : Array (Obj F)} (hk : HeapOk S H) (a : Nat) (s : Ty) (ha : S[a]? = some (.arr s))
    (es : List (Val F)) (hes : ∀ v ∈ es, VT S v s) : HeapOk S (H.setIfInBounds a (.arr es)) := by
  refine ⟨by simp [hk.size], hk.reg, ?_, ?_⟩
  · intro b s' hb
    by_cases hab : a = b
    · subst hab
      rw [ha] at hb; cases hb
      obtain ⟨es0, h0, _⟩ := hk.arr a s ha
      have hlt : a < H.size := by
        rcases Nat.lt_or_ge a H.size with h | h
        · exact h
        · rw [Array.getElem?_eq_none h] at h0; cases h0
      exact ⟨es, by simp [Array.getElem?_setIfInBounds, hlt], hes⟩
    · obtain ⟨es0, h0, h1⟩ := hk.arr b s' hb
      exact ⟨es0, by rw [Array.getElem?_setIfInBounds_ne hab]; exact h0, h1⟩
  · intro b s' hb
    by_cases hab : a = b
    · subst hab; rw [ha] at hb; cases hb
    · obtain ⟨m, h0, h1⟩ := hk.map b s' hb
      exact ⟨m, by rw [Array.getElem?_setIfInBounds_ne hab]; exact h0, h1⟩

theorem HeapOk.set_map {S : Store} {H : Array (Obj F)} (hk : HeapOk S H) (a : Nat) (s : Ty) (ha : S[a]? = some (.map s))
    (m : MapVal (Val F)) (hm : ∀ p ∈ m.pairs, VT S p.2 s) : HeapOk S (H.setIfInBounds a (.map m)) := by
  refine ⟨by simp [hk.size], hk.reg, ?_, ?_⟩
  · intro b s' hb
    by_cases hab : a = b
    · subst hab; rw [ha] at hb; cases hb
    · obtain ⟨es0, h0, h1⟩ := hk.arr b s' hb
      exact ⟨es0, by rw [Array.getElem?_setIfInBounds_ne hab]; exact h0, h1⟩
  · intro b s' hb
    by_cases hab : a = b
    · subst hab
      rw [ha] at hb; cases hb
      obtain ⟨m0, h0, _⟩ := hk.map a s ha
      have hlt : a < H.size := by
        rcases Nat.lt_or_ge a H.size with h | h
        · exact h
        · rw [Array.getElem?_eq_none h] at h0; cases h0
      exact ⟨m, by simp [Array.getElem?_setIfInBounds, hlt], hm⟩
    · obtain ⟨m0, h0, h1⟩ := hk.map b s' hb
      exact ⟨m0, by rw [Array.getElem?_setIfInBounds_ne hab]; exact h0, h1⟩

theorem setKey_typed {S : Store} {s : Ty} (m : MapVal (Val F)) (k : Key) (v : Val F) (hm : ∀ p ∈ m.pairs, VT S p.2 s) (hv : VT S v s) :
    ∀ p ∈ (m.setKey k v).pairs, VT S p.2 s := by
  unfold MapVal.setKey
  split <;> exact set_typed m.pairs k v hm hv

theorem setIndex_typed {S : Store} {s : Ty} (es es' : List (Val F)) (i : F) (v : Val F) (hes : ∀ x ∈ es, VT S x s) (hv : VT S v s)
    (h : setIndexList ops es i v = .ok (some es')) : ∀ x ∈ es', VT S x s := by
  unfold setIndexList at h
  split at h
  · cases h
  · split at h
    · simp at h; subst h
      intro x hx
      rcases List.mem_or_eq_of_mem_set hx with h | h
      · exact hes x h
      · subst h; exact hv
    · cases h

theorem setIndex_never_gopanic (es : List (Val F)) (i : F) (v : Val F) : setIndexList ops es i v ≠ .ok none := by
  intro h
  have := (C11.setIndex_same_domain ops es i v).2
  unfold setIndexList at h
  split at h
  · cases h
  · rename_i j hj
    have := (this j hj).2
    simp [this] at h

/-! ### results of statements -/

variable (Gg : Env) (ρ : Option Ty)

/-- a statement: on normal completion the scopes are `Gs'`; a break or return leaves the innermost
scope somewhere in between (it is about to be popped), the outer ones as they were -/
def GoodS (S : Store) (Gs Gs' : List SEnv) : Res F (Completion F) → Prop
  | .ok c st' => ∃ S' Gx, Grows S S' ∧ StOk S' Gx Gg st' ∧ Gx.tail = Gs.tail ∧ Gx.length = Gs.length ∧
      (c = .normal → Gx = Gs') ∧ ComplOk S' ρ c
  | .err o _ => Doc o

def GoodB (S : Store) (Gs : List SEnv) : Res F (Completion F) → Prop
  | .ok c st' => ∃ S' Gx, Grows S S' ∧ StOk S' Gx Gg st' ∧ Gx.tail = Gs.tail ∧ Gx.length = Gs.length ∧ ComplOk S' ρ c
  | .err o _ => Doc o

/-- constructs that leave the scopes exactly as they were -/
def GoodK (S : Store) (Gs : List SEnv) : Res F (Completion F) → Prop
  | .ok c st' => ∃ S', Grows S S' ∧ StOk S' Gs Gg st' ∧ ComplOk S' ρ c
  | .err o _ => Doc o

def GoodC (S : Store) (Gs : List SEnv) : Res F (Completion F × Bool) → Prop
  | .ok p st' => ∃ S', Grows S S' ∧ StOk S' Gs Gg st' ∧ ComplOk S' ρ p.1
  | .err o _ => Doc o

theorem ComplOk.mono {S S' : Store} (g : Grows S S') {c : Completion F} (h : ComplOk S ρ c) : ComplOk S' ρ c := by
  cases c with
  | normal => trivial
  | brk => trivial
  | ret v =>
    cases v with
    | none => exact h
    | some w => obtain ⟨t, h1, h2⟩ := h; exact ⟨t, h1, h2.mono g⟩

theorem StOk.same {S : Store} {Gs : List SEnv} {st st' : St F} (h : StOk S Gs Gg st)
    (hh : st'.heap = st.heap) (hl : st'.locals = st.locals) (hg : st'.global = st.global) : StOk S Gs Gg st' :=
  ⟨by rw [hl]; exact h.locals, by rw [hg]; exact h.global, by rw [hh]; exact h.heap⟩

theorem StOk.push {S : Store} {Gs : List SEnv} {st : St F} (h : StOk S Gs Gg st) : StOk S ([] :: Gs) Gg (pushScope st) :=
  ⟨.cons .nil h.locals, h.global, h.heap⟩

/-- leaving a block: the innermost scope goes, the others are as typed -/
theorem StOk.pop {S : Store} {Gs Gx : List SEnv} {st : St F} (h : StOk S Gx Gg st)
    (ht : Gx.tail = Gs) (hlen : Gx.length = Gs.length + 1) : StOk S Gs Gg (popScope st) := by
  cases Gx with
  | nil => simp at hlen
  | cons g rest =>
    simp only [List.tail_cons] at ht; subst ht
    have hl := h.locals
    cases hl' : st.locals with
    | nil => rw [hl'] at hl; cases hl
    | cons sc scs =>
      rw [hl'] at hl
      cases hl with
      | cons _ hrest => exact ⟨by simp only [popScope, hl', List.tail_cons]; exact hrest, h.global, h.heap⟩

/-- a block run in a scope of its own, which is popped whatever happens -/
theorem pop_block {S S1 : Store} {Gs : List SEnv} (g : Grows S S1) (r : Res F (Completion F))
    (h : GoodB Gg ρ S1 ([] :: Gs) r) :
    GoodK Gg ρ S Gs (match r with
      | .err o st' => .err o (popScope st')
      | .ok c st' => .ok c (popScope st')) := by
  cases r with
  | err o s => exact h
  | ok c s =>
    obtain ⟨S2, Gx, g2, hok, ht, hlen, hc⟩ := h
    exact ⟨S2, g.trans g2, hok.pop Gg (by simpa using ht) (by simpa using hlen), hc⟩

theorem print_builtin (vs : List (Val F)) (st : St F) :
    callBuiltin ops ext (lit "print") vs st = some (match joinVals ops st vs [' '] with
      | some s => .ok .none (emit st (.print (s ++ ['\n'])))
      | none => .err .timeout st) := by
  simp [callBuiltin, isBuiltin, builtinNames, lit]
  cases joinVals ops st vs [' '] <;> rfl

/-! ### for loops -/

/-- the ranger yields values of the loop variable's type -/
def RangerOk (S : Store) : Ranger F → Ty → Prop
  | .step _ _ _, t => t = .num
  | .arr a _, t => S[a]? = some (.arr t)
  | .str _ _, t => t = .str
  | .map _ _, t => t = .str

theorem RangerOk.mono {S S' : Store} (g : Grows S S') {r : Ranger F} {t : Ty} (h : RangerOk S r t) : RangerOk S' r t := by
  cases r with
  | step _ _ _ => exact h
  | arr a c => exact g.get h
  | str _ _ => exact h
  | map _ _ => exact h

theorem rangerNext_typed {S : Store} {st : St F} (hk : HeapOk S st.heap) (r r' : Ranger F) (t : Ty) (v : Val F)
    (hr : RangerOk S r t) (h : rangerNext ops st r = some (v, r')) : VT S v t ∧ RangerOk S r' t := by
  cases r with
  | step cur stop step =>
    have ht : t = .num := hr
    subst ht
    simp only [rangerNext] at h
    split at h
    · cases h
    · split at h
      · cases h
      · simp at h; obtain ⟨rfl, rfl⟩ := h; exact ⟨.num _, rfl⟩
  | arr a cur =>
    have ha : S[a]? = some (.arr t) := hr
    obtain ⟨es, he, hes⟩ := hk.arr a t ha
    simp only [rangerNext, heapGet, he] at h
    split at h
    · rename_i w hw
      simp at h; obtain ⟨rfl, rfl⟩ := h
      exact ⟨hes _ (List.mem_of_getElem? hw), ha⟩
    · cases h
  | str rs cur =>
    have ht : t = .str := hr
    subst ht
    simp only [rangerNext] at h
    split at h
    · simp at h; obtain ⟨rfl, rfl⟩ := h; exact ⟨.str _, rfl⟩
    · cases h
  | map a order =>
    have ht : t = .str := hr
    subst ht
    simp only [rangerNext] at h
    split at h
    · cases hn : nextPresent ‹MapVal (Val F)› order with
      | none => rw [hn] at h; cases h
      | some p => rw [hn] at h; simp at h; obtain ⟨rfl, rfl⟩ := h; exact ⟨.str _, rfl⟩
    · cases h

/-- the zero value of a loop variable has the variable's type -/
theorem zeroVal_typed {S : Store} {st : St F} (hk : HeapOk S st.heap) (s : Ty) (hs : Reg s = true) :
    ∃ S', Grows S S' ∧ HeapOk S' (zeroVal ops st s).2.heap ∧ VT S' (zeroVal ops st s).1 s ∧
      (zeroVal ops st s).2.locals = st.locals ∧ (zeroVal ops st s).2.global = st.global := by
  cases s with
  | num => exact ⟨S, Grows.refl S, hk, .num _, rfl, rfl⟩
  | str => exact ⟨S, Grows.refl S, hk, .str _, rfl, rfl⟩
  | bool => exact ⟨S, Grows.refl S, hk, .bool _, rfl, rfl⟩
  | any => exact ⟨S, Grows.refl S, hk, .any .bool _ (by simp) (.bool _), rfl, rfl⟩
  | arr t =>
    obtain ⟨hk', vt⟩ := hk.push_arr t (by simpa [Reg] using hs) [] (by intro v hv; cases hv)
    exact ⟨_, Grows.snoc S _, hk', vt, rfl, rfl⟩
  | map t =>
    obtain ⟨hk', vt⟩ := hk.push_map t (by simpa [Reg] using hs) MapVal.empty (by intro v hv; cases hv)
    exact ⟨_, Grows.snoc S _, hk', vt, rfl, rfl⟩
  | none => simp [Reg] at hs
  | earr => simp [Reg] at hs
  | emap => simp [Reg] at hs
  | garr => simp [Reg] at hs
  | gmap => simp [Reg] at hs

/-! ### the induction -/

/-- evaluate an expression of a statement: the state stays well-typed under the same scopes -/
theorem eval_in (hx : ExtOk ext) (n : Nat) {S : Store} {Gs : List SEnv} {st : St F} (hok : StOk S Gs Gg st)
    (e : Expr F) (t : Ty) (hty : Typed (lookupG Gs Gg) e t) :
    match evalE ops ext prog n e st with
    | .ok v st' => ∃ S', Grows S S' ∧ StOk S' Gs Gg st' ∧ VT S' v t ∧ st'.locals = st.locals ∧ st'.global = st.global
    | .err o _ => Doc o := by
  have h := (sound ops ext prog hx n).1 e st (lookupG Gs Gg) S t hty hok.heap (hok.envOk)
  cases hq : evalE ops ext prog n e st with
  | err o s => rw [hq] at h; exact h
  | ok v s =>
    rw [hq] at h
    obtain ⟨S', g, hk, hv, l, gl⟩ := h
    exact ⟨S', g, hok.mono g hk l gl, hv, l, gl⟩

/-- an optional operand of a step range -/
theorem numOr_in (hx : ExtOk ext) (k : Nat) {S : Store} {Gs : List SEnv} {st : St F} (hok : StOk S Gs Gg st)
    (oe : Option (Expr F)) (d : F) (hty : ∀ x, oe = some x → Typed (lookupG Gs Gg) x .num) :
    match evalNumOr ops ext prog k oe d st with
    | .ok _ st' => ∃ S', Grows S S' ∧ StOk S' Gs Gg st' ∧ st'.locals = st.locals ∧ st'.global = st.global
    | .err o _ => Doc o := by
  cases k with
  | zero => simp [evalNumOr]; trivial
  | succ n =>
    unfold evalNumOr
    have key : ∀ e, Typed (lookupG Gs Gg) e .num →
        (match (match evalE ops ext prog n e st with
          | .err o st' => (.err o st' : Res F F)
          | .ok (.num v) st' => .ok v st'
          | .ok _ st' => .err (.internal "ErrType: expected number") st') with
        | .ok _ st' => ∃ S', Grows S S' ∧ StOk S' Gs Gg st' ∧ st'.locals = st.locals ∧ st'.global = st.global
        | .err o _ => Doc o) := by
      intro e hte
      have h1 := eval_in ops ext prog Gg hx n hok e .num hte
      cases hq : evalE ops ext prog n e st with
      | err o s1 => rw [hq] at h1; exact h1
      | ok v s1 =>
        rw [hq] at h1
        obtain ⟨S1, g1, hok1, hv1, l1, gl1⟩ := h1
        obtain ⟨x, rfl⟩ := hv1.num_inv
        exact ⟨S1, g1, hok1, l1, gl1⟩
    cases oe with
    | none => exact key _ (.num d)
    | some e => exact key e (hty e rfl)

/-- the scope of the loop variable after the range has been evaluated -/
theorem loop_scope_ok {S : Store} {Gs : List SEnv} {st : St F} (hok : StOk S ([] :: Gs) Gg st) (lv : Option Str) (t : Ty)
    (hlv : ∀ n, lv = some n → n ≠ underscore) (z : Val F) (hz : VT S z t) :
    StOk S (loopScope lv t :: Gs) Gg (match lv with | some n => setVar st n z | none => st) := by
  cases lv with
  | none => exact hok
  | some n =>
    have hne := hlv n rfl
    have hl := hok.locals
    cases hl' : st.locals with
    | nil => rw [hl'] at hl; cases hl
    | cons sc scs =>
      rw [hl'] at hl
      cases hl with
      | cons hsc hrest =>
        cases hsc
        refine ⟨?_, ?_, ?_⟩
        · simp only [setVar, hne, if_false, hl', loopScope]
          exact .cons (.cons ⟨rfl, hz⟩ .nil) hrest
        · simp only [setVar, hne, if_false, hl']; exact hok.global
        · simp only [setVar, hne, if_false, hl']; exact hok.heap

/-- after the loop the scope of the loop variable is popped, whatever happened -/
theorem for_finish {S S1 : Store} {Gs : List SEnv} (lvs : SEnv) (g : Grows S S1) (r : Res F (Completion F))
    (h : GoodK Gg ρ S1 (lvs :: Gs) r) :
    GoodS Gg ρ S Gs Gs (match r with
      | .err o s' => .err o (popScope s')
      | .ok c s' => .ok c (popScope s')) := by
  cases r with
  | err o s => exact h
  | ok c s =>
    obtain ⟨S2, g2, hok, hc⟩ := h
    exact ⟨S2, Gs, g.trans g2, hok.pop Gg rfl (by simp), rfl, rfl, fun _ => rfl, hc⟩

def SoundS (fuel : Nat) : Prop :=
  (∀ (s : Stmt F) st Gs Gs' S, STyped Gg ρ Gs s Gs' → StOk S Gs Gg st →
      GoodS Gg ρ S Gs Gs' (execS ops ext prog fuel s st)) ∧
  (∀ (b : List (Stmt F)) st Gs S, BTyped Gg ρ Gs b → StOk S Gs Gg st →
      GoodB Gg ρ S Gs (execStmts ops ext prog fuel b st)) ∧
  (∀ (b : List (Stmt F)) st Gs S, BTyped Gg ρ Gs b → StOk S Gs Gg st →
      GoodB Gg ρ S Gs (execBlockNode ops ext prog fuel b st)) ∧
  (∀ (c : Expr F) (body : List (Stmt F)) st Gs S, Typed (lookupG Gs Gg) c .bool → BTyped Gg ρ ([] :: Gs) body → StOk S Gs Gg st →
      GoodC Gg ρ S Gs (execCond ops ext prog fuel c body st)) ∧
  (∀ (conds : List (Expr F × List (Stmt F))) (els : Option (List (Stmt F))) st Gs S,
      (∀ c ∈ conds, Typed (lookupG Gs Gg) c.1 .bool) → (∀ c ∈ conds, BTyped Gg ρ ([] :: Gs) c.2) →
      (∀ b, els = some b → BTyped Gg ρ ([] :: Gs) b) → StOk S Gs Gg st →
      GoodK Gg ρ S Gs (execIfChain ops ext prog fuel conds els st)) ∧
  (∀ (c : Expr F) (body : List (Stmt F)) st Gs S, Typed (lookupG Gs Gg) c .bool → BTyped Gg ρ ([] :: Gs) body → StOk S Gs Gg st →
      GoodK Gg ρ S Gs (execWhile ops ext prog fuel c body st)) ∧
  (∀ (lv : Option Str) (t : Ty) (r : Ranger F) (body : List (Stmt F)) st Gs S, (∀ n, lv = some n → n ≠ underscore) →
      RangerOk S r t → BTyped Gg ρ ([] :: loopScope lv t :: Gs) body → StOk S (loopScope lv t :: Gs) Gg st →
      GoodK Gg ρ S (loopScope lv t :: Gs)
        (execForLoop ops ext prog fuel (match lv with | some n => n | none => underscore) r body st))

theorem GoodK.grow {S S1 : Store} {Gs : List SEnv} {r : Res F (Completion F)} (h : GoodK Gg ρ S1 Gs r) (g : Grows S S1) :
    GoodK Gg ρ S Gs r := by
  cases r with
  | err o s => exact h
  | ok c s => obtain ⟨S', g', hok, hc⟩ := h; exact ⟨S', g.trans g', hok, hc⟩

theorem GoodK.toS {S : Store} {Gs : List SEnv} {r : Res F (Completion F)} (h : GoodK Gg ρ S Gs r) : GoodS Gg ρ S Gs Gs r := by
  cases r with
  | err o s => exact h
  | ok c s => obtain ⟨S', g, hok, hc⟩ := h; exact ⟨S', Gs, g, hok, rfl, rfl, fun _ => rfl, hc⟩

theorem lookupG_ne_underscore {Gs : List SEnv} {n : Str} {t : Ty} (h : lookupG Gs Gg n = some t) : n ≠ underscore := by
  intro e; subst e; simp [lookupG] at h

theorem soundS (hx : ExtOk ext) (fuel : Nat) : SoundS ops ext prog Gg ρ fuel := by
  induction fuel with
  | zero =>
    refine ⟨?_, ?_, ?_, ?_, ?_, ?_, ?_⟩ <;> intros <;>
      simp [execS, execStmts, execBlockNode, execCond, execIfChain, execWhile, execForLoop, GoodS, GoodB, GoodK, GoodC, Doc]
  | succ n ih =>
    obtain ⟨ihS, ihB, ihN, ihC, ihI, ihW, ihF⟩ := ih
    refine ⟨?_, ?_, ?_, ?_, ?_, ?_, ?_⟩
    · -- one statement
      intro s st0 Gs Gs' S hty hok0
      unfold execS
      cases ht : tick st0 with
      | none => exact trivial
      | some st =>
        obtain ⟨th, tl, tg⟩ := tick_same ht
        have hok : StOk S Gs Gg st := hok0.same Gg th tl tg
        simp only
        cases hty with
        | noop => exact ⟨S, Gs, Grows.refl S, hok, rfl, rfl, fun _ => rfl, trivial⟩
        | brk => exact ⟨S, Gs, Grows.refl S, hok, rfl, rfl, (fun h => by cases h), trivial⟩
        | declLocal h rest nm e t hne hte =>
          simp only
          have h1 := eval_in ops ext prog Gg hx n hok e t hte
          cases hq : evalE ops ext prog n e st with
          | err o s1 => rw [hq] at h1; exact h1
          | ok v s1 =>
            rw [hq] at h1
            obtain ⟨S1, g1, hok1, hv1, l1, gl1⟩ := h1
            have hl := hok1.locals
            cases hl' : s1.locals with
            | nil => rw [hl'] at hl; cases hl
            | cons sc scs =>
              rw [hl'] at hl
              cases hl with
              | cons hsc hrest =>
                refine ⟨S1, senvSet h nm t :: rest, g1, ⟨?_, ?_, ?_⟩, rfl, rfl, fun _ => rfl, trivial⟩
                · simp only [setVar, hne, if_false, hl']
                  exact .cons (hsc.set nm v t hv1) hrest
                · simp only [setVar, hne, if_false, hl']; exact hok1.global
                · simp only [setVar, hne, if_false, hl']; exact hok1.heap
        | declGlobal nm e t hne hg hte =>
          simp only
          have h1 := eval_in ops ext prog Gg hx n hok e t hte
          cases hq : evalE ops ext prog n e st with
          | err o s1 => rw [hq] at h1; exact h1
          | ok v s1 =>
            rw [hq] at h1
            obtain ⟨S1, g1, hok1, hv1, l1, gl1⟩ := h1
            have hl := hok1.locals
            cases hl' : s1.locals with
            | cons sc scs => rw [hl'] at hl; cases hl
            | nil =>
              refine ⟨S1, [], g1, ⟨?_, ?_, ?_⟩, rfl, rfl, fun _ => rfl, trivial⟩
              · simp only [setVar, hne, if_false, hl']; exact .nil
              · simp only [setVar, hne, if_false, hl']
                exact hok1.global.set nm v (fun t' ht' => by rw [hg] at ht'; cases ht'; exact hv1)
              · simp only [setVar, hne, if_false, hl']; exact hok1.heap
        | assignVar _ nm e t hlk hte =>
          simp only
          have hne := lookupG_ne_underscore Gg hlk
          have h1 := eval_in ops ext prog Gg hx n hok e t hte
          cases hq : evalE ops ext prog n e st with
          | err o s1 => rw [hq] at h1; exact h1
          | ok v s1 =>
            rw [hq] at h1
            obtain ⟨S1, g1, hok1, hv1, l1, gl1⟩ := h1
            simp only [updateVar, hne, if_false]
            simp only [lookupG, hne, if_false] at hlk
            have hu := hok1.locals.update nm v t hv1
            cases hf : List.findSome? (fun s => senvGet s nm) Gs with
            | some t' =>
              rw [hf] at hlk; simp only at hlk; cases hlk
              obtain ⟨l', hl', hokl⟩ := hu.1 hf
              rw [hl']
              exact ⟨S1, Gs, g1, ⟨hokl, hok1.global, hok1.heap⟩, rfl, rfl, fun _ => rfl, trivial⟩
            | none =>
              rw [hf] at hlk; simp only at hlk
              rw [hu.2 hf]
              by_cases hs : (scopeGet s1.global nm).isSome = true
              · simp only [hs, if_true]
                exact ⟨S1, Gs, g1, ⟨hok1.locals, hok1.global.set nm v (fun t' ht' => by rw [hlk] at ht'; cases ht'; exact hv1), hok1.heap⟩,
                  rfl, rfl, fun _ => rfl, trivial⟩
              · simp only [hs]
                exact trivial
        | assignIdxArr _ l i e s hl hi hte =>
          simp only
          have h1 := eval_in ops ext prog Gg hx n hok e s hte
          cases hq : evalE ops ext prog n e st with
          | err o s1 => rw [hq] at h1; exact h1
          | ok v s1 =>
            rw [hq] at h1
            obtain ⟨S1, g1, hok1, hv1, _, _⟩ := h1
            simp only
            have h2 := eval_in ops ext prog Gg hx n hok1 l _ hl
            cases hq2 : evalE ops ext prog n l s1 with
            | err o s2 => rw [hq2] at h2; exact h2
            | ok left s2 =>
              rw [hq2] at h2
              obtain ⟨S2, g2, hok2, hv2, _, _⟩ := h2
              simp only
              have h3 := eval_in ops ext prog Gg hx n hok2 i _ hi
              cases hq3 : evalE ops ext prog n i s2 with
              | err o s3 => rw [hq3] at h3; exact h3
              | ok idx s3 =>
                rw [hq3] at h3
                obtain ⟨S3, g3, hok3, hv3, _, _⟩ := h3
                obtain ⟨a, rfl, ha⟩ := (hv2.mono g3).arr_inv
                obtain ⟨iv, rfl⟩ := hv3.num_inv
                obtain ⟨es, hes, hest⟩ := hok3.heap.arr a s ha
                simp only [heapGet, hes]
                cases hsi : setIndexList ops es iv v with
                | error er => cases er <;> exact trivial
                | ok o =>
                  cases o with
                  | none => exact absurd hsi (setIndex_never_gopanic ops es iv v)
                  | some es' =>
                    refine ⟨S3, Gs, (g1.trans g2).trans g3, ⟨hok3.locals, hok3.global, ?_⟩, rfl, rfl, fun _ => rfl, trivial⟩
                    exact hok3.heap.set_arr a s ha es' (setIndex_typed ops es es' iv v hest ((hv1.mono g2).mono g3) hsi)
        | assignIdxMap _ l i e s hl hi hte =>
          simp only
          have h1 := eval_in ops ext prog Gg hx n hok e s hte
          cases hq : evalE ops ext prog n e st with
          | err o s1 => rw [hq] at h1; exact h1
          | ok v s1 =>
            rw [hq] at h1
            obtain ⟨S1, g1, hok1, hv1, _, _⟩ := h1
            simp only
            have h2 := eval_in ops ext prog Gg hx n hok1 l _ hl
            cases hq2 : evalE ops ext prog n l s1 with
            | err o s2 => rw [hq2] at h2; exact h2
            | ok left s2 =>
              rw [hq2] at h2
              obtain ⟨S2, g2, hok2, hv2, _, _⟩ := h2
              simp only
              have h3 := eval_in ops ext prog Gg hx n hok2 i _ hi
              cases hq3 : evalE ops ext prog n i s2 with
              | err o s3 => rw [hq3] at h3; exact h3
              | ok idx s3 =>
                rw [hq3] at h3
                obtain ⟨S3, g3, hok3, hv3, _, _⟩ := h3
                obtain ⟨a, rfl, ha⟩ := (hv2.mono g3).map_inv
                obtain ⟨k, rfl⟩ := hv3.str_inv
                obtain ⟨m, hm, hmt⟩ := hok3.heap.map a s ha
                simp only [heapGet, hm]
                refine ⟨S3, Gs, (g1.trans g2).trans g3, ⟨hok3.locals, hok3.global, ?_⟩, rfl, rfl, fun _ => rfl, trivial⟩
                exact hok3.heap.set_map a s ha _ (setKey_typed m k v hmt ((hv1.mono g2).mono g3))
        | assignDot _ l key e s hl hte =>
          simp only
          have h1 := eval_in ops ext prog Gg hx n hok e s hte
          cases hq : evalE ops ext prog n e st with
          | err o s1 => rw [hq] at h1; exact h1
          | ok v s1 =>
            rw [hq] at h1
            obtain ⟨S1, g1, hok1, hv1, _, _⟩ := h1
            simp only
            have h2 := eval_in ops ext prog Gg hx n hok1 l _ hl
            cases hq2 : evalE ops ext prog n l s1 with
            | err o s2 => rw [hq2] at h2; exact h2
            | ok left s2 =>
              rw [hq2] at h2
              obtain ⟨S2, g2, hok2, hv2, _, _⟩ := h2
              obtain ⟨a, rfl, ha⟩ := hv2.map_inv
              obtain ⟨m, hm, hmt⟩ := hok2.heap.map a s ha
              simp only [heapGet, hm]
              refine ⟨S2, Gs, g1.trans g2, ⟨hok2.locals, hok2.global, ?_⟩, rfl, rfl, fun _ => rfl, trivial⟩
              exact hok2.heap.set_map a s ha _ (setKey_typed m key v hmt (hv1.mono g2))
        | retNone _ hr => exact ⟨S, Gs, Grows.refl S, hok, rfl, rfl, (fun h => by cases h), hr⟩
        | retSome _ e t hr hte =>
          simp only
          have h1 := eval_in ops ext prog Gg hx n hok e t hte
          cases hq : evalE ops ext prog n e st with
          | err o s1 => rw [hq] at h1; exact h1
          | ok v s1 =>
            rw [hq] at h1
            obtain ⟨S1, g1, hok1, hv1, _, _⟩ := h1
            exact ⟨S1, Gs, g1, hok1, rfl, rfl, (fun h => by cases h), ⟨t, hr, hv1⟩⟩
        | ifS _ conds els hc hb he => exact (ihI conds els st Gs S hc hb he hok).toS Gg ρ
        | whileS _ c body hc hb => exact (ihW c body st Gs S hc hb hok).toS Gg ρ
        | forStep _ lv lvTy start stop step body hlv hstart hstop hstep hbody =>
          simp only
          have hp := hok.push Gg
          have e1 : lookupG ([] :: Gs) Gg = lookupG Gs Gg := lookupG_push Gs Gg
          have h1 := numOr_in ops ext prog Gg hx n hp start ops.zero (by rw [e1]; exact hstart)
          cases hq : evalNumOr ops ext prog n start ops.zero (pushScope st) with
          | err o s1 => rw [hq] at h1; exact h1
          | ok a s1 =>
            rw [hq] at h1
            obtain ⟨S1, g1, hok1, _, _⟩ := h1
            simp only
            have h2 := numOr_in ops ext prog Gg hx n hok1 (some stop) ops.zero (by intro x hx'; cases hx'; rw [e1]; exact hstop)
            cases hq2 : evalNumOr ops ext prog n (some stop) ops.zero s1 with
            | err o s2 => rw [hq2] at h2; exact h2
            | ok b s2 =>
              rw [hq2] at h2
              obtain ⟨S2, g2, hok2, _, _⟩ := h2
              simp only
              have h3 := numOr_in ops ext prog Gg hx n hok2 step ops.one (by rw [e1]; exact hstep)
              cases hq3 : evalNumOr ops ext prog n step ops.one s2 with
              | err o s3 => rw [hq3] at h3; exact h3
              | ok c s3 =>
                rw [hq3] at h3
                obtain ⟨S3, g3, hok3, _, _⟩ := h3
                by_cases hc : ops.eq c ops.zero = true
                · simp only [hc, if_true]; exact trivial
                · simp only [hc]
                  have hls := loop_scope_ok Gg hok3 lv .num hlv (.num ops.zero) (.num _)
                  have hf := ihF lv .num (.step a b c) body _ Gs S3 hlv rfl hbody hls
                  exact for_finish Gg ρ _ ((g1.trans g2).trans g3) _ hf
        | forArr _ lv e s body hlv he hbody =>
          simp only
          have hp := hok.push Gg
          have e1 : lookupG ([] :: Gs) Gg = lookupG Gs Gg := lookupG_push Gs Gg
          have h1 := eval_in ops ext prog Gg hx n hp e (.arr s) (by rw [e1]; exact he)
          cases hq : evalE ops ext prog n e (pushScope st) with
          | err o s1 => rw [hq] at h1; exact h1
          | ok v s1 =>
            rw [hq] at h1
            obtain ⟨S1, g1, hok1, hv1, _, _⟩ := h1
            obtain ⟨a, rfl, ha⟩ := hv1.arr_inv
            have hs : Reg s = true := by have := hok1.heap.reg _ (List.mem_of_getElem? ha); simpa [Reg] using this
            simp only
            cases lv with
            | none =>
              have hf := ihF none s (.arr a 0) body s1 Gs S1 hlv ha hbody hok1
              exact for_finish Gg ρ _ g1 _ hf
            | some nm =>
              obtain ⟨S2, g2, hk2, hz, zl, zg⟩ := zeroVal_typed ops hok1.heap s hs
              have hok2 : StOk S2 ([] :: Gs) Gg (zeroVal ops s1 s).2 := hok1.mono g2 hk2 zl zg
              have hls := loop_scope_ok Gg hok2 (some nm) s hlv _ hz
              have hf := ihF (some nm) s (.arr a 0) body _ Gs S2 hlv (g2.get ha) hbody hls
              exact for_finish Gg ρ _ (g1.trans g2) _ hf
        | forStr _ lv lvTy e body hlv he hbody =>
          simp only
          have hp := hok.push Gg
          have e1 : lookupG ([] :: Gs) Gg = lookupG Gs Gg := lookupG_push Gs Gg
          have h1 := eval_in ops ext prog Gg hx n hp e .str (by rw [e1]; exact he)
          cases hq : evalE ops ext prog n e (pushScope st) with
          | err o s1 => rw [hq] at h1; exact h1
          | ok v s1 =>
            rw [hq] at h1
            obtain ⟨S1, g1, hok1, hv1, _, _⟩ := h1
            obtain ⟨cs, rfl⟩ := hv1.str_inv
            simp only
            have hls := loop_scope_ok Gg hok1 lv .str hlv (.str []) (.str _)
            have hf := ihF lv .str (.str cs 0) body _ Gs S1 hlv rfl hbody hls
            exact for_finish Gg ρ _ g1 _ hf
        | forMap _ lv lvTy e s body hlv he hbody =>
          simp only
          have hp := hok.push Gg
          have e1 : lookupG ([] :: Gs) Gg = lookupG Gs Gg := lookupG_push Gs Gg
          have h1 := eval_in ops ext prog Gg hx n hp e (.map s) (by rw [e1]; exact he)
          cases hq : evalE ops ext prog n e (pushScope st) with
          | err o s1 => rw [hq] at h1; exact h1
          | ok v s1 =>
            rw [hq] at h1
            obtain ⟨S1, g1, hok1, hv1, _, _⟩ := h1
            obtain ⟨a, rfl, ha⟩ := hv1.map_inv
            obtain ⟨m, hm, _⟩ := hok1.heap.map a s ha
            simp only [heapGet, hm]
            have hls := loop_scope_ok Gg hok1 lv .str hlv (.str []) (.str _)
            have hf := ihF lv .str (.map a m.order) body _ Gs S1 hlv rfl hbody hls
            exact for_finish Gg ρ _ g1 _ hf
        | print _ args hargs =>
          simp only
          cases n with
          | zero => exact trivial
          | succ k =>
            unfold evalCall
            have h1 := (sound ops ext prog hx k).2.2.2.2 args st (lookupG Gs Gg) S hargs hok.heap hok.envOk
            cases hq : evalList ops ext prog k args st with
            | err o s1 => rw [hq] at h1; exact h1
            | ok vs s1 =>
              rw [hq] at h1
              obtain ⟨S1, g1, hk1, _, l1, gl1⟩ := h1
              simp only [print_builtin]
              have hnt : ¬ (String.ofList (lit "print") = "test") := by decide
              simp only [hnt, if_false]
              cases joinVals ops s1 vs [' '] with
              | none => exact trivial
              | some str =>
                exact ⟨S1, Gs, g1, (hok.mono g1 hk1 l1 gl1).same Gg rfl rfl rfl, rfl, rfl, fun _ => rfl, trivial⟩
    · -- a statement list
      intro b st Gs S hty hok
      cases hty with
      | nil => exact ⟨S, Gs, Grows.refl S, hok, rfl, rfl, trivial⟩
      | cons _ Gs' s rest hs hrest =>
        unfold execStmts
        have h1 := ihS s st Gs Gs' S hs hok
        cases hq : execS ops ext prog n s st with
        | err o s1 => rw [hq] at h1; exact h1
        | ok c s1 =>
          rw [hq] at h1
          obtain ⟨S1, Gx, g1, hok1, ht, hlen, hn, hc⟩ := h1
          cases c with
          | normal =>
            have := hn rfl; subst this
            have h2 := ihB rest s1 Gx S1 hrest hok1
            simp only
            cases hq2 : execStmts ops ext prog n rest s1 with
            | err o s2 => rw [hq2] at h2; exact h2
            | ok c2 s2 =>
              rw [hq2] at h2
              obtain ⟨S2, Gy, g2, hok2, ht2, hlen2, hc2⟩ := h2
              exact ⟨S2, Gy, g1.trans g2, hok2, ht2.trans ht, hlen2.trans hlen, hc2⟩
          | brk => exact ⟨S1, Gx, g1, hok1, ht, hlen, hc⟩
          | ret v => exact ⟨S1, Gx, g1, hok1, ht, hlen, hc⟩
    · -- a block node
      intro b st0 Gs S hty hok0
      unfold execBlockNode
      cases ht : tick st0 with
      | none => exact trivial
      | some st =>
        obtain ⟨th, tl, tg⟩ := tick_same ht
        exact ihB b st Gs S hty (hok0.same Gg th tl tg)
    · -- a conditional block
      intro c body st Gs S hc hb hok
      unfold execCond
      simp only
      have hc' : Typed (lookupG ([] :: Gs) Gg) c .bool := by rw [lookupG_push]; exact hc
      have h1 := eval_in ops ext prog Gg hx n (hok.push Gg) c .bool hc'
      cases hq : evalE ops ext prog n c (pushScope st) with
      | err o s1 => rw [hq] at h1; exact h1
      | ok v s1 =>
        rw [hq] at h1
        obtain ⟨S1, g1, hok1, hv1, _, _⟩ := h1
        obtain ⟨bv, rfl⟩ := hv1.bool_inv
        cases bv with
        | false =>
          exact ⟨S1, g1, hok1.pop Gg rfl (by simp), trivial⟩
        | true =>
          simp only
          have h2 := ihN body s1 ([] :: Gs) S1 hb hok1
          have h3 := pop_block Gg ρ g1 _ h2
          cases hq2 : execBlockNode ops ext prog n body s1 with
          | err o s2 => rw [hq2] at h3; exact h3
          | ok c2 s2 => rw [hq2] at h3; exact h3
    · -- the if chain
      intro conds els st Gs S hc hb he hok
      cases conds with
      | nil =>
        unfold execIfChain
        cases els with
        | none => exact ⟨S, Grows.refl S, hok, trivial⟩
        | some body =>
          simp only
          have h2 := ihN body (pushScope st) ([] :: Gs) S (he body rfl) (hok.push Gg)
          have h3 := pop_block Gg ρ (Grows.refl S) _ h2
          cases hq2 : execBlockNode ops ext prog n body (pushScope st) with
          | err o s2 => rw [hq2] at h3; exact h3
          | ok c2 s2 => rw [hq2] at h3; exact h3
      | cons cb rest =>
        obtain ⟨c, body⟩ := cb
        unfold execIfChain
        have h1 := ihC c body st Gs S (hc (c, body) List.mem_cons_self) (hb (c, body) List.mem_cons_self) hok
        cases hq : execCond ops ext prog n c body st with
        | err o s1 => rw [hq] at h1; exact h1
        | ok r s1 =>
          rw [hq] at h1
          obtain ⟨comp, taken⟩ := r
          obtain ⟨S1, g1, hok1, hc1⟩ := h1
          cases taken with
          | true => exact ⟨S1, g1, hok1, hc1⟩
          | false =>
            simp only
            have h2 := ihI rest els s1 Gs S1 (fun x hx => hc x (List.mem_cons_of_mem _ hx)) (fun x hx => hb x (List.mem_cons_of_mem _ hx)) he hok1
            cases hq2 : execIfChain ops ext prog n rest els s1 with
            | err o s2 => rw [hq2] at h2; exact h2
            | ok c2 s2 =>
              rw [hq2] at h2
              obtain ⟨S2, g2, hok2, hc2⟩ := h2
              exact ⟨S2, g1.trans g2, hok2, hc2⟩
    · -- while
      intro c body st Gs S hc hb hok
      unfold execWhile
      have h1 := ihC c body st Gs S hc hb hok
      cases hq : execCond ops ext prog n c body st with
      | err o s1 => rw [hq] at h1; exact h1
      | ok r s1 =>
        rw [hq] at h1
        obtain ⟨comp, taken⟩ := r
        obtain ⟨S1, g1, hok1, hc1⟩ := h1
        cases taken with
        | false => exact ⟨S1, g1, hok1, trivial⟩
        | true =>
          cases comp with
          | brk => exact ⟨S1, g1, hok1, trivial⟩
          | ret v => exact ⟨S1, g1, hok1, hc1⟩
          | normal =>
            simp only
            have h2 := ihW c body s1 Gs S1 hc hb hok1
            cases hq2 : execWhile ops ext prog n c body s1 with
            | err o s2 => rw [hq2] at h2; exact h2
            | ok c2 s2 =>
              rw [hq2] at h2
              obtain ⟨S2, g2, hok2, hc2⟩ := h2
              exact ⟨S2, g1.trans g2, hok2, hc2⟩

    · -- the loop of a for statement
      intro lv t r body st Gs S hlv hr hb hok
      unfold execForLoop
      cases hn : rangerNext ops st r with
      | none => exact ⟨S, Grows.refl S, hok, trivial⟩
      | some p =>
        obtain ⟨v, r'⟩ := p
        obtain ⟨hv, hr'⟩ := rangerNext_typed ops hok.heap r r' t v hr hn
        simp only
        -- rebinding the loop variable
        have hupd : ∃ st1, updateVar st (match lv with | some n => n | none => underscore) v = some st1 ∧
            StOk S (loopScope lv t :: Gs) Gg st1 := by
          cases lv with
          | none => exact ⟨st, by simp [updateVar], hok⟩
          | some nm =>
            have hne := hlv nm rfl
            have hu := (hok.locals.update nm v t hv).1 (by simp [loopScope, List.findSome?_cons, senvGet, List.lookup])
            obtain ⟨l', hl', hokl⟩ := hu
            exact ⟨{ st with locals := l' }, by simp only [updateVar, hne, if_false, hl'], ⟨hokl, hok.global, hok.heap⟩⟩
        obtain ⟨st1, hu1, hok1⟩ := hupd
        rw [hu1]
        simp only
        have h2 := ihN body (pushScope st1) ([] :: loopScope lv t :: Gs) S hb (hok1.push Gg)
        have h3 := pop_block Gg ρ (Grows.refl S) _ h2
        cases hq2 : execBlockNode ops ext prog n body (pushScope st1) with
        | err o s2 => rw [hq2] at h3; exact h3
        | ok c2 s2 =>
          rw [hq2] at h3
          obtain ⟨S2, g2, hok2, hc2⟩ := h3
          cases c2 with
          | brk => exact ⟨S2, g2, hok2, trivial⟩
          | ret rv => exact ⟨S2, g2, hok2, hc2⟩
          | normal =>
            simp only
            exact (ihF lv t r' body (popScope s2) Gs S2 hlv (hr'.mono g2) hb hok2).grow Gg ρ g2

/-- **type soundness, statements**: a well-typed statement list run for any number of steps in a
well-typed state ends in a well-typed state (outer scopes as typed, a returned value of the result
type) or in a documented outcome -/
theorem stmt_sound (hx : ExtOk ext) (fuel : Nat) (b : List (Stmt F)) (st : St F) (Gs : List SEnv) (S : Store)
    (hty : BTyped Gg ρ Gs b) (hok : StOk S Gs Gg st) :
    match execStmts ops ext prog fuel b st with
    | .ok c st' => ∃ S' Gx, Grows S S' ∧ StOk S' Gx Gg st' ∧ Gx.tail = Gs.tail ∧ Gx.length = Gs.length ∧ ComplOk S' ρ c
    | .err o _ => Doc o := by
  have h := (soundS ops ext prog Gg ρ hx fuel).2.1 b st Gs S hty hok
  cases hq : execStmts ops ext prog fuel b st with
  | err o s => rw [hq] at h; exact h
  | ok c s => rw [hq] at h; exact h

/-- well-typed statements never end with an internal error or a Go panic -/
theorem stmts_never_go_wrong (hx : ExtOk ext) (fuel : Nat) (b : List (Stmt F)) (st st' : St F) (Gs : List SEnv) (S : Store)
    (hty : BTyped Gg ρ Gs b) (hok : StOk S Gs Gg st) (w : String) :
    execStmts ops ext prog fuel b st ≠ .err (.internal w) st' ∧ execStmts ops ext prog fuel b st ≠ .err (.goPanic w) st' := by
  have h := stmt_sound ops ext prog Gg ρ hx fuel b st Gs S hty hok
  constructor <;> intro hq <;> rw [hq] at h <;> exact h

end EvyV.TS
