import EvyV.Props.C02Sound
/-!
C02: type soundness of the evaluator model — the state invariant (scopes mirror the static scopes,
globals and heap objects have their declared types), binding, rebinding and element stores, and the
result predicates of statements (the lemmas the induction of Props/C02Full.lean uses).
-/
namespace EvyV.TS
open EvyV

variable {F : Type} (ops : NumOps F) (ext : Ext F) (prog : Program F)

/-! ### the state invariant -/

theorem All2.imp {α β : Type} {R Q : α → β → Prop} (h : ∀ a b, R a b → Q a b) {as : List α} {bs : List β}
    (r : All2 R as bs) : All2 Q as bs := by
  induction r with
  | nil => exact .nil
  | cons hab _ ih => exact .cons (h _ _ hab) ih

theorem ScOk.mono {S S' : Store} (g : Grows S S') {e : SEnv} {sc : Scope F} (h : ScOk S e sc) : ScOk S' e sc :=
  All2.imp (fun _ _ ⟨a, b⟩ => ⟨a, b.mono g⟩) h

theorem LocalsOk.mono {S S' : Store} (g : Grows S S') {Gs : List SEnv} {l : List (Scope F)} (h : LocalsOk S Gs l) : LocalsOk S' Gs l :=
  All2.imp (fun _ _ r => ScOk.mono g r) h

theorem GlobalOk.mono {S S' : Store} (g : Grows S S') {Gg : Env} {gl : Scope F} (h : GlobalOk S Gg gl) : GlobalOk S' Gg gl :=
  fun p hp t ht => (h p hp t ht).mono g

/-- scope lookups agree -/
theorem ScOk.get {S : Store} {e : SEnv} {sc : Scope F} (h : ScOk S e sc) (n : Str) :
    (scopeGet sc n = none ∧ senvGet e n = none) ∨ (∃ v t, scopeGet sc n = some v ∧ senvGet e n = some t ∧ VT S v t) := by
  induction h with
  | nil => left; exact ⟨rfl, rfl⟩
  | @cons p q ps qs hab _ ih =>
    obtain ⟨k, v⟩ := p
    obtain ⟨k', t⟩ := q
    obtain ⟨hk, hv⟩ := hab
    simp only at hk hv
    subst hk
    simp only [scopeGet, senvGet, List.lookup]
    cases hq : (n == k) with
    | true => right; exact ⟨v, t, rfl, rfl, hv⟩
    | false => simpa [scopeGet, senvGet] using ih

theorem LocalsOk.get {S : Store} {Gs : List SEnv} {l : List (Scope F)} (h : LocalsOk S Gs l) (n : Str) :
    (l.findSome? (fun s => scopeGet s n) = none ∧ Gs.findSome? (fun s => senvGet s n) = none) ∨
    (∃ v t, l.findSome? (fun s => scopeGet s n) = some v ∧ Gs.findSome? (fun s => senvGet s n) = some t ∧ VT S v t) := by
  induction h with
  | nil => left; exact ⟨rfl, rfl⟩
  | cons hab _ ih =>
    simp only [List.findSome?_cons]
    rcases hab.get n with ⟨h1, h2⟩ | ⟨v, t, h1, h2, hv⟩
    · rw [h1, h2]; exact ih
    · rw [h1, h2]; right; exact ⟨v, t, rfl, rfl, hv⟩

theorem mem_of_scopeGet (sc : Scope F) (n : Str) (v : Val F) (h : scopeGet sc n = some v) : (n, v) ∈ sc :=
  lookup_mem n sc v h

theorem StOk.envOk {S : Store} {Gs : List SEnv} {Gg : Env} {st : St F} (h : StOk S Gs Gg st) : EnvOk S (lookupG Gs Gg) st := by
  intro n t v hG hv
  unfold lookupG at hG
  unfold getVar at hv
  split at hG
  · cases hG
  · rename_i hne
    simp only [hne, if_false] at hv
    rcases h.locals.get n with ⟨h1, h2⟩ | ⟨w, t', h1, h2, hw⟩
    · rw [h1] at hv; rw [h2] at hG
      simp only at hv hG
      exact h.global (n, v) (mem_of_scopeGet _ _ _ hv) t hG
    · rw [h1] at hv; rw [h2] at hG
      simp only at hv hG
      cases hv; cases hG; exact hw

theorem StOk.mono {S S' : Store} (g : Grows S S') {Gs : List SEnv} {Gg : Env} {st st' : St F} (h : StOk S Gs Gg st)
    (hk : HeapOk S' st'.heap) (hl : st'.locals = st.locals) (hg : st'.global = st.global) : StOk S' Gs Gg st' :=
  ⟨by rw [hl]; exact h.locals.mono g, by rw [hg]; exact h.global.mono g, hk⟩

theorem lookupG_push (Gs : List SEnv) (Gg : Env) : lookupG ([] :: Gs) Gg = lookupG Gs Gg := by
  funext n
  simp [lookupG, senvGet, List.findSome?_cons]

/-! ### binding and rebinding -/

theorem ScOk.set {S : Store} {e : SEnv} {sc : Scope F} (h : ScOk S e sc) (n : Str) (v : Val F) (t : Ty) (hv : VT S v t) :
    ScOk S (senvSet e n t) (scopeSet sc n v) := by
  induction h with
  | nil => exact .cons ⟨rfl, hv⟩ .nil
  | @cons p q ps qs hab hrest ih =>
    obtain ⟨k, w⟩ := p
    obtain ⟨k', t'⟩ := q
    obtain ⟨hk, hw⟩ := hab
    simp only at hk hw
    subst hk
    simp only [scopeSet, senvSet]
    split
    · exact .cons ⟨rfl, hv⟩ hrest
    · exact .cons ⟨rfl, hw⟩ ih

/-- rebinding a name the scope has, to a value of its type -/
theorem ScOk.update {S : Store} {e : SEnv} {sc : Scope F} (h : ScOk S e sc) (n : Str) (v : Val F) (t : Ty)
    (ht : senvGet e n = some t) (hv : VT S v t) : ScOk S e (scopeSet sc n v) := by
  induction h with
  | nil => simp [senvGet] at ht
  | @cons p q ps qs hab hrest ih =>
    obtain ⟨k, w⟩ := p
    obtain ⟨k', t'⟩ := q
    obtain ⟨hk, hw⟩ := hab
    simp only at hk hw
    subst hk
    simp only [senvGet, List.lookup] at ht
    simp only [scopeSet]
    cases hq : (n == k) with
    | true =>
      have : k = n := by simpa using (beq_iff_eq.mp hq).symm
      rw [hq] at ht; simp only at ht; cases ht
      simp only [this, if_true]
      exact .cons ⟨this.symm ▸ rfl, hv⟩ hrest
    | false =>
      rw [hq] at ht
      have : ¬ k = n := by intro e; subst e; simp at hq
      simp only [this, if_false]
      exact .cons ⟨rfl, hw⟩ (ih (by simpa [senvGet] using ht))

theorem LocalsOk.update {S : Store} {Gs : List SEnv} {l : List (Scope F)} (h : LocalsOk S Gs l) (n : Str) (v : Val F) (t : Ty)
    (hv : VT S v t) :
    (Gs.findSome? (fun s => senvGet s n) = some t → ∃ l', updateLocals l n v = some l' ∧ LocalsOk S Gs l') ∧
    (Gs.findSome? (fun s => senvGet s n) = none → updateLocals l n v = none) := by
  induction h with
  | nil => constructor <;> intro h <;> simp [updateLocals] at h ⊢
  | @cons sc e scs es hab hrest ih =>
    simp only [List.findSome?_cons, updateLocals]
    rcases hab.get n with ⟨h1, h2⟩ | ⟨w, t', h1, h2, hw⟩
    · rw [h2]; simp only [h1, Option.isSome_none, Bool.false_eq_true, if_false]
      constructor
      · intro hf
        obtain ⟨l', hl', hok⟩ := ih.1 hf
        exact ⟨_, by rw [hl']; rfl, .cons hab hok⟩
      · intro hf; rw [ih.2 hf]; rfl
    · rw [h2]; simp only [h1, Option.isSome_some, if_true]
      constructor
      · intro hf; cases hf
        exact ⟨_, rfl, .cons (hab.update n v t h2 hv) hrest⟩
      · intro hf; cases hf

theorem mem_scopeSet (sc : Scope F) (n : Str) (v : Val F) (p : Str × Val F) (h : p ∈ scopeSet sc n v) : p = (n, v) ∨ p ∈ sc := by
  induction sc with
  | nil => simp [scopeSet] at h; exact Or.inl h
  | cons q rest ih =>
    obtain ⟨k, w⟩ := q
    simp only [scopeSet] at h
    split at h
    · rcases List.mem_cons.mp h with h | h
      · exact Or.inl h
      · exact Or.inr (List.mem_cons_of_mem _ h)
    · rcases List.mem_cons.mp h with h | h
      · exact Or.inr (h ▸ List.mem_cons_self)
      · rcases ih h with h | h
        · exact Or.inl h
        · exact Or.inr (List.mem_cons_of_mem _ h)

theorem GlobalOk.set {S : Store} {Gg : Env} {gl : Scope F} (h : GlobalOk S Gg gl) (n : Str) (v : Val F)
    (hv : ∀ t, Gg n = some t → VT S v t) : GlobalOk S Gg (scopeSet gl n v) := by
  intro p hp t ht
  rcases mem_scopeSet gl n v p hp with h' | h'
  · subst h'; exact hv t ht
  · exact h p h' t ht

/-! ### element stores -/

theorem HeapOk.set_arr {S : Store} {H : Array (Obj F)} (hk : HeapOk S H) (a : Nat) (s : Ty) (ha : S[a]? = some (.arr s))
    (es : List (Val F)) (hes : ∀ v ∈ es, VT S v s) : HeapOk S (H.setIfInBounds a (.arr es)) := by
  refine ⟨by simp [hk.size], hk.reg, ?_, ?_⟩
  · intro b s' hb
    by_cases hab : a = b
    · subst hab
      rw [ha] at hb; cases hb
      obtain ⟨es0, h0, _⟩ := hk.arr a s ha
      have hlt : a < H.size := by
        rcases Nat.lt_or_ge a H.size with h | h
        · exact h
        · rw [Array.getElem?_eq_none h] at h0; cases h0
      exact ⟨es, by simp [Array.getElem?_setIfInBounds, hlt], hes⟩
    · obtain ⟨es0, h0, h1⟩ := hk.arr b s' hb
      exact ⟨es0, by rw [Array.getElem?_setIfInBounds_ne hab]; exact h0, h1⟩
  · intro b s' hb
    by_cases hab : a = b
    · subst hab; rw [ha] at hb; cases hb
    · obtain ⟨m, h0, h1⟩ := hk.map b s' hb
      exact ⟨m, by rw [Array.getElem?_setIfInBounds_ne hab]; exact h0, h1⟩

theorem HeapOk.set_map {S : Store} {H : Array (Obj F)} (hk : HeapOk S H) (a : Nat) (s : Ty) (ha : S[a]? = some (.map s))
    (m : MapVal (Val F)) (hm : ∀ p ∈ m.pairs, VT S p.2 s) : HeapOk S (H.setIfInBounds a (.map m)) := by
  refine ⟨by simp [hk.size], hk.reg, ?_, ?_⟩
  · intro b s' hb
    by_cases hab : a = b
    · subst hab; rw [ha] at hb; cases hb
    · obtain ⟨es0, h0, h1⟩ := hk.arr b s' hb
      exact ⟨es0, by rw [Array.getElem?_setIfInBounds_ne hab]; exact h0, h1⟩
  · intro b s' hb
    by_cases hab : a = b
    · subst hab
      rw [ha] at hb; cases hb
      obtain ⟨m0, h0, _⟩ := hk.map a s ha
      have hlt : a < H.size := by
        rcases Nat.lt_or_ge a H.size with h | h
        · exact h
        · rw [Array.getElem?_eq_none h] at h0; cases h0
      exact ⟨m, by simp [Array.getElem?_setIfInBounds, hlt], hm⟩
    · obtain ⟨m0, h0, h1⟩ := hk.map b s' hb
      exact ⟨m0, by rw [Array.getElem?_setIfInBounds_ne hab]; exact h0, h1⟩

theorem setKey_typed {S : Store} {s : Ty} (m : MapVal (Val F)) (k : Key) (v : Val F) (hm : ∀ p ∈ m.pairs, VT S p.2 s) (hv : VT S v s) :
    ∀ p ∈ (m.setKey k v).pairs, VT S p.2 s := by
  unfold MapVal.setKey
  split <;> exact set_typed m.pairs k v hm hv

theorem setIndex_typed {S : Store} {s : Ty} (es es' : List (Val F)) (i : F) (v : Val F) (hes : ∀ x ∈ es, VT S x s) (hv : VT S v s)
    (h : setIndexList ops es i v = .ok (some es')) : ∀ x ∈ es', VT S x s := by
  unfold setIndexList at h
  split at h
  · cases h
  · split at h
    · simp at h; subst h
      intro x hx
      rcases List.mem_or_eq_of_mem_set hx with h | h
      · exact hes x h
      · subst h; exact hv
    · cases h

theorem setIndex_never_gopanic (es : List (Val F)) (i : F) (v : Val F) : setIndexList ops es i v ≠ .ok none := by
  intro h
  have := (C11.setIndex_same_domain ops es i v).2
  unfold setIndexList at h
  split at h
  · cases h
  · rename_i j hj
    have := (this j hj).2
    simp [this] at h

/-! ### results of statements -/

variable (Gg : Env) (ρ : Option Ty)

/-- a statement: on normal completion the scopes are `Gs'`; a break or return leaves the innermost
scope somewhere in between (it is about to be popped), the outer ones as they were -/
def GoodS (S : Store) (Gs Gs' : List SEnv) : Res F (Completion F) → Prop
  | .ok c st' => ∃ S' Gx, Grows S S' ∧ StOk S' Gx Gg st' ∧ Gx.tail = Gs.tail ∧ Gx.length = Gs.length ∧
      (c = .normal → Gx = Gs') ∧ ComplOk S' ρ c
  | .err o _ => Doc o

def GoodB (S : Store) (Gs : List SEnv) : Res F (Completion F) → Prop
  | .ok c st' => ∃ S' Gx, Grows S S' ∧ StOk S' Gx Gg st' ∧ Gx.tail = Gs.tail ∧ Gx.length = Gs.length ∧ ComplOk S' ρ c
  | .err o _ => Doc o

/-- constructs that leave the scopes exactly as they were -/
def GoodK (S : Store) (Gs : List SEnv) : Res F (Completion F) → Prop
  | .ok c st' => ∃ S', Grows S S' ∧ StOk S' Gs Gg st' ∧ ComplOk S' ρ c
  | .err o _ => Doc o

def GoodC (S : Store) (Gs : List SEnv) : Res F (Completion F × Bool) → Prop
  | .ok p st' => ∃ S', Grows S S' ∧ StOk S' Gs Gg st' ∧ ComplOk S' ρ p.1
  | .err o _ => Doc o

theorem ComplOk.mono {S S' : Store} (g : Grows S S') {c : Completion F} (h : ComplOk S ρ c) : ComplOk S' ρ c := by
  cases c with
  | normal => trivial
  | brk => trivial
  | ret v =>
    cases v with
    | none => exact h
    | some w => obtain ⟨t, h1, h2⟩ := h; exact ⟨t, h1, h2.mono g⟩

theorem StOk.same {S : Store} {Gs : List SEnv} {st st' : St F} (h : StOk S Gs Gg st)
    (hh : st'.heap = st.heap) (hl : st'.locals = st.locals) (hg : st'.global = st.global) : StOk S Gs Gg st' :=
  ⟨by rw [hl]; exact h.locals, by rw [hg]; exact h.global, by rw [hh]; exact h.heap⟩

theorem StOk.push {S : Store} {Gs : List SEnv} {st : St F} (h : StOk S Gs Gg st) : StOk S ([] :: Gs) Gg (pushScope st) :=
  ⟨.cons .nil h.locals, h.global, h.heap⟩

/-- leaving a block: the innermost scope goes, the others are as typed -/
theorem StOk.pop {S : Store} {Gs Gx : List SEnv} {st : St F} (h : StOk S Gx Gg st)
    (ht : Gx.tail = Gs) (hlen : Gx.length = Gs.length + 1) : StOk S Gs Gg (popScope st) := by
  cases Gx with
  | nil => simp at hlen
  | cons g rest =>
    simp only [List.tail_cons] at ht; subst ht
    have hl := h.locals
    cases hl' : st.locals with
    | nil => rw [hl'] at hl; cases hl
    | cons sc scs =>
      rw [hl'] at hl
      cases hl with
      | cons _ hrest => exact ⟨by simp only [popScope, hl', List.tail_cons]; exact hrest, h.global, h.heap⟩

/-- a block run in a scope of its own, which is popped whatever happens -/
theorem pop_block {S S1 : Store} {Gs : List SEnv} (g : Grows S S1) (r : Res F (Completion F))
    (h : GoodB Gg ρ S1 ([] :: Gs) r) :
    GoodK Gg ρ S Gs (match r with
      | .err o st' => .err o (popScope st')
      | .ok c st' => .ok c (popScope st')) := by
  cases r with
  | err o s => exact h
  | ok c s =>
    obtain ⟨S2, Gx, g2, hok, ht, hlen, hc⟩ := h
    exact ⟨S2, g.trans g2, hok.pop Gg (by simpa using ht) (by simpa using hlen), hc⟩

theorem print_builtin (vs : List (Val F)) (st : St F) :
    callBuiltin ops ext (lit "print") vs st = some (match joinVals ops st vs [' '] with
      | some s => .ok .none (emit st (.print (s ++ ['\n'])))
      | none => .err .timeout st) := by
  simp [callBuiltin, isBuiltin, builtinNames, lit]
  cases joinVals ops st vs [' '] <;> rfl

/-! ### for loops -/

/-- the ranger yields values of the loop variable's type -/
def RangerOk (S : Store) : Ranger F → Ty → Prop
  | .step _ _ _, t => t = .num
  | .arr a _, t => S[a]? = some (.arr t)
  | .str _ _, t => t = .str
  | .map _ _, t => t = .str

theorem RangerOk.mono {S S' : Store} (g : Grows S S') {r : Ranger F} {t : Ty} (h : RangerOk S r t) : RangerOk S' r t := by
  cases r with
  | step _ _ _ => exact h
  | arr a c => exact g.get h
  | str _ _ => exact h
  | map _ _ => exact h

theorem rangerNext_typed {S : Store} {st : St F} (hk : HeapOk S st.heap) (r r' : Ranger F) (t : Ty) (v : Val F)
    (hr : RangerOk S r t) (h : rangerNext ops st r = some (v, r')) : VT S v t ∧ RangerOk S r' t := by
  cases r with
  | step cur stop step =>
    have ht : t = .num := hr
    subst ht
    simp only [rangerNext] at h
    split at h
    · cases h
    · split at h
      · cases h
      · simp at h; obtain ⟨rfl, rfl⟩ := h; exact ⟨.num _, rfl⟩
  | arr a cur =>
    have ha : S[a]? = some (.arr t) := hr
    obtain ⟨es, he, hes⟩ := hk.arr a t ha
    simp only [rangerNext, heapGet, he] at h
    split at h
    · rename_i w hw
      simp at h; obtain ⟨rfl, rfl⟩ := h
      exact ⟨hes _ (List.mem_of_getElem? hw), ha⟩
    · cases h
  | str rs cur =>
    have ht : t = .str := hr
    subst ht
    simp only [rangerNext] at h
    split at h
    · simp at h; obtain ⟨rfl, rfl⟩ := h; exact ⟨.str _, rfl⟩
    · cases h
  | map a order =>
    have ht : t = .str := hr
    subst ht
    simp only [rangerNext] at h
    split at h
    · cases hn : nextPresent ‹MapVal (Val F)› order with
      | none => rw [hn] at h; cases h
      | some p => rw [hn] at h; simp at h; obtain ⟨rfl, rfl⟩ := h; exact ⟨.str _, rfl⟩
    · cases h

/-- the zero value of a loop variable has the variable's type -/
theorem zeroVal_typed {S : Store} {st : St F} (hk : HeapOk S st.heap) (s : Ty) (hs : Reg s = true) :
    ∃ S', Grows S S' ∧ HeapOk S' (zeroVal ops st s).2.heap ∧ VT S' (zeroVal ops st s).1 s ∧
      (zeroVal ops st s).2.locals = st.locals ∧ (zeroVal ops st s).2.global = st.global := by
  cases s with
  | num => exact ⟨S, Grows.refl S, hk, .num _, rfl, rfl⟩
  | str => exact ⟨S, Grows.refl S, hk, .str _, rfl, rfl⟩
  | bool => exact ⟨S, Grows.refl S, hk, .bool _, rfl, rfl⟩
  | any => exact ⟨S, Grows.refl S, hk, .any .bool _ (by simp) (.bool _), rfl, rfl⟩
  | arr t =>
    obtain ⟨hk', vt⟩ := hk.push_arr t (by simpa [Reg] using hs) [] (by intro v hv; cases hv)
    exact ⟨_, Grows.snoc S _, hk', vt, rfl, rfl⟩
  | map t =>
    obtain ⟨hk', vt⟩ := hk.push_map t (by simpa [Reg] using hs) MapVal.empty (by intro v hv; cases hv)
    exact ⟨_, Grows.snoc S _, hk', vt, rfl, rfl⟩
  | none => simp [Reg] at hs
  | earr => simp [Reg] at hs
  | emap => simp [Reg] at hs
  | garr => simp [Reg] at hs
  | gmap => simp [Reg] at hs

/-! ### the induction -/

/-- the scope of the loop variable after the range has been evaluated -/
theorem loop_scope_ok {S : Store} {Gs : List SEnv} {st : St F} (hok : StOk S ([] :: Gs) Gg st) (lv : Option Str) (t : Ty)
    (hlv : ∀ n, lv = some n → n ≠ underscore) (z : Val F) (hz : VT S z t) :
    StOk S (loopScope lv t :: Gs) Gg (match lv with | some n => setVar st n z | none => st) := by
  cases lv with
  | none => exact hok
  | some n =>
    have hne := hlv n rfl
    have hl := hok.locals
    cases hl' : st.locals with
    | nil => rw [hl'] at hl; cases hl
    | cons sc scs =>
      rw [hl'] at hl
      cases hl with
      | cons hsc hrest =>
        cases hsc
        refine ⟨?_, ?_, ?_⟩
        · simp only [setVar, hne, if_false, hl', loopScope]
          exact .cons (.cons ⟨rfl, hz⟩ .nil) hrest
        · simp only [setVar, hne, if_false, hl']; exact hok.global
        · simp only [setVar, hne, if_false, hl']; exact hok.heap

/-- after the loop the scope of the loop variable is popped, whatever happened -/
theorem for_finish {S S1 : Store} {Gs : List SEnv} (lvs : SEnv) (g : Grows S S1) (r : Res F (Completion F))
    (h : GoodK Gg ρ S1 (lvs :: Gs) r) :
    GoodS Gg ρ S Gs Gs (match r with
      | .err o s' => .err o (popScope s')
      | .ok c s' => .ok c (popScope s')) := by
  cases r with
  | err o s => exact h
  | ok c s =>
    obtain ⟨S2, g2, hok, hc⟩ := h
    exact ⟨S2, Gs, g.trans g2, hok.pop Gg rfl (by simp), rfl, rfl, fun _ => rfl, hc⟩

theorem GoodK.grow {S S1 : Store} {Gs : List SEnv} {r : Res F (Completion F)} (h : GoodK Gg ρ S1 Gs r) (g : Grows S S1) :
    GoodK Gg ρ S Gs r := by
  cases r with
  | err o s => exact h
  | ok c s => obtain ⟨S', g', hok, hc⟩ := h; exact ⟨S', g.trans g', hok, hc⟩

theorem GoodK.toS {S : Store} {Gs : List SEnv} {r : Res F (Completion F)} (h : GoodK Gg ρ S Gs r) : GoodS Gg ρ S Gs Gs r := by
  cases r with
  | err o s => exact h
  | ok c s => obtain ⟨S', g, hok, hc⟩ := h; exact ⟨S', Gs, g, hok, rfl, rfl, fun _ => rfl, hc⟩

theorem lookupG_ne_underscore {Gs : List SEnv} {n : Str} {t : Ty} (h : lookupG Gs Gg n = some t) : n ≠ underscore := by
  intro e; subst e; simp [lookupG] at h


end EvyV.TS
