import EvyV.Model.ExprVM
import EvyV.Gen.Sites
/-
C16 — compiled bytecode behaves like the tree-walking evaluator.

(1) No construct is silently left out: over the regenerated inventory of
    AST node kinds and of the cases of `Compiler.Compile`, every node kind is
    either translated or rejected with an error.
(2) Simulation for the expression fragment (numbers, booleans, globals,
    unary and binary operators, grouping), for all expression trees of any
    depth: the code the compiler emits leaves exactly the evaluator's value
    on the operand stack, or fails with the VM-only division-by-zero error.
-/
namespace EvyV.C16
open EvyV EvyV.ExprVM

/-- every node kind is a `case` of Compile or falls into an error default -/
theorem compile_total_or_error :
    ∀ k ∈ Gen.nodeKinds, k ∈ Gen.compileCases ∨ (Gen.compileHasDefault = true ∧ Gen.compileDefaultIsError = true) := by
  decide

/-- the node kinds the model below and the harness treat as the compiler's
sub-language; a change of the compiler's case list shows here -/
theorem compile_cases_known : Gen.compileCases =
    ["ArrayLiteral", "AssignmentStmt", "BinaryExpression", "BlockStatement", "BoolLiteral", "BreakStmt",
     "EmptyStmt", "ForStmt", "GroupExpression", "IfStmt", "IndexExpression", "InferredDeclStmt", "MapLiteral",
     "NumLiteral", "Program", "SliceExpression", "StringLiteral", "UnaryExpression", "Var", "WhileStmt"] := by
  decide

/-- the evaluator has a case for every node kind except the three helper nodes it
handles inside their parents, and its fall-through is an error -/
theorem eval_total_or_error :
    (∀ k ∈ Gen.nodeKinds, k ∈ Gen.evalCases ∨ k = "ConditionalBlock" ∨ k = "StepRange") ∧
    Gen.evalFallThroughIsError = true := by
  decide

variable {F : Type} (ops : NumOps F)

theorem vmExec_append (g : List (V F)) (a b : List (I F)) (st : List (V F)) :
    vmExec ops g (a ++ b) st =
      match vmExec ops g a st with
      | .ok st' => vmExec ops g b st'
      | .error e => .error e := by
  induction a generalizing st with
  | nil => simp [vmExec]
  | cons i rest ih =>
    simp only [List.cons_append, vmExec]
    cases h : vmStep ops g st i with
    | ok st' => simp [ih]
    | error e => simp

/-- **Simulation**: if the evaluator gives `v`, the compiled code pushes `v`
(on any stack), unless the VM stops with its division-by-zero error. -/
theorem compile_expr_correct (g : List (V F)) (e : E F) (v : V F) (st : List (V F))
    (h : evalE ops g e = some v) :
    vmExec ops g (compileE e) st = .ok (v :: st) ∨
    vmExec ops g (compileE e) st = .error .divZero := by
  induction e generalizing v st with
  | num n => simp [evalE] at h; subst h; simp [compileE, vmExec, vmStep]
  | bool b => simp [evalE] at h; subst h; cases b <;> simp [compileE, vmExec, vmStep]
  | glob i => simp [evalE] at h; simp [compileE, vmExec, vmStep, h]
  | group e ih => exact ih v st (by simpa [evalE] using h)
  | neg e ih =>
    simp only [evalE] at h
    cases he : evalE ops g e with
    | none => simp [he] at h
    | some w =>
      cases w with
      | bool b => simp [he] at h
      | num n =>
        simp [he] at h; subst h
        simp only [compileE, vmExec_append]
        rcases ih (.num n) st he with h1 | h1 <;> simp [h1, vmExec, vmStep]
  | not e ih =>
    simp only [evalE] at h
    cases he : evalE ops g e with
    | none => simp [he] at h
    | some w =>
      cases w with
      | num n => simp [he] at h
      | bool b =>
        simp [he] at h; subst h
        simp only [compileE, vmExec_append]
        rcases ih (.bool b) st he with h1 | h1 <;> simp [h1, vmExec, vmStep]
  | bin op l r ihl ihr =>
    simp only [evalE] at h
    cases hl : evalE ops g l with
    | none => simp [hl] at h
    | some a =>
      cases hr : evalE ops g r with
      | none => simp [hl, hr] at h
      | some b =>
        simp only [hl, hr] at h
        simp only [compileE, vmExec_append, List.append_assoc]
        rcases ihl a st hl with h1 | h1
        · simp only [h1]
          rcases ihr b (a :: st) hr with h2 | h2
          · simp only [h2]
            cases op <;> cases a <;> cases b <;>
              simp_all [vmExec, vmStep, opIns, veq] <;>
              (try (split <;> simp_all)) <;>
              (try (rename_i hq; split at hq <;> simp_all))
          · simp [h2]
        · simp [h1]

/-- a well-typed expression never makes the VM fail with a type error or a
stack underflow -/
theorem no_type_error (g : List (V F)) (e : E F) (v : V F) (st : List (V F))
    (h : evalE ops g e = some v) :
    vmExec ops g (compileE e) st ≠ .error .typeOrUnderflow := by
  rcases compile_expr_correct ops g e v st h with h1 | h1 <;> simp [h1]

/-! Non-vacuity over the integer toy carrier: (1 + 2) * 3 < 10 -/
example : evalE intOps [] (.bin .lt (.bin .mul (.group (.bin .add (.num 1) (.num 2))) (.num 3)) (.num 10))
    = some (.bool true) := by rfl
example : vmExec intOps [] (compileE (.bin .lt (.bin .mul (.group (.bin .add (.num (1:Int)) (.num 2))) (.num 3)) (.num 10))) []
    = .ok [.bool true] := by rfl
/-- left operand first: 7 - 2 = 5, not -5 -/
example : vmExec intOps [] (compileE (.bin .sub (.num (7:Int)) (.num 2))) [] = .ok [.num 5] := by rfl

end EvyV.C16
