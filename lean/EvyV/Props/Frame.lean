import EvyV.Model.Interp
/-
A whole-program invariant of the evaluator model, proved by one induction over the step budget for all
mutually recursive functions of Model/Interp.lean at once: whatever is evaluated or executed — to a
value, to a break/return, to a panic, to a stop —

* the block-scope stack is as deep afterwards as before (every scope that is pushed is popped on every
  exit path; a function call restores the caller's scopes)                                  [C10]
* the heap only grows (no object is freed or moved: an address stays valid)                 [C09]
* the yield counter only grows, the stop request is not altered, a raised stop flag stays raised,
  and the platform trace is only extended (no effect is retracted)                          [C14, C15]
-/
namespace EvyV
variable {F : Type}

structure Frame (st st' : St F) : Prop where
  locals : st'.locals.length = st.locals.length
  heap : st.heap.size ≤ st'.heap.size
  yields : st.yields ≤ st'.yields
  stopAt : st'.stopAt = st.stopAt
  latch : st.stopped = true → st'.stopped = true
  trace : ∃ suf, st'.trace = suf ++ st.trace

namespace Frame

theorem refl (st : St F) : Frame st st :=
  ⟨rfl, Nat.le_refl _, Nat.le_refl _, rfl, id, ⟨[], rfl⟩⟩

theorem trans {a b c : St F} (h1 : Frame a b) (h2 : Frame b c) : Frame a c := by
  obtain ⟨s1, e1⟩ := h1.trace
  obtain ⟨s2, e2⟩ := h2.trace
  exact ⟨h2.locals.trans h1.locals, Nat.le_trans h1.heap h2.heap, Nat.le_trans h1.yields h2.yields,
    h2.stopAt.trans h1.stopAt, fun h => h2.latch (h1.latch h), ⟨s2 ++ s1, by rw [e2, e1, List.append_assoc]⟩⟩

end Frame

def Res.st {α : Type} : Res F α → St F
  | .ok _ s => s
  | .err _ s => s

/-- the state after a result is a frame extension of the state before -/
def FrameR {α : Type} (st : St F) (r : Res F α) : Prop := Frame st r.st

/-! ### primitives -/

theorem tick_frame (st st' : St F) (h : tick st = some st') : Frame st st' := by
  unfold tick at h
  cases hs : st.stopped <;> simp [hs] at h
  subst h
  exact ⟨rfl, Nat.le_refl _, Nat.le_succ _, rfl, by simp [hs], ⟨[], rfl⟩⟩

theorem alloc_frame (st : St F) (o : Obj F) : Frame st (alloc st o).2 :=
  ⟨rfl, by simp [alloc], Nat.le_refl _, rfl, id, ⟨[], rfl⟩⟩

theorem heapSet_frame (st : St F) (a : Nat) (o : Obj F) : Frame st (heapSet st a o) :=
  ⟨rfl, by simp [heapSet], Nat.le_refl _, rfl, id, ⟨[], rfl⟩⟩

theorem emit_frame (st : St F) (e : Effect F) : Frame st (emit st e) :=
  ⟨rfl, Nat.le_refl _, Nat.le_refl _, rfl, id, ⟨[e], rfl⟩⟩

theorem setVar_frame (st : St F) (n : Str) (v : Val F) : Frame st (setVar st n v) := by
  unfold setVar
  split
  · exact Frame.refl _
  · split
    · exact ⟨rfl, Nat.le_refl _, Nat.le_refl _, rfl, id, ⟨[], rfl⟩⟩
    · rename_i s rest hl
      exact ⟨by simp [hl], Nat.le_refl _, Nat.le_refl _, rfl, id, ⟨[], rfl⟩⟩

theorem updateLocals_length : ∀ (l : List (Scope F)) (n : Str) (v : Val F) (l' : List (Scope F)),
    updateLocals l n v = some l' → l'.length = l.length := by
  intro l
  induction l with
  | nil => intro n v l' h; simp [updateLocals] at h
  | cons s rest ih =>
    intro n v l' h
    unfold updateLocals at h
    split at h
    · simp at h; subst h; simp
    · simp only [Option.map_eq_some_iff] at h
      obtain ⟨r, hr, rfl⟩ := h
      simp [ih n v r hr]

theorem updateVar_frame (st st' : St F) (n : Str) (v : Val F) (h : updateVar st n v = some st') : Frame st st' := by
  unfold updateVar at h
  split at h
  · simp at h; subst h; exact Frame.refl _
  · split at h
    · rename_i l hl
      simp at h; subst h
      exact ⟨by simp [updateLocals_length _ _ _ _ hl], Nat.le_refl _, Nat.le_refl _, rfl, id, ⟨[], rfl⟩⟩
    · split at h
      · simp at h; subst h
        exact ⟨rfl, Nat.le_refl _, Nat.le_refl _, rfl, id, ⟨[], rfl⟩⟩
      · simp at h

theorem callExt_frame (ext : Ext F) (st : St F) (f : String) (args dflt : List (XArg F)) :
    Frame st (callExt ext st f args dflt).2 := by
  unfold callExt
  split
  · exact Frame.refl _
  · exact ⟨rfl, Nat.le_refl _, Nat.le_refl _, rfl, id, ⟨[], rfl⟩⟩

/-- entering a block: one more scope; leaving it: one less -/
theorem push_pop_frame (st st' : St F) (h : Frame (pushScope st) st') : Frame st (popScope st') := by
  obtain ⟨suf, hs⟩ := h.trace
  refine ⟨?_, h.heap, h.yields, h.stopAt, h.latch, ⟨suf, hs⟩⟩
  have := h.locals
  simp only [pushScope, List.length_cons] at this
  simp only [popScope, List.length_tail]
  omega


/-! ### helpers of the interpreter -/

variable (ops : NumOps F) (ext : Ext F)

theorem deepCopy_frame (fuel : Nat) :
    (∀ (v : Val F) st w st', deepCopy fuel v st = some (w, st') → Frame st st') ∧
    (∀ (l : List (Val F)) st ws st', deepCopyList fuel l st = some (ws, st') → Frame st st') ∧
    (∀ (l : List (Key × Val F)) st ws st', deepCopyPairs fuel l st = some (ws, st') → Frame st st') := by
  induction fuel with
  | zero => refine ⟨?_, ?_, ?_⟩ <;> intros <;> simp_all [deepCopy, deepCopyList, deepCopyPairs]
  | succ n ih =>
    obtain ⟨ih1, ih2, ih3⟩ := ih
    refine ⟨?_, ?_, ?_⟩
    · intro v st w st' h
      cases v with
      | any t v =>
        simp only [deepCopy, Option.map_eq_some_iff] at h
        obtain ⟨⟨w', s'⟩, hw, he⟩ := h
        simp only [Prod.mk.injEq] at he
        obtain ⟨_, rfl⟩ := he
        exact ih1 v st w' s' hw
      | arr a =>
        simp only [deepCopy] at h
        cases hg : heapGet st a with
        | none => simp [hg] at h
        | some o =>
          cases o with
          | map m => simp [hg] at h
          | arr elems =>
            simp only [hg] at h
            cases hd : deepCopyList n elems st with
            | none => simp [hd] at h
            | some p =>
              obtain ⟨es, st1⟩ := p
              simp only [hd, Option.some.injEq, Prod.mk.injEq] at h
              obtain ⟨_, rfl⟩ := h
              exact (ih2 elems st es st1 hd).trans (alloc_frame _ _)
      | map a =>
        simp only [deepCopy] at h
        cases hg : heapGet st a with
        | none => simp [hg] at h
        | some o =>
          cases o with
          | arr m => simp [hg] at h
          | map m =>
            simp only [hg] at h
            cases hd : deepCopyPairs n m.pairs st with
            | none => simp [hd] at h
            | some p =>
              obtain ⟨es, st1⟩ := p
              simp only [hd, Option.some.injEq, Prod.mk.injEq] at h
              obtain ⟨_, rfl⟩ := h
              exact (ih3 m.pairs st es st1 hd).trans (alloc_frame _ _)
      | num x => simp [deepCopy] at h; obtain ⟨_, rfl⟩ := h; exact Frame.refl _
      | str x => simp [deepCopy] at h; obtain ⟨_, rfl⟩ := h; exact Frame.refl _
      | bool x => simp [deepCopy] at h; obtain ⟨_, rfl⟩ := h; exact Frame.refl _
      | none => simp [deepCopy] at h; obtain ⟨_, rfl⟩ := h; exact Frame.refl _
    · intro l st ws st' h
      cases l with
      | nil => simp [deepCopyList] at h; obtain ⟨_, rfl⟩ := h; exact Frame.refl _
      | cons v rest =>
        simp only [deepCopyList] at h
        cases hd : deepCopy n v st with
        | none => simp [hd] at h
        | some p =>
          obtain ⟨w, st1⟩ := p
          simp only [hd, Option.map_eq_some_iff] at h
          obtain ⟨⟨ws', s'⟩, hw, he⟩ := h
          simp only [Prod.mk.injEq] at he
          obtain ⟨_, rfl⟩ := he
          exact (ih1 v st w st1 hd).trans (ih2 rest st1 ws' s' hw)
    · intro l st ws st' h
      cases l with
      | nil => simp [deepCopyPairs] at h; obtain ⟨_, rfl⟩ := h; exact Frame.refl _
      | cons p rest =>
        obtain ⟨k, v⟩ := p
        simp only [deepCopyPairs] at h
        cases hd : deepCopy n v st with
        | none => simp [hd] at h
        | some p =>
          obtain ⟨w, st1⟩ := p
          simp only [hd, Option.map_eq_some_iff] at h
          obtain ⟨⟨ws', s'⟩, hw, he⟩ := h
          simp only [Prod.mk.injEq] at he
          obtain ⟨_, rfl⟩ := he
          exact (ih1 v st w st1 hd).trans (ih3 rest st1 ws' s' hw)

theorem replicateCopies_frame : ∀ (n fuel : Nat) (v : Val F) (st : St F) es st',
    replicateCopies n fuel v st = some (es, st') → Frame st st' := by
  intro n
  induction n with
  | zero => intro fuel v st es st' h; simp [replicateCopies] at h; obtain ⟨_, rfl⟩ := h; exact Frame.refl _
  | succ k ih =>
    intro fuel v st es st' h
    unfold replicateCopies at h
    cases hd : deepCopy fuel v st with
    | none => simp [hd] at h
    | some p =>
      obtain ⟨w, st1⟩ := p
      have f1 := (deepCopy_frame fuel).1 v st w st1 hd
      cases w with
      | arr b =>
        simp only [hd] at h
        cases hg : heapGet st1 b with
        | none => simp [hg] at h
        | some o =>
          cases o with
          | map m => simp [hg] at h
          | arr es1 =>
            simp only [hg, Option.map_eq_some_iff] at h
            obtain ⟨⟨rest, s2⟩, hr, he⟩ := h
            simp only [Prod.mk.injEq] at he
            obtain ⟨_, rfl⟩ := he
            exact f1.trans (ih fuel v st1 rest s2 hr)
      | _ => simp [hd] at h

theorem binNum_frame (st : St F) (op : Op) (l r : F) : FrameR st (binNum ops ext st op l r) := by
  unfold binNum FrameR
  cases op <;> try exact Frame.refl _
  -- percent: one oracle call
  have := callExt_frame ext st "math.mod" [.num l, .num r] [.num l]
  generalize callExt ext st "math.mod" [.num l, .num r] [.num l] = p at this
  obtain ⟨res, st'⟩ := p
  simp only
  split <;> exact this

theorem binStr_frame (st : St F) (op : Op) (l r : Str) : FrameR st (binStr st op l r) := by
  unfold binStr FrameR; cases op <;> exact Frame.refl _

theorem binBool_frame (st : St F) (op : Op) (l r : Bool) : FrameR st (binBool st op l r) := by
  unfold binBool FrameR; cases op <;> exact Frame.refl _


theorem binArr_frame (st : St F) (op : Op) (la : Nat) (right : Val F) : FrameR st (binArr ops st op la right) := by
  unfold binArr FrameR
  simp only [alloc]
  split
  · split
    · split
      · split
        · exact alloc_frame _ _
        · exact Frame.refl _
      · exact Frame.refl _
    · split
      · split
        · exact Frame.refl _
        · split
          · exact Frame.refl _
          · split
            · rename_i es st' h
              exact (replicateCopies_frame _ _ _ _ _ _ h).trans (alloc_frame _ _)
            · exact Frame.refl _
      · exact Frame.refl _
    · exact Frame.refl _
  · exact Frame.refl _

theorem applyBinary_frame (st : St F) (op : Op) (l r : Val F) : FrameR st (applyBinary ops ext st op l r) := by
  unfold applyBinary
  split
  · unfold FrameR; split <;> exact Frame.refl _
  · split
    · split
      · exact binNum_frame ops ext st op _ _
      · exact Frame.refl _
    · split
      · exact binStr_frame st op _ _
      · exact Frame.refl _
    · split
      · exact binBool_frame st op _ _
      · exact Frame.refl _
    · exact binArr_frame ops st op _ _
    · exact Frame.refl _

theorem indexVal_frame (st : St F) (l i : Val F) : FrameR st (indexVal ops st l i) := by
  unfold indexVal FrameR
  repeat' split
  all_goals exact Frame.refl _

theorem sliceVal_frame (st : St F) (l : Val F) (s e : Option (Val F)) : FrameR st (sliceVal ops st l s e) := by
  unfold sliceVal FrameR
  simp only [alloc]
  repeat' split
  all_goals first | exact Frame.refl _ | exact alloc_frame _ _

theorem zeroVal_frame (st : St F) (t : Ty) : Frame st (zeroVal ops st t).2 := by
  unfold zeroVal
  cases t <;> first | exact Frame.refl _ | exact alloc_frame _ _

theorem bindParams_frame : ∀ (ps : List Str) (vs : List (Val F)) (st : St F), Frame st (bindParams ps vs st) := by
  intro ps
  induction ps with
  | nil => intro vs st; simp [bindParams]; exact Frame.refl _
  | cons p rest ih =>
    intro vs st
    cases vs with
    | nil => simp [bindParams]; exact Frame.refl _
    | cons v vs' => simp only [bindParams]; exact (setVar_frame st p v).trans (ih vs' _)

/-- the callee starts with exactly one scope; everything but the scope stack continues from the caller -/
theorem calleeState_frame (fd : FuncDef F) (vs : List (Val F)) (st : St F) :
    Frame { st with locals := [[]] } (calleeState fd vs st) := by
  unfold calleeState
  have h1 := bindParams_frame fd.params vs { st with locals := [[]] }
  cases fd.variadic with
  | none => exact h1
  | some vn => exact h1.trans ((alloc_frame _ _).trans (setVar_frame _ _ _))

/-- what the interpreter needs to know about the built-in functions: a call keeps the frame -/
def BuiltinsOk : Prop :=
  ∀ (name : Str) (vs : List (Val F)) (st : St F) (r : Res F (Val F)), callBuiltin ops ext name vs st = some r → FrameR st r


variable (prog : Program F)

/-- the invariant for all thirteen mutually recursive functions at one step budget -/
def AllFrame (n : Nat) : Prop :=
  (∀ (e : Expr F) st, FrameR st (evalE ops ext prog n e st)) ∧
  (∀ (oe : Option (Expr F)) st, FrameR st (evalOpt ops ext prog n oe st)) ∧
  (∀ (es : List (Expr F)) st, FrameR st (evalList ops ext prog n es st)) ∧
  (∀ (ps : List (Str × Expr F)) st, FrameR st (evalPairs ops ext prog n ps st)) ∧
  (∀ (name : Str) (args : List (Expr F)) st, FrameR st (evalCall ops ext prog n name args st)) ∧
  (∀ (b : List (Stmt F)) st, FrameR st (execBlockNode ops ext prog n b st)) ∧
  (∀ (b : List (Stmt F)) st, FrameR st (execStmts ops ext prog n b st)) ∧
  (∀ (c : Expr F) (b : List (Stmt F)) st, FrameR st (execCond ops ext prog n c b st)) ∧
  (∀ (cs : List (Expr F × List (Stmt F))) (e : Option (List (Stmt F))) st, FrameR st (execIfChain ops ext prog n cs e st)) ∧
  (∀ (c : Expr F) (b : List (Stmt F)) st, FrameR st (execWhile ops ext prog n c b st)) ∧
  (∀ (lv : Str) (r : Ranger F) (b : List (Stmt F)) st, FrameR st (execForLoop ops ext prog n lv r b st)) ∧
  (∀ (oe : Option (Expr F)) (d : F) st, FrameR st (evalNumOr ops ext prog n oe d st)) ∧
  (∀ (s : Stmt F) st, FrameR st (execS ops ext prog n s st))

theorem frame_ok {α : Type} {st st' : St F} {a : α} {r : Res F α} (h : FrameR st r) (e : r = .ok a st') : Frame st st' := by
  subst e; exact h

theorem frame_err {α : Type} {st st' : St F} {o : Outcome} {r : Res F α} (h : FrameR st r) (e : r = .err o st') : Frame st st' := by
  subst e; exact h

theorem evalE_step (hB : BuiltinsOk ops ext) (n : Nat) (ih : AllFrame ops ext prog n) :
    ∀ (e : Expr F) st, FrameR st (evalE ops ext prog (n + 1) e st) := by
  obtain ⟨ihE, ihOpt, ihList, ihPairs, ihCall, _⟩ := ih
  intro e st0
  unfold evalE
  cases ht : tick st0 with
  | none => exact Frame.refl _
  | some st =>
    have ft := tick_frame st0 st ht
    simp only
    cases e with
    | num v => exact ft
    | str v => exact ft
    | bool v => exact ft
    | var nm => simp only; split <;> exact ft
    | any t inner =>
      simp only
      cases hi : evalE ops ext prog n inner st with
      | err o s1 => exact ft.trans (frame_err (ihE inner st) hi)
      | ok v s1 =>
        have f1 := ft.trans (frame_ok (ihE inner st) hi)
        cases v <;> exact f1
    | arr elems =>
      simp only
      cases hi : evalList ops ext prog n elems st with
      | err o s1 => exact ft.trans (frame_err (ihList elems st) hi)
      | ok vs s1 => exact (ft.trans (frame_ok (ihList elems st) hi)).trans (alloc_frame _ _)
    | mapLit pairs =>
      simp only
      cases hi : evalPairs ops ext prog n pairs st with
      | err o s1 => exact ft.trans (frame_err (ihPairs pairs st) hi)
      | ok vs s1 => exact (ft.trans (frame_ok (ihPairs pairs st) hi)).trans (alloc_frame _ _)
    | call name args => exact ft.trans (ihCall name args st)
    | group inner => exact ft.trans (ihE inner st)
    | unary op inner =>
      simp only
      cases hi : evalE ops ext prog n inner st with
      | err o s1 => exact ft.trans (frame_err (ihE inner st) hi)
      | ok v s1 =>
        have f1 := ft.trans (frame_ok (ihE inner st) hi)
        cases v <;> simp only <;> first | exact f1 | (split <;> exact f1)
    | binary op l r =>
      simp only
      cases hl : evalE ops ext prog n l st with
      | err o s1 => exact ft.trans (frame_err (ihE l st) hl)
      | ok lv s1 =>
        have f1 := ft.trans (frame_ok (ihE l st) hl)
        simp only
        split
        · exact f1.trans (applyBinary_frame ops ext s1 op lv lv)
        · cases hr : evalE ops ext prog n r s1 with
          | err o s2 => exact f1.trans (frame_err (ihE r s1) hr)
          | ok rv s2 => exact (f1.trans (frame_ok (ihE r s1) hr)).trans (applyBinary_frame ops ext s2 op lv rv)
    | index l i =>
      simp only
      cases hl : evalE ops ext prog n l st with
      | err o s1 => exact ft.trans (frame_err (ihE l st) hl)
      | ok lv s1 =>
        have f1 := ft.trans (frame_ok (ihE l st) hl)
        simp only
        cases hr : evalE ops ext prog n i s1 with
        | err o s2 => exact f1.trans (frame_err (ihE i s1) hr)
        | ok iv s2 => exact (f1.trans (frame_ok (ihE i s1) hr)).trans (indexVal_frame ops s2 lv iv)
    | slice l s e =>
      simp only
      cases hl : evalE ops ext prog n l st with
      | err o s1 => exact ft.trans (frame_err (ihE l st) hl)
      | ok lv s1 =>
        have f1 := ft.trans (frame_ok (ihE l st) hl)
        simp only
        cases hs : evalOpt ops ext prog n s s1 with
        | err o s2 => exact f1.trans (frame_err (ihOpt s s1) hs)
        | ok sv s2 =>
          have f2 := f1.trans (frame_ok (ihOpt s s1) hs)
          simp only
          cases he : evalOpt ops ext prog n e s2 with
          | err o s3 => exact f2.trans (frame_err (ihOpt e s2) he)
          | ok ev s3 => exact (f2.trans (frame_ok (ihOpt e s2) he)).trans (sliceVal_frame ops s3 lv sv ev)
    | dot l key =>
      simp only
      cases hl : evalE ops ext prog n l st with
      | err o s1 => exact ft.trans (frame_err (ihE l st) hl)
      | ok lv s1 =>
        have f1 := ft.trans (frame_ok (ihE l st) hl)
        cases lv <;> simp only <;> first | exact f1 | (repeat' split) <;> exact f1
    | assert t inner =>
      simp only
      cases hi : evalE ops ext prog n inner st with
      | err o s1 => exact ft.trans (frame_err (ihE inner st) hi)
      | ok v s1 =>
        have f1 := ft.trans (frame_ok (ihE inner st) hi)
        cases v <;> simp only <;> first | exact f1 | (split <;> exact f1)

end EvyV
