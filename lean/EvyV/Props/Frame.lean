import EvyV.Model.Interp
/-
A whole-program invariant of the evaluator model, proved by one induction over the step budget for all
mutually recursive functions of Model/Interp.lean at once: whatever is evaluated or executed — to a
value, to a break/return, to a panic, to a stop —

* the block-scope stack is as deep afterwards as before (every scope that is pushed is popped on every
  exit path; a function call restores the caller's scopes)                                  [C10]
* the heap only grows (no object is freed or moved: an address stays valid)                 [C09]
* the yield counter only grows, the stop request is not altered, a raised stop flag stays raised,
  and the platform trace is only extended (no effect is retracted)                          [C14, C15]
-/
namespace EvyV
variable {F : Type}

/-- the names a scope declares, in declaration order -/
def keys (s : Scope F) : List Str := s.map Prod.fst

/-- the scope stack afterwards against the one before: equally deep; the innermost scope has its old
names plus, at the end, those declared meanwhile; every outer scope has exactly its old names -/
def ScopesExt : List (Scope F) → List (Scope F) → Prop
  | [], [] => True
  | s :: rest, s' :: rest' => (∃ suf, keys s' = keys s ++ suf) ∧ rest'.map keys = rest.map keys
  | _, _ => False

namespace ScopesExt

theorem refl : ∀ (l : List (Scope F)), ScopesExt l l
  | [] => trivial
  | _ :: _ => ⟨⟨[], by simp⟩, rfl⟩

theorem of_keys_eq : ∀ (l l' : List (Scope F)), l'.map keys = l.map keys → ScopesExt l l'
  | [], [], _ => trivial
  | [], _ :: _, h => by simp at h
  | _ :: _, [], h => by simp at h
  | s :: rest, s' :: rest', h => by
    simp only [List.map_cons, List.cons.injEq] at h
    exact ⟨⟨[], by simp [h.1]⟩, h.2⟩

theorem trans : ∀ {a b c : List (Scope F)}, ScopesExt a b → ScopesExt b c → ScopesExt a c
  | [], [], [], _, _ => trivial
  | [], [], _ :: _, _, h => h.elim
  | [], _ :: _, _, h, _ => h.elim
  | _ :: _, [], _, h, _ => h.elim
  | _ :: _, _ :: _, [], _, h => h.elim
  | s :: r, s' :: r', s'' :: r'', h1, h2 => by
    obtain ⟨⟨u, hu⟩, e1⟩ := h1
    obtain ⟨⟨w, hw⟩, e2⟩ := h2
    exact ⟨⟨u ++ w, by rw [hw, hu, List.append_assoc]⟩, e2.trans e1⟩

theorem length_eq : ∀ {a b : List (Scope F)}, ScopesExt a b → b.length = a.length
  | [], [], _ => rfl
  | [], _ :: _, h => h.elim
  | _ :: _, [], h => h.elim
  | _ :: r, _ :: r', h => by
    have := congrArg List.length h.2
    simp only [List.length_map] at this
    simp [this]

end ScopesExt

structure Frame (st st' : St F) : Prop where
  locals : ScopesExt st.locals st'.locals
  heap : st.heap.size ≤ st'.heap.size
  yields : st.yields ≤ st'.yields
  stopAt : st'.stopAt = st.stopAt
  latch : st.stopped = true → st'.stopped = true
  trace : ∃ suf, st'.trace = suf ++ st.trace

namespace Frame

theorem refl (st : St F) : Frame st st :=
  ⟨ScopesExt.refl _, Nat.le_refl _, Nat.le_refl _, rfl, id, ⟨[], rfl⟩⟩

theorem trans {a b c : St F} (h1 : Frame a b) (h2 : Frame b c) : Frame a c := by
  obtain ⟨s1, e1⟩ := h1.trace
  obtain ⟨s2, e2⟩ := h2.trace
  exact ⟨h1.locals.trans h2.locals, Nat.le_trans h1.heap h2.heap, Nat.le_trans h1.yields h2.yields,
    h2.stopAt.trans h1.stopAt, fun h => h2.latch (h1.latch h), ⟨s2 ++ s1, by rw [e2, e1, List.append_assoc]⟩⟩

/-- a state that differs from `b` only in fields the frame does not mention -/
theorem of_same {a b : St F} (h : Frame a b) (c : St F) (e1 : c.locals = b.locals) (e2 : c.heap = b.heap)
    (e3 : c.yields = b.yields) (e4 : c.stopAt = b.stopAt) (e5 : c.stopped = b.stopped) (e6 : c.trace = b.trace) :
    Frame a c := by
  obtain ⟨suf, hs⟩ := h.trace
  exact ⟨by rw [e1]; exact h.locals, by rw [e2]; exact h.heap, by rw [e3]; exact h.yields,
    by rw [e4]; exact h.stopAt, by intro hh; rw [e5]; exact h.latch hh, ⟨suf, by rw [e6]; exact hs⟩⟩

end Frame

def Res.st {α : Type} : Res F α → St F
  | .ok _ s => s
  | .err _ s => s

/-- the state after a result is a frame extension of the state before -/
def FrameR {α : Type} (st : St F) (r : Res F α) : Prop := Frame st r.st

/-! ### primitives -/

theorem tick_frame (st st' : St F) (h : tick st = some st') : Frame st st' := by
  unfold tick at h
  cases hs : st.stopped <;> simp [hs] at h
  subst h
  exact ⟨ScopesExt.refl _, Nat.le_refl _, Nat.le_succ _, rfl, by simp [hs], ⟨[], rfl⟩⟩

theorem alloc_frame (st : St F) (o : Obj F) : Frame st (alloc st o).2 :=
  ⟨ScopesExt.refl _, by simp [alloc], Nat.le_refl _, rfl, id, ⟨[], rfl⟩⟩

theorem heapSet_frame (st : St F) (a : Nat) (o : Obj F) : Frame st (heapSet st a o) :=
  ⟨ScopesExt.refl _, by simp [heapSet], Nat.le_refl _, rfl, id, ⟨[], rfl⟩⟩

theorem emit_frame (st : St F) (e : Effect F) : Frame st (emit st e) :=
  ⟨ScopesExt.refl _, Nat.le_refl _, Nat.le_refl _, rfl, id, ⟨[e], rfl⟩⟩

/-- binding a name keeps the names of the scope and adds the new one at the end -/
theorem keys_scopeSet (s : Scope F) (n : Str) (v : Val F) : ∃ suf, keys (scopeSet s n v) = keys s ++ suf := by
  induction s with
  | nil => exact ⟨[n], by simp [scopeSet, keys]⟩
  | cons p rest ih =>
    obtain ⟨k, w⟩ := p
    simp only [scopeSet]
    split
    · rename_i hk; exact ⟨[], by simp [keys, hk]⟩
    · obtain ⟨suf, hs⟩ := ih
      exact ⟨suf, by simp only [keys, List.map_cons, List.cons_append] at hs ⊢; rw [hs]⟩

/-- rebinding a name that the scope has keeps its names exactly -/
theorem keys_scopeSet_present (s : Scope F) (n : Str) (v : Val F) (h : (scopeGet s n).isSome) :
    keys (scopeSet s n v) = keys s := by
  induction s with
  | nil => simp [scopeGet] at h
  | cons p rest ih =>
    obtain ⟨k, w⟩ := p
    simp only [scopeSet]
    split
    · rename_i hk; simp [keys, hk]
    · rename_i hk
      have : (scopeGet rest n).isSome := by
        unfold scopeGet at h ⊢
        simp only [List.lookup] at h
        have hne : (n == k) = false := by
          cases hb : (n == k) with
          | false => rfl
          | true => exact absurd (by simpa using hb : n = k).symm hk
        simpa [hne] using h
      simp only [keys, List.map_cons] at ih ⊢
      rw [ih this]

theorem updateLocals_keys : ∀ (l : List (Scope F)) (n : Str) (v : Val F) (l' : List (Scope F)),
    updateLocals l n v = some l' → l'.map keys = l.map keys := by
  intro l
  induction l with
  | nil => intro n v l' h; simp [updateLocals] at h
  | cons s rest ih =>
    intro n v l' h
    unfold updateLocals at h
    split at h
    · rename_i hs
      simp at h; subst h
      simp [keys_scopeSet_present s n v hs]
    · simp only [Option.map_eq_some_iff] at h
      obtain ⟨r, hr, rfl⟩ := h
      simp [ih n v r hr]

theorem setVar_frame (st : St F) (n : Str) (v : Val F) : Frame st (setVar st n v) := by
  unfold setVar
  split
  · exact Frame.refl _
  · split
    · exact ⟨ScopesExt.refl _, Nat.le_refl _, Nat.le_refl _, rfl, id, ⟨[], rfl⟩⟩
    · rename_i s rest hl
      refine ⟨?_, Nat.le_refl _, Nat.le_refl _, rfl, id, ⟨[], rfl⟩⟩
      rw [hl]
      exact ⟨keys_scopeSet s n v, rfl⟩

theorem updateLocals_length : ∀ (l : List (Scope F)) (n : Str) (v : Val F) (l' : List (Scope F)),
    updateLocals l n v = some l' → l'.length = l.length := by
  intro l
  induction l with
  | nil => intro n v l' h; simp [updateLocals] at h
  | cons s rest ih =>
    intro n v l' h
    unfold updateLocals at h
    split at h
    · simp at h; subst h; simp
    · simp only [Option.map_eq_some_iff] at h
      obtain ⟨r, hr, rfl⟩ := h
      simp [ih n v r hr]

theorem updateVar_frame (st st' : St F) (n : Str) (v : Val F) (h : updateVar st n v = some st') : Frame st st' := by
  unfold updateVar at h
  split at h
  · simp at h; subst h; exact Frame.refl _
  · split at h
    · rename_i l hl
      simp at h; subst h
      exact ⟨ScopesExt.of_keys_eq _ _ (updateLocals_keys _ _ _ _ hl), Nat.le_refl _, Nat.le_refl _, rfl, id, ⟨[], rfl⟩⟩
    · split at h
      · simp at h; subst h
        exact ⟨ScopesExt.refl _, Nat.le_refl _, Nat.le_refl _, rfl, id, ⟨[], rfl⟩⟩
      · simp at h

theorem callExt_frame (ext : Ext F) (st : St F) (f : String) (args dflt : List (XArg F)) :
    Frame st (callExt ext st f args dflt).2 := by
  unfold callExt
  split
  · exact Frame.refl _
  · exact ⟨ScopesExt.refl _, Nat.le_refl _, Nat.le_refl _, rfl, fun _ => rfl, ⟨[], rfl⟩⟩

/-- entering a block: one more scope; leaving it: one less -/
theorem push_pop_frame (st st' : St F) (h : Frame (pushScope st) st') : Frame st (popScope st') := by
  obtain ⟨suf, hs⟩ := h.trace
  refine ⟨?_, h.heap, h.yields, h.stopAt, h.latch, ⟨suf, hs⟩⟩
  have hl := h.locals
  simp only [pushScope] at hl
  cases hl' : st'.locals with
  | nil => rw [hl'] at hl; exact hl.elim
  | cons s' rest' =>
    rw [hl'] at hl
    simp only [popScope, hl', List.tail_cons]
    exact ScopesExt.of_keys_eq _ _ hl.2

/-! ### helpers of the interpreter -/

variable (ops : NumOps F) (ext : Ext F)

theorem deepCopy_frame (fuel : Nat) :
    (∀ (v : Val F) st w st', deepCopy fuel v st = some (w, st') → Frame st st') ∧
    (∀ (l : List (Val F)) st ws st', deepCopyList fuel l st = some (ws, st') → Frame st st') ∧
    (∀ (l : List (Key × Val F)) st ws st', deepCopyPairs fuel l st = some (ws, st') → Frame st st') := by
  induction fuel with
  | zero => refine ⟨?_, ?_, ?_⟩ <;> intros <;> simp_all [deepCopy, deepCopyList, deepCopyPairs]
  | succ n ih =>
    obtain ⟨ih1, ih2, ih3⟩ := ih
    refine ⟨?_, ?_, ?_⟩
    · intro v st w st' h
      cases v with
      | any t v =>
        simp only [deepCopy, Option.map_eq_some_iff] at h
        obtain ⟨⟨w', s'⟩, hw, he⟩ := h
        simp only [Prod.mk.injEq] at he
        obtain ⟨_, rfl⟩ := he
        exact ih1 v st w' s' hw
      | arr a =>
        simp only [deepCopy] at h
        cases hg : heapGet st a with
        | none => simp [hg] at h
        | some o =>
          cases o with
          | map m => simp [hg] at h
          | arr elems =>
            simp only [hg] at h
            cases hd : deepCopyList n elems st with
            | none => simp [hd] at h
            | some p =>
              obtain ⟨es, st1⟩ := p
              simp only [hd, Option.some.injEq, Prod.mk.injEq] at h
              obtain ⟨_, rfl⟩ := h
              exact (ih2 elems st es st1 hd).trans (alloc_frame _ _)
      | map a =>
        simp only [deepCopy] at h
        cases hg : heapGet st a with
        | none => simp [hg] at h
        | some o =>
          cases o with
          | arr m => simp [hg] at h
          | map m =>
            simp only [hg] at h
            cases hd : deepCopyPairs n m.pairs st with
            | none => simp [hd] at h
            | some p =>
              obtain ⟨es, st1⟩ := p
              simp only [hd, Option.some.injEq, Prod.mk.injEq] at h
              obtain ⟨_, rfl⟩ := h
              exact (ih3 m.pairs st es st1 hd).trans (alloc_frame _ _)
      | num x => simp [deepCopy] at h; obtain ⟨_, rfl⟩ := h; exact Frame.refl _
      | str x => simp [deepCopy] at h; obtain ⟨_, rfl⟩ := h; exact Frame.refl _
      | bool x => simp [deepCopy] at h; obtain ⟨_, rfl⟩ := h; exact Frame.refl _
      | none => simp [deepCopy] at h; obtain ⟨_, rfl⟩ := h; exact Frame.refl _
    · intro l st ws st' h
      cases l with
      | nil => simp [deepCopyList] at h; obtain ⟨_, rfl⟩ := h; exact Frame.refl _
      | cons v rest =>
        simp only [deepCopyList] at h
        cases hd : deepCopy n v st with
        | none => simp [hd] at h
        | some p =>
          obtain ⟨w, st1⟩ := p
          simp only [hd, Option.map_eq_some_iff] at h
          obtain ⟨⟨ws', s'⟩, hw, he⟩ := h
          simp only [Prod.mk.injEq] at he
          obtain ⟨_, rfl⟩ := he
          exact (ih1 v st w st1 hd).trans (ih2 rest st1 ws' s' hw)
    · intro l st ws st' h
      cases l with
      | nil => simp [deepCopyPairs] at h; obtain ⟨_, rfl⟩ := h; exact Frame.refl _
      | cons p rest =>
        obtain ⟨k, v⟩ := p
        simp only [deepCopyPairs] at h
        cases hd : deepCopy n v st with
        | none => simp [hd] at h
        | some p =>
          obtain ⟨w, st1⟩ := p
          simp only [hd, Option.map_eq_some_iff] at h
          obtain ⟨⟨ws', s'⟩, hw, he⟩ := h
          simp only [Prod.mk.injEq] at he
          obtain ⟨_, rfl⟩ := he
          exact (ih1 v st w st1 hd).trans (ih3 rest st1 ws' s' hw)

theorem replicateCopies_frame : ∀ (n fuel : Nat) (v : Val F) (st : St F) es st',
    replicateCopies n fuel v st = some (es, st') → Frame st st' := by
  intro n
  induction n with
  | zero => intro fuel v st es st' h; simp [replicateCopies] at h; obtain ⟨_, rfl⟩ := h; exact Frame.refl _
  | succ k ih =>
    intro fuel v st es st' h
    unfold replicateCopies at h
    cases hd : deepCopy fuel v st with
    | none => simp [hd] at h
    | some p =>
      obtain ⟨w, st1⟩ := p
      have f1 := (deepCopy_frame fuel).1 v st w st1 hd
      cases w with
      | arr b =>
        simp only [hd] at h
        cases hg : heapGet st1 b with
        | none => simp [hg] at h
        | some o =>
          cases o with
          | map m => simp [hg] at h
          | arr es1 =>
            simp only [hg, Option.map_eq_some_iff] at h
            obtain ⟨⟨rest, s2⟩, hr, he⟩ := h
            simp only [Prod.mk.injEq] at he
            obtain ⟨_, rfl⟩ := he
            exact f1.trans (ih fuel v st1 rest s2 hr)
      | _ => simp [hd] at h

theorem binNum_frame (st : St F) (op : Op) (l r : F) : FrameR st (binNum ops ext st op l r) := by
  unfold binNum FrameR
  cases op <;> try exact Frame.refl _
  -- percent: one oracle call
  have := callExt_frame ext st "math.mod" [.num l, .num r] [.num l]
  generalize callExt ext st "math.mod" [.num l, .num r] [.num l] = p at this
  obtain ⟨res, st'⟩ := p
  simp only
  split <;> exact this

theorem binStr_frame (st : St F) (op : Op) (l r : Str) : FrameR st (binStr st op l r) := by
  unfold binStr FrameR; cases op <;> exact Frame.refl _

theorem binBool_frame (st : St F) (op : Op) (l r : Bool) : FrameR st (binBool st op l r) := by
  unfold binBool FrameR; cases op <;> exact Frame.refl _


theorem binArr_frame (st : St F) (op : Op) (la : Nat) (right : Val F) : FrameR st (binArr ops st op la right) := by
  unfold binArr FrameR
  simp only [alloc]
  split
  · split
    · split
      · split
        · exact alloc_frame _ _
        · exact Frame.refl _
      · exact Frame.refl _
    · split
      · split
        · exact Frame.refl _
        · split
          · exact Frame.refl _
          · split
            · exact Frame.refl _
            · split
              · rename_i es st' h
                exact (replicateCopies_frame _ _ _ _ _ _ h).trans (alloc_frame _ _)
              · exact Frame.refl _
      · exact Frame.refl _
    · exact Frame.refl _
  · exact Frame.refl _

theorem applyBinary_frame (st : St F) (op : Op) (l r : Val F) : FrameR st (applyBinary ops ext st op l r) := by
  unfold applyBinary
  split
  · unfold FrameR; split <;> exact Frame.refl _
  · split
    · split
      · exact binNum_frame ops ext st op _ _
      · exact Frame.refl _
    · split
      · exact binStr_frame st op _ _
      · exact Frame.refl _
    · split
      · exact binBool_frame st op _ _
      · exact Frame.refl _
    · exact binArr_frame ops st op _ _
    · exact Frame.refl _

theorem indexVal_frame (st : St F) (l i : Val F) : FrameR st (indexVal ops st l i) := by
  unfold indexVal FrameR
  repeat' split
  all_goals exact Frame.refl _

theorem sliceVal_frame (st : St F) (l : Val F) (s e : Option (Val F)) : FrameR st (sliceVal ops st l s e) := by
  unfold sliceVal FrameR
  simp only [alloc]
  repeat' split
  all_goals first | exact Frame.refl _ | exact alloc_frame _ _

theorem zeroVal_frame (st : St F) (t : Ty) : Frame st (zeroVal ops st t).2 := by
  unfold zeroVal
  cases t <;> first | exact Frame.refl _ | exact alloc_frame _ _

theorem bindParams_frame : ∀ (ps : List Str) (vs : List (Val F)) (st : St F), Frame st (bindParams ps vs st) := by
  intro ps
  induction ps with
  | nil => intro vs st; simp [bindParams]; exact Frame.refl _
  | cons p rest ih =>
    intro vs st
    cases vs with
    | nil => simp [bindParams]; exact Frame.refl _
    | cons v vs' => simp only [bindParams]; exact (setVar_frame st p v).trans (ih vs' _)

/-- the callee starts with exactly one scope; everything but the scope stack continues from the caller -/
theorem calleeState_frame (fd : FuncDef F) (vs : List (Val F)) (st : St F) :
    Frame { st with locals := [[]] } (calleeState fd vs st) := by
  unfold calleeState
  have h1 := bindParams_frame fd.params vs { st with locals := [[]] }
  cases fd.variadic with
  | none => exact h1
  | some vn => exact h1.trans ((alloc_frame _ _).trans (setVar_frame _ _ _))

/-- what the interpreter needs to know about the built-in functions: a call keeps the frame -/
def BuiltinsOk : Prop :=
  ∀ (name : Str) (vs : List (Val F)) (st : St F) (r : Res F (Val F)), callBuiltin ops ext name vs st = some r → FrameR st r


/-! ### the built-in functions keep the frame -/

theorem callExt_frame' (st st' : St F) (f : String) (a d r : List (XArg F)) (h : callExt ext st f a d = (r, st')) : Frame st st' := by
  have := callExt_frame ext st f a d
  rw [h] at this; exact this

theorem setGlobalErr_frame (st : St F) (b : Bool) (m : Str) : Frame st (setGlobalErr st b m) :=
  ⟨ScopesExt.refl _, Nat.le_refl _, Nat.le_refl _, rfl, id, ⟨[], rfl⟩⟩

theorem forward_frame (st : St F) (name : String) (xs : List (XArg F)) (d : XArg F) : FrameR st (forward ext st name xs d) := by
  unfold forward FrameR
  have := callExt_frame ext st name xs [d]
  generalize callExt ext st name xs [d] = p at this
  obtain ⟨r, st'⟩ := p
  simp only
  split <;> exact this

theorem randLog_frame (st : St F) (q : List (XArg F)) : Frame st { st with randLog := q } :=
  ⟨ScopesExt.refl _, Nat.le_refl _, Nat.le_refl _, rfl, id, ⟨[], rfl⟩⟩

theorem gfxNums_frame (st : St F) (name : String) (args : List (Val F)) : FrameR st (gfxNums st name args) := by
  unfold gfxNums FrameR
  repeat' split
  all_goals first | exact Frame.refl _ | exact emit_frame _ _

theorem gfxStr_frame (st : St F) (name : String) (args : List (Val F)) : FrameR st (gfxStr st name args) := by
  unfold gfxStr FrameR
  repeat' split
  all_goals first | exact Frame.refl _ | exact emit_frame _ _

theorem builtinsOk : BuiltinsOk ops ext := by
  intro name vs st r h
  unfold callBuiltin at h
  simp only [] at h
  split at h
  · simp at h
  · simp only [Option.some.injEq] at h
    subst h
    unfold FrameR
    split
    all_goals (repeat' split)
    all_goals first
      | exact Frame.refl _
      | exact emit_frame _ _
      | exact alloc_frame _ _
      | exact heapSet_frame _ _ _
      | exact setGlobalErr_frame _ _ _
      | exact forward_frame ext _ _ _ _
      | exact Frame.of_same (Frame.refl _) _ rfl rfl rfl rfl rfl rfl
      | exact Frame.of_same (emit_frame _ _) _ rfl rfl rfl rfl rfl rfl
      | (exact callExt_frame' ext _ _ _ _ _ _ (by assumption))
      | (exact (callExt_frame' ext _ _ _ _ _ _ (by assumption)).trans (setGlobalErr_frame _ _ _))
      | (exact (callExt_frame' ext _ _ _ _ _ _ (by assumption)).trans (alloc_frame _ _))
      | (exact (callExt_frame' ext _ _ _ _ _ _ (by assumption)).trans (emit_frame _ _))
      | exact gfxNums_frame _ _ _
      | exact gfxStr_frame _ _ _
      | exact callExt_frame ext _ _ _ _
      | exact (callExt_frame ext _ _ _ _).trans (emit_frame _ _)
      | exact (callExt_frame ext _ _ _ _).trans (alloc_frame _ _)
      | exact (callExt_frame ext _ _ _ _).trans (setGlobalErr_frame _ _ _)
      | exact ((callExt_frame ext _ _ _ _).trans (callExt_frame ext _ _ _ _)).trans (setGlobalErr_frame _ _ _)
      | exact (randLog_frame st _).trans (callExt_frame ext _ _ _ _)


variable (prog : Program F)

/-- the invariant for all thirteen mutually recursive functions at one step budget -/
def AllFrame (n : Nat) : Prop :=
  (∀ (e : Expr F) st, FrameR st (evalE ops ext prog n e st)) ∧
  (∀ (oe : Option (Expr F)) st, FrameR st (evalOpt ops ext prog n oe st)) ∧
  (∀ (es : List (Expr F)) st, FrameR st (evalList ops ext prog n es st)) ∧
  (∀ (ps : List (Str × Expr F)) st, FrameR st (evalPairs ops ext prog n ps st)) ∧
  (∀ (name : Str) (args : List (Expr F)) st, FrameR st (evalCall ops ext prog n name args st)) ∧
  (∀ (b : List (Stmt F)) st, FrameR st (execBlockNode ops ext prog n b st)) ∧
  (∀ (b : List (Stmt F)) st, FrameR st (execStmts ops ext prog n b st)) ∧
  (∀ (c : Expr F) (b : List (Stmt F)) st, FrameR st (execCond ops ext prog n c b st)) ∧
  (∀ (cs : List (Expr F × List (Stmt F))) (e : Option (List (Stmt F))) st, FrameR st (execIfChain ops ext prog n cs e st)) ∧
  (∀ (c : Expr F) (b : List (Stmt F)) st, FrameR st (execWhile ops ext prog n c b st)) ∧
  (∀ (lv : Str) (r : Ranger F) (b : List (Stmt F)) st, FrameR st (execForLoop ops ext prog n lv r b st)) ∧
  (∀ (oe : Option (Expr F)) (d : F) st, FrameR st (evalNumOr ops ext prog n oe d st)) ∧
  (∀ (s : Stmt F) st, FrameR st (execS ops ext prog n s st))

theorem frame_ok {α : Type} {st st' : St F} {a : α} {r : Res F α} (h : FrameR st r) (e : r = .ok a st') : Frame st st' := by
  subst e; exact h

theorem frame_err {α : Type} {st st' : St F} {o : Outcome} {r : Res F α} (h : FrameR st r) (e : r = .err o st') : Frame st st' := by
  subst e; exact h

theorem evalE_step (n : Nat) (ih : AllFrame ops ext prog n) :
    ∀ (e : Expr F) st, FrameR st (evalE ops ext prog (n + 1) e st) := by
  obtain ⟨ihE, ihOpt, ihList, ihPairs, ihCall, _⟩ := ih
  intro e st0
  unfold evalE
  cases ht : tick st0 with
  | none => exact Frame.refl _
  | some st =>
    have ft := tick_frame st0 st ht
    simp only
    cases e with
    | num v => exact ft
    | str v => exact ft
    | bool v => exact ft
    | var nm => simp only; split <;> exact ft
    | any t inner =>
      simp only
      cases hi : evalE ops ext prog n inner st with
      | err o s1 => exact ft.trans (frame_err (ihE inner st) hi)
      | ok v s1 =>
        have f1 := ft.trans (frame_ok (ihE inner st) hi)
        cases v <;> exact f1
    | arr elems =>
      simp only
      cases hi : evalList ops ext prog n elems st with
      | err o s1 => exact ft.trans (frame_err (ihList elems st) hi)
      | ok vs s1 => exact (ft.trans (frame_ok (ihList elems st) hi)).trans (alloc_frame _ _)
    | mapLit pairs =>
      simp only
      cases hi : evalPairs ops ext prog n pairs st with
      | err o s1 => exact ft.trans (frame_err (ihPairs pairs st) hi)
      | ok vs s1 => exact (ft.trans (frame_ok (ihPairs pairs st) hi)).trans (alloc_frame _ _)
    | call name args => exact ft.trans (ihCall name args st)
    | group inner => exact ft.trans (ihE inner st)
    | unary op inner =>
      simp only
      cases hi : evalE ops ext prog n inner st with
      | err o s1 => exact ft.trans (frame_err (ihE inner st) hi)
      | ok v s1 =>
        have f1 := ft.trans (frame_ok (ihE inner st) hi)
        cases v <;> simp only <;> first | exact f1 | (split <;> exact f1)
    | binary op l r =>
      simp only
      cases hl : evalE ops ext prog n l st with
      | err o s1 => exact ft.trans (frame_err (ihE l st) hl)
      | ok lv s1 =>
        have f1 := ft.trans (frame_ok (ihE l st) hl)
        simp only
        split
        · exact f1.trans (applyBinary_frame ops ext s1 op lv lv)
        · cases hr : evalE ops ext prog n r s1 with
          | err o s2 => exact f1.trans (frame_err (ihE r s1) hr)
          | ok rv s2 => exact (f1.trans (frame_ok (ihE r s1) hr)).trans (applyBinary_frame ops ext s2 op lv rv)
    | index l i =>
      simp only
      cases hl : evalE ops ext prog n l st with
      | err o s1 => exact ft.trans (frame_err (ihE l st) hl)
      | ok lv s1 =>
        have f1 := ft.trans (frame_ok (ihE l st) hl)
        simp only
        cases hr : evalE ops ext prog n i s1 with
        | err o s2 => exact f1.trans (frame_err (ihE i s1) hr)
        | ok iv s2 => exact (f1.trans (frame_ok (ihE i s1) hr)).trans (indexVal_frame ops s2 lv iv)
    | slice l s e =>
      simp only
      cases hl : evalE ops ext prog n l st with
      | err o s1 => exact ft.trans (frame_err (ihE l st) hl)
      | ok lv s1 =>
        have f1 := ft.trans (frame_ok (ihE l st) hl)
        simp only
        cases hs : evalOpt ops ext prog n s s1 with
        | err o s2 => exact f1.trans (frame_err (ihOpt s s1) hs)
        | ok sv s2 =>
          have f2 := f1.trans (frame_ok (ihOpt s s1) hs)
          simp only
          cases he : evalOpt ops ext prog n e s2 with
          | err o s3 => exact f2.trans (frame_err (ihOpt e s2) he)
          | ok ev s3 => exact (f2.trans (frame_ok (ihOpt e s2) he)).trans (sliceVal_frame ops s3 lv sv ev)
    | dot l key =>
      simp only
      cases hl : evalE ops ext prog n l st with
      | err o s1 => exact ft.trans (frame_err (ihE l st) hl)
      | ok lv s1 =>
        have f1 := ft.trans (frame_ok (ihE l st) hl)
        cases lv <;> simp only <;> first | exact f1 | (repeat' split) <;> exact f1
    | assert t inner =>
      simp only
      cases hi : evalE ops ext prog n inner st with
      | err o s1 => exact ft.trans (frame_err (ihE inner st) hi)
      | ok v s1 =>
        have f1 := ft.trans (frame_ok (ihE inner st) hi)
        cases v <;> simp only <;> first | exact f1 | (split <;> exact f1)


theorem evalOpt_step (n : Nat) (ih : AllFrame ops ext prog n) :
    ∀ (oe : Option (Expr F)) st, FrameR st (evalOpt ops ext prog (n + 1) oe st) := by
  obtain ⟨ihE, _⟩ := ih
  intro oe st
  cases oe with
  | none => simp only [evalOpt]; exact Frame.refl _
  | some e =>
    simp only [evalOpt]
    cases hi : evalE ops ext prog n e st with
    | err o s1 => exact frame_err (ihE e st) hi
    | ok v s1 => exact frame_ok (ihE e st) hi

theorem evalList_step (n : Nat) (ih : AllFrame ops ext prog n) :
    ∀ (es : List (Expr F)) st, FrameR st (evalList ops ext prog (n + 1) es st) := by
  obtain ⟨ihE, _, ihList, _⟩ := ih
  intro es st
  cases es with
  | nil => simp only [evalList]; exact Frame.refl _
  | cons e rest =>
    simp only [evalList]
    cases hi : evalE ops ext prog n e st with
    | err o s1 => exact frame_err (ihE e st) hi
    | ok v s1 =>
      have f1 := frame_ok (ihE e st) hi
      simp only
      cases hr : evalList ops ext prog n rest s1 with
      | err o s2 => exact f1.trans (frame_err (ihList rest s1) hr)
      | ok vs s2 => exact f1.trans (frame_ok (ihList rest s1) hr)

theorem evalPairs_step (n : Nat) (ih : AllFrame ops ext prog n) :
    ∀ (ps : List (Str × Expr F)) st, FrameR st (evalPairs ops ext prog (n + 1) ps st) := by
  obtain ⟨ihE, _, _, ihPairs, _⟩ := ih
  intro ps st
  cases ps with
  | nil => simp only [evalPairs]; exact Frame.refl _
  | cons p rest =>
    obtain ⟨k, e⟩ := p
    simp only [evalPairs]
    cases hi : evalE ops ext prog n e st with
    | err o s1 => exact frame_err (ihE e st) hi
    | ok v s1 =>
      have f1 := frame_ok (ihE e st) hi
      simp only
      cases hr : evalPairs ops ext prog n rest s1 with
      | err o s2 => exact f1.trans (frame_err (ihPairs rest s1) hr)
      | ok vs s2 => exact f1.trans (frame_ok (ihPairs rest s1) hr)

/-- restoring the caller's scopes after the callee ran from `calleeState` -/
theorem call_restore (fd : FuncDef F) (vs : List (Val F)) (st' st4 : St F)
    (h : Frame (calleeState fd vs st') st4) : Frame st' { st4 with locals := st'.locals } := by
  have h0 := calleeState_frame fd vs st'
  have h1 := h0.trans h
  obtain ⟨suf, hs⟩ := h1.trace
  exact ⟨ScopesExt.refl _, h1.heap, h1.yields, h1.stopAt, h1.latch, ⟨suf, hs⟩⟩

theorem evalCall_step (hB : BuiltinsOk ops ext) (n : Nat) (ih : AllFrame ops ext prog n) :
    ∀ (name : Str) (args : List (Expr F)) st, FrameR st (evalCall ops ext prog (n + 1) name args st) := by
  obtain ⟨_, _, ihList, _, _, ihBlock, _⟩ := ih
  intro name args st
  simp only [evalCall]
  cases hl : evalList ops ext prog n args st with
  | err o s1 => exact frame_err (ihList args st) hl
  | ok vs s1 =>
    have f1 := frame_ok (ihList args st) hl
    simp only
    cases hb : callBuiltin ops ext name vs s1 with
    | some r =>
      have fb : Frame s1 r.st := hB name vs s1 r hb
      simp only
      split
      · -- test bookkeeping only touches the counters
        split
        · exact f1.trans (Frame.of_same fb _ rfl rfl rfl rfl rfl rfl)
        · split <;> exact f1.trans (Frame.of_same fb _ rfl rfl rfl rfl rfl rfl)
        · exact f1.trans (Frame.of_same fb _ rfl rfl rfl rfl rfl rfl)
      · exact f1.trans fb
    | none =>
      simp only
      cases hf : lookupFunc prog.funcs name with
      | none => exact f1
      | some fd =>
        simp only
        split
        · exact f1
        · cases hx : execBlockNode ops ext prog n fd.body (calleeState fd vs s1) with
          | err o s4 => exact f1.trans (call_restore fd vs s1 s4 (frame_err (ihBlock fd.body _) hx))
          | ok c s4 =>
            have f2 := f1.trans (call_restore fd vs s1 s4 (frame_ok (ihBlock fd.body _) hx))
            cases c with
            | ret v => cases v <;> exact f2
            | normal => exact f2
            | brk => exact f2


theorem execBlockNode_step (n : Nat) (ih : AllFrame ops ext prog n) :
    ∀ (b : List (Stmt F)) st, FrameR st (execBlockNode ops ext prog (n + 1) b st) := by
  obtain ⟨_, _, _, _, _, _, ihStmts, _⟩ := ih
  intro b st0
  unfold execBlockNode
  cases ht : tick st0 with
  | none => exact Frame.refl _
  | some st => exact (tick_frame st0 st ht).trans (ihStmts b st)

theorem execStmts_step (n : Nat) (ih : AllFrame ops ext prog n) :
    ∀ (b : List (Stmt F)) st, FrameR st (execStmts ops ext prog (n + 1) b st) := by
  obtain ⟨_, _, _, _, _, _, ihStmts, _, _, _, _, _, ihS⟩ := ih
  intro b st
  cases b with
  | nil => simp only [execStmts]; exact Frame.refl _
  | cons s rest =>
    simp only [execStmts]
    cases hs : execS ops ext prog n s st with
    | err o s1 => exact frame_err (ihS s st) hs
    | ok c s1 =>
      have f1 := frame_ok (ihS s st) hs
      cases c with
      | normal => exact f1.trans (ihStmts rest s1)
      | brk => exact f1
      | ret v => exact f1

theorem execCond_step (n : Nat) (ih : AllFrame ops ext prog n) :
    ∀ (c : Expr F) (b : List (Stmt F)) st, FrameR st (execCond ops ext prog (n + 1) c b st) := by
  obtain ⟨ihE, _, _, _, _, ihBlock, _⟩ := ih
  intro c b st
  simp only [execCond]
  cases he : evalE ops ext prog n c (pushScope st) with
  | err o s1 => exact push_pop_frame st s1 (frame_err (ihE c _) he)
  | ok v s1 =>
    have f1 : Frame (pushScope st) s1 := frame_ok (ihE c _) he
    cases v with
    | bool bv =>
      cases bv with
      | true =>
        simp only
        cases hx : execBlockNode ops ext prog n b s1 with
        | err o s2 => exact push_pop_frame st s2 (f1.trans (frame_err (ihBlock b s1) hx))
        | ok comp s2 => exact push_pop_frame st s2 (f1.trans (frame_ok (ihBlock b s1) hx))
      | false => exact push_pop_frame st s1 f1
    | _ => exact push_pop_frame st s1 f1

theorem execIfChain_step (n : Nat) (ih : AllFrame ops ext prog n) :
    ∀ (cs : List (Expr F × List (Stmt F))) (e : Option (List (Stmt F))) st,
      FrameR st (execIfChain ops ext prog (n + 1) cs e st) := by
  obtain ⟨_, _, _, _, _, ihBlock, _, ihCond, ihIf, _⟩ := ih
  intro cs e st
  cases cs with
  | nil =>
    simp only [execIfChain]
    cases e with
    | none => exact Frame.refl _
    | some body =>
      simp only
      cases hx : execBlockNode ops ext prog n body (pushScope st) with
      | err o s2 => exact push_pop_frame st s2 (frame_err (ihBlock body _) hx)
      | ok comp s2 => exact push_pop_frame st s2 (frame_ok (ihBlock body _) hx)
  | cons cb rest =>
    obtain ⟨c, body⟩ := cb
    simp only [execIfChain]
    cases hx : execCond ops ext prog n c body st with
    | err o s1 => exact frame_err (ihCond c body st) hx
    | ok r s1 =>
      have f1 := frame_ok (ihCond c body st) hx
      obtain ⟨comp, taken⟩ := r
      cases taken with
      | true => exact f1
      | false => exact f1.trans (ihIf rest e s1)

theorem execWhile_step (n : Nat) (ih : AllFrame ops ext prog n) :
    ∀ (c : Expr F) (b : List (Stmt F)) st, FrameR st (execWhile ops ext prog (n + 1) c b st) := by
  obtain ⟨_, _, _, _, _, _, _, ihCond, _, ihWhile, _⟩ := ih
  intro c b st
  simp only [execWhile]
  cases hx : execCond ops ext prog n c b st with
  | err o s1 => exact frame_err (ihCond c b st) hx
  | ok r s1 =>
    have f1 := frame_ok (ihCond c b st) hx
    obtain ⟨comp, taken⟩ := r
    cases taken with
    | false => exact f1
    | true =>
      cases comp with
      | brk => exact f1
      | ret v => exact f1
      | normal => exact f1.trans (ihWhile c b s1)

theorem execForLoop_step (n : Nat) (ih : AllFrame ops ext prog n) :
    ∀ (lv : Str) (r : Ranger F) (b : List (Stmt F)) st, FrameR st (execForLoop ops ext prog (n + 1) lv r b st) := by
  obtain ⟨_, _, _, _, _, ihBlock, _, _, _, _, ihFor, _⟩ := ih
  intro lv r b st
  simp only [execForLoop]
  cases hn : rangerNext ops st r with
  | none => exact Frame.refl _
  | some p =>
    obtain ⟨v, r'⟩ := p
    simp only
    cases hu : updateVar st lv v with
    | none => exact Frame.refl _
    | some st1 =>
      have f1 := updateVar_frame st st1 lv v hu
      simp only
      cases hx : execBlockNode ops ext prog n b (pushScope st1) with
      | err o s2 => exact f1.trans (push_pop_frame st1 s2 (frame_err (ihBlock b _) hx))
      | ok comp s2 =>
        have f2 := f1.trans (push_pop_frame st1 s2 (frame_ok (ihBlock b _) hx))
        cases comp with
        | brk => exact f2
        | ret rv => exact f2
        | normal => exact f2.trans (ihFor lv r' b (popScope s2))

theorem evalNumOr_step (n : Nat) (ih : AllFrame ops ext prog n) :
    ∀ (oe : Option (Expr F)) (d : F) st, FrameR st (evalNumOr ops ext prog (n + 1) oe d st) := by
  obtain ⟨ihE, _⟩ := ih
  intro oe d st
  have key : ∀ e : Expr F, FrameR st (match evalE ops ext prog n e st with
      | .err o st' => (.err o st' : Res F F)
      | .ok (.num v) st' => .ok v st'
      | .ok _ st' => .err (.internal "ErrType: expected number") st') := by
    intro e
    cases he : evalE ops ext prog n e st with
    | err o s1 => exact frame_err (ihE e st) he
    | ok v s1 =>
      have f1 := frame_ok (ihE e st) he
      cases v <;> exact f1
  cases oe with
  | none => simp only [evalNumOr]; exact key _
  | some e => simp only [evalNumOr]; exact key _


/-- the tail of evalFor: after the ranger has been created inside the loop's own scope -/
theorem for_tail (n : Nat) (ihFor : ∀ (lv : Str) (r : Ranger F) (b : List (Stmt F)) st, FrameR st (execForLoop ops ext prog n lv r b st))
    (st : St F) (lv : Str) (body : List (Stmt F)) (rr : Res F (Ranger F)) (h : FrameR (pushScope st) rr) :
    FrameR st (match rr with
      | .err o s => (.err o (popScope s) : Res F (Completion F))
      | .ok r s =>
        match execForLoop ops ext prog n lv r body s with
        | .err o s' => .err o (popScope s')
        | .ok c s' => .ok c (popScope s')) := by
  cases rr with
  | err o s => exact push_pop_frame st s h
  | ok r s =>
    have h0 : Frame (pushScope st) s := h
    simp only
    cases hx : execForLoop ops ext prog n lv r body s with
    | err o s' => exact push_pop_frame st s' (h0.trans (frame_err (ihFor lv r body s) hx))
    | ok c s' => exact push_pop_frame st s' (h0.trans (frame_ok (ihFor lv r body s) hx))

theorem execS_step (n : Nat) (ih : AllFrame ops ext prog n) :
    ∀ (s : Stmt F) st, FrameR st (execS ops ext prog (n + 1) s st) := by
  obtain ⟨ihE, _, _, _, ihCall, _, _, _, ihIf, ihWhile, ihFor, ihNumOr, _⟩ := ih
  intro s st0
  unfold execS
  cases ht : tick st0 with
  | none => exact Frame.refl _
  | some st =>
    have ft := tick_frame st0 st ht
    simp only
    cases s with
    | noop => exact ft
    | brk => exact ft
    | decl name value =>
      simp only
      cases he : evalE ops ext prog n value st with
      | err o s1 => exact ft.trans (frame_err (ihE value st) he)
      | ok v s1 => exact (ft.trans (frame_ok (ihE value st) he)).trans (setVar_frame _ _ _)
    | callS e =>
      cases e with
      | call name args =>
        simp only
        cases hc : evalCall ops ext prog n name args st with
        | err o s1 => exact ft.trans (frame_err (ihCall name args st) hc)
        | ok v s1 => exact ft.trans (frame_ok (ihCall name args st) hc)
      | _ => exact ft
    | ret v =>
      cases v with
      | none => exact ft
      | some e =>
        simp only
        cases he : evalE ops ext prog n e st with
        | err o s1 => exact ft.trans (frame_err (ihE e st) he)
        | ok v s1 => exact ft.trans (frame_ok (ihE e st) he)
    | ifS conds els => exact ft.trans (ihIf conds els st)
    | whileS c body => exact ft.trans (ihWhile c body st)
    | assign target value =>
      simp only
      cases he : evalE ops ext prog n value st with
      | err o s1 => exact ft.trans (frame_err (ihE value st) he)
      | ok v s1 =>
        have f1 := ft.trans (frame_ok (ihE value st) he)
        simp only
        cases target with
        | var nm =>
          simp only
          cases hu : updateVar s1 nm v with
          | none => exact f1
          | some s2 => exact f1.trans (updateVar_frame s1 s2 nm v hu)
        | index l i =>
          simp only
          cases hl : evalE ops ext prog n l s1 with
          | err o s2 => exact f1.trans (frame_err (ihE l s1) hl)
          | ok left s2 =>
            have f2 := f1.trans (frame_ok (ihE l s1) hl)
            simp only
            cases hi : evalE ops ext prog n i s2 with
            | err o s3 => exact f2.trans (frame_err (ihE i s2) hi)
            | ok idx s3 =>
              have f3 := f2.trans (frame_ok (ihE i s2) hi)
              simp only
              repeat' split
              all_goals first | exact f3 | exact f3.trans (heapSet_frame _ _ _)
        | dot l key =>
          simp only
          cases hl : evalE ops ext prog n l s1 with
          | err o s2 => exact f1.trans (frame_err (ihE l s1) hl)
          | ok left s2 =>
            have f2 := f1.trans (frame_ok (ihE l s1) hl)
            cases left <;> simp only <;> first | exact f2 | ((repeat' split) <;> first | exact f2 | exact f2.trans (heapSet_frame _ _ _))
        | _ => exact f1
    | forS lvOpt lvTy range body =>
      refine ft.trans (for_tail ops ext prog n ihFor st _ body _ ?_)
      cases range with
      | step start stop step =>
        simp only
        cases h1 : evalNumOr ops ext prog n start ops.zero (pushScope st) with
        | err o s1 => exact frame_err (ihNumOr start ops.zero _) h1
        | ok a s1 =>
          have f1 := frame_ok (ihNumOr start ops.zero _) h1
          simp only
          cases h2 : evalNumOr ops ext prog n (some stop) ops.zero s1 with
          | err o s2 => exact f1.trans (frame_err (ihNumOr (some stop) ops.zero s1) h2)
          | ok b s2 =>
            have f2 := f1.trans (frame_ok (ihNumOr (some stop) ops.zero s1) h2)
            simp only
            cases h3 : evalNumOr ops ext prog n step ops.one s2 with
            | err o s3 => exact f2.trans (frame_err (ihNumOr step ops.one s2) h3)
            | ok c s3 =>
              have f3 := f2.trans (frame_ok (ihNumOr step ops.one s2) h3)
              simp only
              split
              · exact f3
              · cases lvOpt with
                | none => exact f3
                | some nm => exact f3.trans (setVar_frame _ _ _)
      | over e =>
        simp only
        cases he : evalE ops ext prog n e (pushScope st) with
        | err o s1 => exact frame_err (ihE e _) he
        | ok v s1 =>
          have f1 : Frame (pushScope st) s1 := frame_ok (ihE e _) he
          cases v with
          | arr a =>
            cases lvOpt with
            | none => exact f1
            | some nm => exact f1.trans ((zeroVal_frame ops s1 lvTy).trans (setVar_frame _ _ _))
          | str cs =>
            cases lvOpt with
            | none => exact f1
            | some nm => exact f1.trans (setVar_frame _ _ _)
          | map a =>
            simp only
            split
            · cases lvOpt with
              | none => exact f1
              | some nm => exact f1.trans (setVar_frame _ _ _)
            · exact f1
          | _ => exact f1


theorem allFrame_zero : AllFrame ops ext prog 0 := by
  refine ⟨?_, ?_, ?_, ?_, ?_, ?_, ?_, ?_, ?_, ?_, ?_, ?_, ?_⟩ <;> intros <;>
    simp only [evalE, evalOpt, evalList, evalPairs, evalCall, execBlockNode, execStmts, execCond, execIfChain,
      execWhile, execForLoop, evalNumOr, execS] <;> exact Frame.refl _

/-- **the frame invariant**, for every program, every state, every oracle and every step budget: all
thirteen functions of the interpreter leave a state that extends the one they started from -/
theorem allFrame (hB : BuiltinsOk ops ext) : ∀ n, AllFrame ops ext prog n := by
  intro n
  induction n with
  | zero => exact allFrame_zero ops ext prog
  | succ k ih =>
    exact ⟨evalE_step ops ext prog k ih, evalOpt_step ops ext prog k ih, evalList_step ops ext prog k ih,
      evalPairs_step ops ext prog k ih, evalCall_step ops ext prog hB k ih, execBlockNode_step ops ext prog k ih,
      execStmts_step ops ext prog k ih, execCond_step ops ext prog k ih, execIfChain_step ops ext prog k ih,
      execWhile_step ops ext prog k ih, execForLoop_step ops ext prog k ih, evalNumOr_step ops ext prog k ih,
      execS_step ops ext prog k ih⟩


/-- **the frame invariant, unconditionally** -/
theorem frame_invariant : ∀ n, AllFrame ops ext prog n := allFrame ops ext prog (builtinsOk ops ext)

/-! ### corollaries in the words of the properties -/

/-- C10: a statement list — whatever it does, however it ends — leaves the scope stack as deep as it
found it: every block scope is popped on every exit path, a call restores the caller's scopes -/
theorem scopes_balanced (n : Nat) (b : List (Stmt F)) (st : St F) :
    (execStmts ops ext prog n b st).st.locals.length = st.locals.length :=
  ((frame_invariant ops ext prog n).2.2.2.2.2.2.1 b st).locals.length_eq

theorem scopes_balanced_expr (n : Nat) (e : Expr F) (st : St F) :
    (evalE ops ext prog n e st).st.locals.length = st.locals.length :=
  ((frame_invariant ops ext prog n).1 e st).locals.length_eq

/-- C09: no object is ever freed or moved — an address that is valid stays valid, through any
execution -/
theorem addresses_stay_valid (n : Nat) (b : List (Stmt F)) (st : St F) (a : Nat) (h : a < st.heap.size) :
    a < (execStmts ops ext prog n b st).st.heap.size :=
  Nat.lt_of_lt_of_le h ((frame_invariant ops ext prog n).2.2.2.2.2.2.1 b st).heap

/-- C14: a raised stop flag stays raised, the stop request is not altered, the yield counter and the
platform trace only grow — through any execution -/
theorem stop_latched_effects_kept (n : Nat) (b : List (Stmt F)) (st : St F) :
    let st' := (execStmts ops ext prog n b st).st
    (st.stopped = true → st'.stopped = true) ∧ st'.stopAt = st.stopAt ∧ st.yields ≤ st'.yields ∧
    ∃ suf, st'.trace = suf ++ st.trace :=
  let f := (frame_invariant ops ext prog n).2.2.2.2.2.2.1 b st
  ⟨f.latch, f.stopAt, f.yields, f.trace⟩


/-! ### block-local declarations do not leak -/

/-- every scope has exactly the names it had -/
def SameNames (st st' : St F) : Prop := st'.locals.map keys = st.locals.map keys

theorem SameNames.refl (st : St F) : SameNames st st := rfl
theorem SameNames.trans {a b c : St F} (h1 : SameNames a b) (h2 : SameNames b c) : SameNames a c :=
  Eq.trans h2 h1

theorem tick_sameNames (st st' : St F) (h : tick st = some st') : SameNames st st' := by
  unfold tick at h
  cases hs : st.stopped <;> simp [hs] at h
  subst h; rfl

/-- whatever ran inside a pushed scope, after the pop every scope has its old names -/
theorem push_pop_sameNames (st st' : St F) (h : Frame (pushScope st) st') : SameNames st (popScope st') := by
  have hl := h.locals
  simp only [pushScope] at hl
  cases hl' : st'.locals with
  | nil => rw [hl'] at hl; exact hl.elim
  | cons s' rest' =>
    rw [hl'] at hl
    simp only [SameNames, popScope, hl', List.tail_cons]
    exact hl.2

theorem updateVar_sameNames (st st' : St F) (n : Str) (v : Val F) (h : updateVar st n v = some st') : SameNames st st' := by
  unfold updateVar at h
  split at h
  · simp at h; subst h; rfl
  · split at h
    · rename_i l hl
      simp at h; subst h
      exact updateLocals_keys _ _ _ _ hl
    · split at h
      · simp at h; subst h; rfl
      · simp at h

theorem execCond_sameNames (n : Nat) (c : Expr F) (b : List (Stmt F)) (st : St F) :
    SameNames st (execCond ops ext prog n c b st).st := by
  cases n with
  | zero => simp only [execCond]; exact SameNames.refl _
  | succ k =>
    obtain ⟨ihE, _, _, _, _, ihBlock, _⟩ := frame_invariant ops ext prog k
    simp only [execCond]
    cases he : evalE ops ext prog k c (pushScope st) with
    | err o s1 => exact push_pop_sameNames st s1 (frame_err (ihE c _) he)
    | ok v s1 =>
      have f1 : Frame (pushScope st) s1 := frame_ok (ihE c _) he
      cases v with
      | bool bv =>
        cases bv with
        | true =>
          simp only
          cases hx : execBlockNode ops ext prog k b s1 with
          | err o s2 => exact push_pop_sameNames st s2 (f1.trans (frame_err (ihBlock b s1) hx))
          | ok comp s2 => exact push_pop_sameNames st s2 (f1.trans (frame_ok (ihBlock b s1) hx))
        | false => exact push_pop_sameNames st s1 f1
      | _ => exact push_pop_sameNames st s1 f1

theorem execIfChain_sameNames : ∀ (n : Nat) (cs : List (Expr F × List (Stmt F))) (e : Option (List (Stmt F))) (st : St F),
    SameNames st (execIfChain ops ext prog n cs e st).st := by
  intro n
  induction n with
  | zero => intro cs e st; simp only [execIfChain]; exact SameNames.refl _
  | succ k ih =>
    intro cs e st
    cases cs with
    | nil =>
      simp only [execIfChain]
      cases e with
      | none => exact SameNames.refl _
      | some body =>
        simp only
        have ihBlock := (frame_invariant ops ext prog k).2.2.2.2.2.1
        cases hx : execBlockNode ops ext prog k body (pushScope st) with
        | err o s2 => exact push_pop_sameNames st s2 (frame_err (ihBlock body _) hx)
        | ok comp s2 => exact push_pop_sameNames st s2 (frame_ok (ihBlock body _) hx)
    | cons cb rest =>
      obtain ⟨c, body⟩ := cb
      simp only [execIfChain]
      have hc := execCond_sameNames ops ext prog k c body st
      cases hx : execCond ops ext prog k c body st with
      | err o s1 => rw [hx] at hc; exact hc
      | ok r s1 =>
        rw [hx] at hc
        obtain ⟨comp, taken⟩ := r
        cases taken with
        | true => exact hc
        | false => exact SameNames.trans hc (ih rest e s1)

theorem execWhile_sameNames : ∀ (n : Nat) (c : Expr F) (b : List (Stmt F)) (st : St F),
    SameNames st (execWhile ops ext prog n c b st).st := by
  intro n
  induction n with
  | zero => intro c b st; simp only [execWhile]; exact SameNames.refl _
  | succ k ih =>
    intro c b st
    simp only [execWhile]
    have hc := execCond_sameNames ops ext prog k c b st
    cases hx : execCond ops ext prog k c b st with
    | err o s1 => rw [hx] at hc; exact hc
    | ok r s1 =>
      rw [hx] at hc
      obtain ⟨comp, taken⟩ := r
      cases taken with
      | false => exact hc
      | true =>
        cases comp with
        | brk => exact hc
        | ret v => exact hc
        | normal => exact SameNames.trans hc (ih c b s1)

theorem for_tail_sameNames (n : Nat) (ihFor : ∀ (lv : Str) (r : Ranger F) (b : List (Stmt F)) st, FrameR st (execForLoop ops ext prog n lv r b st))
    (st : St F) (lv : Str) (body : List (Stmt F)) (rr : Res F (Ranger F)) (h : FrameR (pushScope st) rr) :
    SameNames st (match rr with
      | .err o s => (.err o (popScope s) : Res F (Completion F))
      | .ok r s =>
        match execForLoop ops ext prog n lv r body s with
        | .err o s' => .err o (popScope s')
        | .ok c s' => .ok c (popScope s')).st := by
  cases rr with
  | err o s => exact push_pop_sameNames st s h
  | ok r s =>
    have h0 : Frame (pushScope st) s := h
    simp only
    cases hx : execForLoop ops ext prog n lv r body s with
    | err o s' => exact push_pop_sameNames st s' (h0.trans (frame_err (ihFor lv r body s) hx))
    | ok c s' => exact push_pop_sameNames st s' (h0.trans (frame_ok (ihFor lv r body s) hx))

/-- **C10, whole programs**: a `for` statement — whatever its range, its body and the way it ends —
leaves every scope with exactly the names it had: the loop variable and everything the body declares
are gone afterwards, nothing visible before is lost -/
theorem for_declares_nothing_outside (m : Nat) (lvOpt : Option Str) (lvTy : Ty) (range : ForRange F) (body : List (Stmt F)) (st0 : St F) :
    SameNames st0 (execS ops ext prog m (.forS lvOpt lvTy range body) st0).st := by
  cases m with
  | zero => simp only [execS]; exact SameNames.refl _
  | succ n =>
    obtain ⟨ihE, _, _, _, _, _, _, _, _, _, ihFor, ihNumOr, _⟩ := frame_invariant ops ext prog n
    unfold execS
    cases ht : tick st0 with
    | none => exact SameNames.refl _
    | some st =>
      have ft := tick_sameNames st0 st ht
      refine SameNames.trans ft (for_tail_sameNames ops ext prog n ihFor st _ body _ ?_)
      cases range with
      | step start stop step =>
        simp only
        cases h1 : evalNumOr ops ext prog n start ops.zero (pushScope st) with
        | err o s1 => exact frame_err (ihNumOr start ops.zero _) h1
        | ok a s1 =>
          have f1 := frame_ok (ihNumOr start ops.zero _) h1
          simp only
          cases h2 : evalNumOr ops ext prog n (some stop) ops.zero s1 with
          | err o s2 => exact f1.trans (frame_err (ihNumOr (some stop) ops.zero s1) h2)
          | ok b s2 =>
            have f2 := f1.trans (frame_ok (ihNumOr (some stop) ops.zero s1) h2)
            simp only
            cases h3 : evalNumOr ops ext prog n step ops.one s2 with
            | err o s3 => exact f2.trans (frame_err (ihNumOr step ops.one s2) h3)
            | ok c s3 =>
              have f3 := f2.trans (frame_ok (ihNumOr step ops.one s2) h3)
              simp only
              split
              · exact f3
              · cases lvOpt with
                | none => exact f3
                | some nm => exact f3.trans (setVar_frame _ _ _)
      | over e =>
        simp only
        cases he : evalE ops ext prog n e (pushScope st) with
        | err o s1 => exact frame_err (ihE e _) he
        | ok v s1 =>
          have f1 : Frame (pushScope st) s1 := frame_ok (ihE e _) he
          cases v with
          | arr a =>
            cases lvOpt with
            | none => exact f1
            | some nm => exact f1.trans ((zeroVal_frame ops s1 lvTy).trans (setVar_frame _ _ _))
          | str cs =>
            cases lvOpt with
            | none => exact f1
            | some nm => exact f1.trans (setVar_frame _ _ _)
          | map a =>
            simp only
            split
            · cases lvOpt with
              | none => exact f1
              | some nm => exact f1.trans (setVar_frame _ _ _)
            · exact f1
          | _ => exact f1

/-- **C10, whole programs**: an `if` / `else if` / `else` chain and a `while` loop, whatever their
bodies declare and however they end, leave every scope with exactly the names it had: nothing declared
in a block is visible after it, nothing visible before is lost -/
theorem if_while_declare_nothing_outside (n : Nat) (s : Stmt F) (st : St F)
    (hs : (∃ cs e, s = .ifS cs e) ∨ (∃ c b, s = .whileS c b)) :
    SameNames st (execS ops ext prog n s st).st := by
  cases n with
  | zero => simp only [execS]; exact SameNames.refl _
  | succ k =>
    unfold execS
    cases ht : tick st with
    | none => exact SameNames.refl _
    | some st1 =>
      have ft := tick_sameNames st st1 ht
      rcases hs with ⟨cs, e, rfl⟩ | ⟨c, b, rfl⟩
      · exact SameNames.trans ft (execIfChain_sameNames ops ext prog k cs e st1)
      · exact SameNames.trans ft (execWhile_sameNames ops ext prog k c b st1)

theorem bindPayload_frame : ∀ (ps : List (Str × Ty)) (vs : List (Val F)) (st st' : St F),
    bindPayload ps vs st = some st' → Frame st st' := by
  intro ps
  induction ps with
  | nil => intro vs st st' h; simp [bindPayload] at h; subst h; exact Frame.refl _
  | cons p rest ih =>
    intro vs st st' h
    obtain ⟨n, t⟩ := p
    cases vs with
    | nil => simp [bindPayload] at h
    | cons v vs' =>
      simp only [bindPayload] at h
      split at h
      · exact (setVar_frame st n v).trans (ih vs' _ st' h)
      · simp at h

/-- C15: an event handler, however it ends, gives the scope stack back exactly as it was, shares heap
and globals with the main program, and only adds to the trace -/
theorem handleEvent_frame (n : Nat) (name : Str) (payload : List (Val F)) (st : St F) :
    let st' := (handleEvent ops ext prog n name payload st).2
    st'.locals = st.locals ∧ st.heap.size ≤ st'.heap.size ∧ st.yields ≤ st'.yields ∧ st'.stopAt = st.stopAt ∧
    (st.stopped = true → st'.stopped = true) ∧ ∃ suf, st'.trace = suf ++ st.trace := by
  have base : ∀ (s4 : St F), Frame ({ st with locals := [[]] } : St F) s4 →
      ({ s4 with locals := st.locals } : St F).locals = st.locals ∧ st.heap.size ≤ ({ s4 with locals := st.locals } : St F).heap.size ∧
      st.yields ≤ ({ s4 with locals := st.locals } : St F).yields ∧ ({ s4 with locals := st.locals } : St F).stopAt = st.stopAt ∧
      (st.stopped = true → ({ s4 with locals := st.locals } : St F).stopped = true) ∧
      ∃ suf, ({ s4 with locals := st.locals } : St F).trace = suf ++ st.trace := by
    intro s4 h
    exact ⟨rfl, h.heap, h.yields, h.stopAt, h.latch, h.trace⟩
  unfold handleEvent
  cases hf : prog.handlers.find? (fun h => h.name == name) with
  | none => exact ⟨rfl, Nat.le_refl _, Nat.le_refl _, rfl, id, ⟨[], rfl⟩⟩
  | some h =>
    simp only
    split
    · exact ⟨rfl, Nat.le_refl _, Nat.le_refl _, rfl, id, ⟨[], rfl⟩⟩
    · cases hb : bindPayload h.params payload { st with locals := [[]] } with
      | none => exact base ({ st with locals := [[]] }) (Frame.refl _)
      | some st2 =>
        have f1 := bindPayload_frame h.params payload _ st2 hb
        simp only
        cases hx : execBlockNode ops ext prog n h.body st2 with
        | err o s4 => exact base s4 (f1.trans (frame_err ((frame_invariant ops ext prog n).2.2.2.2.2.1 h.body st2) hx))
        | ok c s4 => exact base s4 (f1.trans (frame_ok ((frame_invariant ops ext prog n).2.2.2.2.2.1 h.body st2) hx))

end EvyV
