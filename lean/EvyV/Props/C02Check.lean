import EvyV.Model.Check
import EvyV.Props.C02Full
/-!
C02: the executable checker of Model/Check.lean is sound for the typing judgements of
Spec/WellTyped.lean — what `tc` / `tcS` / `tcB` / `checkProg` accept satisfies `Typed` / `STyped` /
`BTyped` / `ProgOk`. So a program that `checkProg` accepts (the harness runs it on the serialised AST
of accepted programs, with the function signatures and global types of the real parser) falls under
`program_never_goes_wrong`.
-/
namespace EvyV.TS
open EvyV

variable {F : Type} (Φ : FEnv) (G : Env)

theorem accept_some {ex : Option Ty} {t t' : Ty} (h : accept ex t = some t') : t' = t ∧ ∀ x, ex = some x → x = t := by
  unfold accept at h
  cases ex with
  | none => simp at h; exact ⟨h.symm, by intro x hx; cases hx⟩
  | some y =>
    simp only at h
    split at h
    · rename_i heq; simp at h; exact ⟨h.symm, by intro x hx; cases hx; exact heq⟩
    · cases h

theorem beq_opt {a b : Option Ty} (h : (a == b) = true) : a = b := by simpa using h

theorem zip_all {α β : Type} (as : List α) (bs : List β) (p : α × β → Bool) (h : (as.zip bs).all p = true) :
    ∀ (i : Nat) a b, as[i]? = some a → bs[i]? = some b → p (a, b) = true := by
  intro i a b ha hb
  have hm : (a, b) ∈ as.zip bs := by
    apply List.mem_of_getElem? (i := i)
    rw [List.getElem?_zip_eq_some]; exact ⟨ha, hb⟩
  exact List.all_eq_true.mp h _ hm

theorem findSome_mem {α β : Type} (l : List α) (f : α → Option β) (b : β) (h : l.findSome? f = some b) : ∃ a ∈ l, f a = some b := by
  induction l with
  | nil => simp at h
  | cons x xs ih =>
    simp only [List.findSome?_cons] at h
    split at h
    · rename_i y hy; cases h; exact ⟨x, List.mem_cons_self, hy⟩
    · obtain ⟨a, ha, hf⟩ := ih h; exact ⟨a, List.mem_cons_of_mem _ ha, hf⟩

theorem inferAll_spec (f : Expr F → Option Ty) : ∀ (es : List (Expr F)) (ts : List Ty), inferAll f es = some ts →
    es.length = ts.length ∧ ∀ (i : Nat) a ta, es[i]? = some a → ts[i]? = some ta → f a = some ta := by
  intro es
  induction es with
  | nil => intro ts h; simp [inferAll] at h; subst h; exact ⟨rfl, by intro i a ta ha; simp at ha⟩
  | cons e rest ih =>
    intro ts h
    simp only [inferAll] at h
    split at h
    · rename_i t ts' he hr
      simp at h; subst h
      obtain ⟨hl, hp⟩ := ih ts' hr
      refine ⟨by simp [hl], ?_⟩
      intro i a ta ha hta
      cases i with
      | zero => simp at ha hta; subst ha hta; exact he
      | succ j => exact hp j a ta (by simpa using ha) (by simpa using hta)
    · cases h

theorem predsOk_spec (sig : BSig) : ∀ (ts : List Ty) (k : Nat), predsOk sig k ts = true →
    ∀ (i : Nat) ta, ts[i]? = some ta → sig.paramAt (k + i) ta = true := by
  intro ts
  induction ts with
  | nil => intro k _ i ta h; simp at h
  | cons t rest ih =>
    intro k h i ta hta
    simp only [predsOk, Bool.and_eq_true] at h
    cases i with
    | zero => simp at hta; subst hta; simpa using h.1
    | succ j =>
      have := ih (k + 1) h.2 j ta (by simpa using hta)
      have e : k + (j + 1) = k + 1 + j := by omega
      rw [e]; exact this

theorem arityOk_spec {sig : BSig} {n : Nat} (h : arityOk sig n = true) :
    sig.params.length ≤ n ∧ (sig.rest = none → n = sig.params.length) := by
  simp only [arityOk, Bool.and_eq_true, Bool.or_eq_true, decide_eq_true_eq] at h
  refine ⟨h.1, fun hr => ?_⟩
  rcases h.2 with h2 | h2
  · rw [hr] at h2; simp at h2
  · exact h2

theorem binTy_sound {op : Op} {t res : Ty} (h : binTy op t = some res) :
    (isEq op = true ∧ res = .bool) ∨
    (isEq op = false ∧ (
      (t = .num ∧ isArith op = true ∧ res = .num) ∨ (t = .num ∧ isCmp op = true ∧ res = .bool) ∨
      (t = .str ∧ op = .plus ∧ res = .str) ∨ (t = .str ∧ isCmp op = true ∧ res = .bool) ∨
      (t = .bool ∧ isLogic op = true ∧ res = .bool) ∨ (∃ s, t = .arr s ∧ op = .plus ∧ res = .arr s))) := by
  unfold binTy at h
  split at h
  · rename_i he; simp at h; exact Or.inl ⟨he, h.symm⟩
  · rename_i he
    have he' : isEq op = false := by simpa using he
    right; refine ⟨he', ?_⟩
    split at h
    · split at h
      · rename_i ha; simp at h; exact Or.inl ⟨rfl, ha, h.symm⟩
      · split at h
        · rename_i hc; simp at h; exact Or.inr (Or.inl ⟨rfl, hc, h.symm⟩)
        · cases h
    · split at h
      · rename_i hp; simp at h; exact Or.inr (Or.inr (Or.inl ⟨rfl, hp, h.symm⟩))
      · split at h
        · rename_i hc; simp at h; exact Or.inr (Or.inr (Or.inr (Or.inl ⟨rfl, hc, h.symm⟩)))
        · cases h
    · split at h
      · rename_i hl; simp at h; exact Or.inr (Or.inr (Or.inr (Or.inr (Or.inl ⟨rfl, hl, h.symm⟩))))
      · cases h
    · split at h
      · rename_i s hp; simp at h; exact Or.inr (Or.inr (Or.inr (Or.inr (Or.inr ⟨_, rfl, hp, h.symm⟩))))
      · cases h
    · cases h

/-- **the expression checker is sound** -/
theorem tc_sound : ∀ (n : Nat) (e : Expr F) (ex : Option Ty) (t : Ty),
    tc Φ G n e ex = some t → Typed Φ G e t ∧ ∀ x, ex = some x → x = t := by
  intro n
  induction n with
  | zero => intro e ex t h; simp [tc] at h
  | succ n ih =>
    intro e ex t h
    unfold tc at h
    cases e with
    | num v => simp only at h; obtain ⟨rfl, hx⟩ := accept_some h; exact ⟨.num v, hx⟩
    | str v => simp only at h; obtain ⟨rfl, hx⟩ := accept_some h; exact ⟨.str v, hx⟩
    | bool v => simp only at h; obtain ⟨rfl, hx⟩ := accept_some h; exact ⟨.bool v, hx⟩
    | var nm =>
      simp only at h
      split at h
      · rename_i t0 hg; obtain ⟨rfl, hx⟩ := accept_some h; exact ⟨.var nm _ hg, hx⟩
      · cases h
    | any t0 inner =>
      simp only at h
      split at h
      · cases h
      · rename_i hne
        split at h
        · rename_i t1 h1
          obtain ⟨hty, hx1⟩ := ih inner (some t0) t1 h1
          have := hx1 t0 rfl; subst this
          obtain ⟨rfl, hx⟩ := accept_some h
          exact ⟨.any _ inner hne hty, hx⟩
        · cases h
    | arr elems =>
      simp only at h
      split at h
      · rename_i s hs
        split at h
        · rename_i hc
          simp only [Bool.and_eq_true] at hc
          simp at h; subst h
          refine ⟨.arr elems s hc.1 (fun e he => (ih e (some s) s (beq_opt (List.all_eq_true.mp hc.2 e he))).1), ?_⟩
          intro x hx; subst hx
          cases x with
          | arr s' => simp at hs; rw [hs]
          | _ => simp at hs
        · cases h
      · cases h
    | mapLit pairs =>
      simp only at h
      split at h
      · rename_i s hs
        split at h
        · rename_i hc
          simp only [Bool.and_eq_true] at hc
          simp at h; subst h
          refine ⟨.mapLit pairs s hc.1 (fun p hp => (ih p.2 (some s) s (beq_opt (List.all_eq_true.mp hc.2 p hp))).1), ?_⟩
          intro x hx; subst hx
          cases x with
          | map s' => simp at hs; rw [hs]
          | _ => simp at hs
        · cases h
      · cases h
    | group inner =>
      simp only at h
      obtain ⟨hty, hx⟩ := ih inner ex t h
      exact ⟨.group inner t hty, hx⟩
    | unary op inner =>
      simp only at h
      split at h
      · rename_i hop; subst hop
        split at h
        · rename_i t1 h1
          obtain ⟨hty, hx1⟩ := ih inner (some .num) t1 h1
          have := hx1 _ rfl; subst this
          obtain ⟨rfl, hx⟩ := accept_some h
          exact ⟨.neg inner hty, hx⟩
        · cases h
      · split at h
        · rename_i hop; subst hop
          split at h
          · rename_i t1 h1
            obtain ⟨hty, hx1⟩ := ih inner (some .bool) t1 h1
            have := hx1 _ rfl; subst this
            obtain ⟨rfl, hx⟩ := accept_some h
            exact ⟨.not inner hty, hx⟩
          · cases h
        · cases h
    | binary op l r =>
      simp only at h
      split at h
      · rename_i s hrep
        split at hrep
        · rename_i hop; subst hop
          split at h
          · rename_i hc
            obtain ⟨rfl, hx⟩ := accept_some h
            exact ⟨.arrRep l r s (ih l none _ hrep).1 (ih r _ _ (beq_opt hc)).1, hx⟩
          · cases h
        · cases hrep
      · clear ‹∀ (s : Ty), _›
        split at h
        · rename_i t0 _
          split at h
          · rename_i hc
            simp only [Bool.and_eq_true] at hc
            have hl := (ih l (some t0) t0 (beq_opt hc.1)).1
            have hr := (ih r (some t0) t0 (beq_opt hc.2)).1
            split at h
            · rename_i res hb
              obtain ⟨rfl, hx⟩ := accept_some h
              refine ⟨?_, hx⟩
              rcases binTy_sound hb with ⟨he, rfl⟩ | ⟨_, h1 | h1 | h1 | h1 | h1 | h1⟩
              · exact .eq op l r t0 he hl hr
              · obtain ⟨rfl, ha, rfl⟩ := h1; exact .arith op l r ha hl hr
              · obtain ⟨rfl, ha, rfl⟩ := h1; exact .cmpNum op l r ha hl hr
              · obtain ⟨rfl, rfl, rfl⟩ := h1; exact .concat l r hl hr
              · obtain ⟨rfl, ha, rfl⟩ := h1; exact .cmpStr op l r ha hl hr
              · obtain ⟨rfl, ha, rfl⟩ := h1; exact .logic op l r ha hl hr
              · obtain ⟨s, rfl, rfl, rfl⟩ := h1; exact .arrCat l r s hl hr
            · cases h
          · cases h
        · cases h
    | index l i =>
      simp only at h
      split at h
      · rename_i s hl
        split at h
        · rename_i hi
          obtain ⟨rfl, hx⟩ := accept_some h
          exact ⟨.idxArr l i _ (ih l none _ hl).1 (ih i _ _ (beq_opt hi)).1, hx⟩
        · cases h
      · rename_i hl
        split at h
        · rename_i hi
          obtain ⟨rfl, hx⟩ := accept_some h
          exact ⟨.idxStr l i (ih l none _ hl).1 (ih i _ _ (beq_opt hi)).1, hx⟩
        · cases h
      · rename_i s hl
        split at h
        · rename_i hi
          obtain ⟨rfl, hx⟩ := accept_some h
          exact ⟨.idxMap l i _ (ih l none _ hl).1 (ih i _ _ (beq_opt hi)).1, hx⟩
        · cases h
      · cases h
    | slice l a b =>
      simp only at h
      split at h
      · rename_i hc
        simp only [Bool.and_eq_true] at hc
        have ha : ∀ x, a = some x → Typed Φ G x .num := by
          intro x hx; subst hx; exact (ih x _ _ (beq_opt (by simpa [optAll] using hc.1))).1
        have hb : ∀ x, b = some x → Typed Φ G x .num := by
          intro x hx; subst hx; exact (ih x _ _ (beq_opt (by simpa [optAll] using hc.2))).1
        split at h
        · rename_i s hl
          obtain ⟨rfl, hx⟩ := accept_some h
          exact ⟨.sliceArr l a b s (ih l none _ hl).1 ha hb, hx⟩
        · rename_i hl
          obtain ⟨rfl, hx⟩ := accept_some h
          exact ⟨.sliceStr l a b (ih l none _ hl).1 ha hb, hx⟩
        · cases h
      · cases h
    | dot l key =>
      simp only at h
      split at h
      · rename_i s hl
        obtain ⟨rfl, hx⟩ := accept_some h
        exact ⟨.dot l key _ (ih l none _ hl).1, hx⟩
      · cases h
    | assert t0 inner =>
      simp only at h
      split at h
      · cases h
      · rename_i hne
        split at h
        · rename_i hreg
          split at h
          · rename_i t1 h1
            obtain ⟨hty, hx1⟩ := ih inner (some .any) t1 h1
            have := hx1 _ rfl; subst this
            obtain ⟨rfl, hx⟩ := accept_some h
            exact ⟨.assert _ inner hne hreg hty, hx⟩
          · cases h
        · cases h
    | call name args =>
      simp only at h
      split at h
      · rename_i bsig hb
        split at h
        · rename_i t0 tys hret hinf
          split at h
          · rename_i hc
            simp only [Bool.and_eq_true] at hc
            obtain ⟨rfl, hx⟩ := accept_some h
            obtain ⟨hl, hp⟩ := inferAll_spec _ args tys hinf
            obtain ⟨ha1, ha2⟩ := arityOk_spec hc.1
            refine ⟨.builtin name args bsig tys _ hb hret ha1 ha2 hl ?_ ?_, hx⟩
            · intro i a ta ha hta
              exact (ih a none ta (hp i a ta ha hta)).1
            · intro i ta hta
              have := predsOk_spec bsig tys 0 hc.2 i ta hta
              simpa using this
          · cases h
        · cases h
      · split at h
        · rename_i sig hphi
          split at h
          · rename_i t0 hret
            split at h
            · rename_i tv hv
              split at h
              · rename_i hc
                obtain ⟨rfl, hx⟩ := accept_some h
                refine ⟨.callV name args sig tv _ hphi hv hret ?_, hx⟩
                intro a ha
                exact (ih a (some tv) tv (beq_opt (List.all_eq_true.mp hc a ha))).1
              · cases h
            · rename_i hv
              split at h
              · rename_i hc
                simp only [Bool.and_eq_true, decide_eq_true_eq] at hc
                obtain ⟨rfl, hx⟩ := accept_some h
                refine ⟨.call name args sig _ hphi hv hret hc.1 ?_, hx⟩
                intro i a pt ha hpt
                exact (ih a (some pt) pt (beq_opt (zip_all args sig.params _ hc.2 i a pt ha hpt))).1
              · cases h
          · cases h
        · cases h


theorem lvOk_spec {lv : Option Str} (h : lvOk lv = true) : ∀ n, lv = some n → n ≠ underscore := by
  intro n hn; subst hn; simpa [lvOk] using h

theorem optAll_spec {α : Type} {o : Option α} {p : α → Bool} (h : optAll o p = true) : ∀ x, o = some x → p x = true := by
  intro x hx; subst hx; simpa [optAll] using h

variable (Gg : Env) (ρ : Option Ty)

/-- **the statement checker is sound** -/
theorem tcSB_sound : ∀ (n : Nat),
    (∀ (Gs : List SEnv) (s : Stmt F) (Gs' : List SEnv), tcS Φ Gg ρ n Gs s = some Gs' → STyped Φ Gg ρ Gs s Gs') ∧
    (∀ (Gs : List SEnv) (b : List (Stmt F)), tcB Φ Gg ρ n Gs b = true → BTyped Φ Gg ρ Gs b) := by
  intro n
  induction n with
  | zero => constructor <;> intros <;> simp_all [tcS, tcB]
  | succ n ih =>
    obtain ⟨ihS, ihB⟩ := ih
    constructor
    · intro Gs s Gs' h
      unfold tcS at h
      simp only at h
      cases s with
      | noop => simp at h; subst h; exact .noop Gs
      | brk => simp at h; subst h; exact .brk Gs
      | decl nm e =>
        simp only at h
        split at h
        · cases h
        · rename_i hne
          split at h
          · rename_i hd rest
            split at h
            · rename_i t ht
              simp at h; subst h
              exact .declLocal hd rest nm e t hne (tc_sound Φ _ n e none t ht).1
            · cases h
          · split at h
            · rename_i t hg
              split at h
              · rename_i hc
                simp at h; subst h
                exact .declGlobal nm e t hne hg (tc_sound Φ _ n e _ t (beq_opt hc)).1
              · cases h
            · cases h
      | assign target e =>
        cases target with
        | var nm =>
          simp only at h
          split at h
          · rename_i t hg
            split at h
            · rename_i hc
              simp at h; subst h
              exact .assignVar Gs nm e t hg (tc_sound Φ _ n e _ t (beq_opt hc)).1
            · cases h
          · cases h
        | index l i =>
          simp only at h
          split at h
          · rename_i s hl
            split at h
            · rename_i hc
              simp only [Bool.and_eq_true] at hc
              simp at h; subst h
              exact .assignIdxArr Gs l i e s (tc_sound Φ _ n l none _ hl).1 (tc_sound Φ _ n i _ _ (beq_opt hc.1)).1
                (tc_sound Φ _ n e _ _ (beq_opt hc.2)).1
            · cases h
          · rename_i s hl
            split at h
            · rename_i hc
              simp only [Bool.and_eq_true] at hc
              simp at h; subst h
              exact .assignIdxMap Gs l i e s (tc_sound Φ _ n l none _ hl).1 (tc_sound Φ _ n i _ _ (beq_opt hc.1)).1
                (tc_sound Φ _ n e _ _ (beq_opt hc.2)).1
            · cases h
          · cases h
        | dot l key =>
          simp only at h
          split at h
          · rename_i s hl
            split at h
            · rename_i hc
              simp at h; subst h
              exact .assignDot Gs l key e s (tc_sound Φ _ n l none _ hl).1 (tc_sound Φ _ n e _ _ (beq_opt hc)).1
            · cases h
          · cases h
        | _ => simp at h
      | ret v =>
        cases v with
        | none =>
          simp only at h
          split at h
          · rename_i hr; simp at h; subst h; exact .retNone Gs hr
          · cases h
        | some e =>
          simp only at h
          split at h
          · rename_i t
            split at h
            · rename_i hc
              simp at h; subst h
              exact .retSome Gs e t rfl (tc_sound Φ _ n e _ t (beq_opt hc)).1
            · cases h
          · cases h
      | ifS conds els =>
        simp only at h
        split at h
        · rename_i hc
          simp only [Bool.and_eq_true] at hc
          simp at h; subst h
          have hall := List.all_eq_true.mp hc.1
          refine .ifS Gs conds els ?_ ?_ ?_
          · intro c hcm
            have := hall c hcm
            simp only [Bool.and_eq_true] at this
            exact (tc_sound Φ _ n c.1 _ _ (beq_opt this.1)).1
          · intro c hcm
            have := hall c hcm
            simp only [Bool.and_eq_true] at this
            exact ihB _ _ this.2
          · intro b hb
            exact ihB _ _ (optAll_spec hc.2 b hb)
        · cases h
      | whileS c body =>
        simp only at h
        split at h
        · rename_i hc
          simp only [Bool.and_eq_true] at hc
          simp at h; subst h
          exact .whileS Gs c body (tc_sound Φ _ n c _ _ (beq_opt hc.1)).1 (ihB _ _ hc.2)
        · cases h
      | forS lv lvTy range body =>
        simp only at h
        split at h
        · cases h
        · rename_i hlv
          have hlv' : lvOk lv = true := by simpa using hlv
          cases range with
          | step a b c =>
            simp only at h
            split at h
            · rename_i hc
              simp only [Bool.and_eq_true] at hc
              simp at h; subst h
              refine .forStep Gs lv lvTy a b c body (lvOk_spec hlv') ?_ (tc_sound Φ _ n b _ _ (beq_opt hc.1.1.2)).1 ?_ (ihB _ _ hc.2)
              · intro x hx; exact (tc_sound Φ _ n x _ _ (beq_opt (optAll_spec hc.1.1.1 x hx))).1
              · intro x hx; exact (tc_sound Φ _ n x _ _ (beq_opt (optAll_spec hc.1.2 x hx))).1
            · cases h
          | over e =>
            simp only at h
            split at h
            · rename_i s he
              split at h
              · rename_i hc
                simp only [Bool.and_eq_true, Bool.or_eq_true, decide_eq_true_eq] at hc
                simp at h; subst h
                refine .forArr Gs lv lvTy e s body (lvOk_spec hlv') ?_ (tc_sound Φ _ n e none _ he).1 (ihB _ _ hc.2)
                intro hne
                rcases hc.1 with h1 | h1
                · cases lv <;> simp_all
                · exact h1
              · cases h
            · rename_i he
              split at h
              · rename_i hc
                simp at h; subst h
                exact .forStr Gs lv lvTy e body (lvOk_spec hlv') (tc_sound Φ _ n e none _ he).1 (ihB _ _ hc)
              · cases h
            · rename_i s he
              split at h
              · rename_i hc
                simp at h; subst h
                exact .forMap Gs lv lvTy e s body (lvOk_spec hlv') (tc_sound Φ _ n e none _ he).1 (ihB _ _ hc)
              · cases h
            · cases h
      | callS e =>
        cases e with
        | call name args =>
          simp only at h
          split at h
          · rename_i hn; subst hn
            split at h
            · rename_i hc
              simp at h; subst h
              refine .print Gs args ?_
              intro a ha
              have := List.all_eq_true.mp hc a ha
              cases ht : tc Φ (lookupG Gs Gg) n a none with
              | none => rw [ht] at this; simp at this
              | some t => exact ⟨t, (tc_sound Φ _ n a none t ht).1⟩
            · cases h
          · split at h
            · rename_i hn; subst hn
              split at h
              · rename_i hc
                simp at h; subst h
                refine .callTest Gs args ?_
                intro a ha
                exact (tc_sound Φ _ n a _ _ (beq_opt (List.all_eq_true.mp hc a ha))).1
              · cases h
            · split at h
              · rename_i bsig hb
                split at h
                · rename_i tys hinf
                  split at h
                  · rename_i hc
                    simp only [Bool.and_eq_true] at hc
                    simp at h; subst h
                    obtain ⟨hl, hp⟩ := inferAll_spec _ args tys hinf
                    obtain ⟨ha1, ha2⟩ := arityOk_spec hc.1
                    refine .callBi Gs name args bsig tys hb ha1 ha2 hl ?_ ?_
                    · intro i a ta ha hta
                      exact (tc_sound Φ _ n a none ta (hp i a ta ha hta)).1
                    · intro i ta hta
                      have := predsOk_spec bsig tys 0 hc.2 i ta hta
                      simpa using this
                  · cases h
                · cases h
              · split at h
                · rename_i sig hphi
                  split at h
                  · rename_i tv hv
                    split at h
                    · rename_i hc
                      simp at h; subst h
                      refine .callFnV Gs name args sig tv hphi hv ?_
                      intro a ha
                      exact (tc_sound Φ _ n a (some tv) tv (beq_opt (List.all_eq_true.mp hc a ha))).1
                    · cases h
                  · rename_i hv
                    split at h
                    · rename_i hc
                      simp only [Bool.and_eq_true, decide_eq_true_eq] at hc
                      simp at h; subst h
                      refine .callFn Gs name args sig hphi hv hc.1 ?_
                      intro i a pt ha hpt
                      exact (tc_sound Φ _ n a (some pt) pt (beq_opt (zip_all args sig.params _ hc.2 i a pt ha hpt))).1
                    · cases h
                · cases h
        | _ => simp at h
    · intro Gs b h
      cases b with
      | nil => exact .nil Gs
      | cons s rest =>
        unfold tcB at h
        split at h
        · rename_i Gs' hs
          exact .cons Gs Gs' s rest (ihS _ _ _ hs) (ihB _ _ h)
        · cases h

/-- **the program checker is sound**: a program it accepts — against the function signatures and the
global types the harness takes from the real parser — satisfies the hypotheses of
`program_never_goes_wrong` -/
theorem checkProg_sound (sigs : List (Str × FSig)) (globals : List (Str × Ty)) (prog : Program F) (fuel : Nat)
    (h : checkProg sigs globals prog fuel = true) :
    ProgOk (fenvOf sigs) (envOf globals) prog ∧ BTyped (fenvOf sigs) (envOf globals) none [] prog.stmts ∧ GgOk (envOf globals) ∧
      HandlersOk (fenvOf sigs) (envOf globals) prog := by
  unfold checkProg at h
  simp only [Bool.and_eq_true] at h
  obtain ⟨⟨⟨⟨hall, hst⟩, hhd⟩, he1⟩, he2⟩ := h
  refine (fun (x : ProgOk (fenvOf sigs) (envOf globals) prog ∧ BTyped (fenvOf sigs) (envOf globals) none [] prog.stmts) =>
    ⟨x.1, x.2, ⟨fun t ht => by simpa using optAll_spec he1 t ht, fun t ht => by simpa using optAll_spec he2 t ht⟩,
      fun hd hm => (tcSB_sound (fenvOf sigs) (envOf globals) none fuel).2 _ _ (List.all_eq_true.mp hhd hd hm)⟩) ?_
  have hall' := List.all_eq_true.mp hall
  have entry : ∀ name sig, fenvOf sigs name = some sig → (name, sig) ∈ sigs :=
    fun name sig hs => lookup_mem name sigs sig hs
  refine ⟨⟨?_, ?_, ?_⟩, (tcSB_sound (fenvOf sigs) (envOf globals) none fuel).2 _ _ hst⟩
  · intro name sig hs
    have := hall' _ (entry name sig hs)
    simp only [Bool.and_eq_true, Bool.not_eq_true'] at this
    refine ⟨this.1, ?_⟩
    cases hf : lookupFunc prog.funcs name with
    | none => rw [hf] at this; simp at this
    | some fd => exact ⟨fd, rfl⟩
  · intro name sig fd hs hfd hvn
    have := hall' _ (entry name sig hs)
    simp only [Bool.and_eq_true, Bool.not_eq_true', hfd, hvn, Bool.or_eq_true, decide_eq_true_eq] at this
    obtain ⟨_, ⟨⟨hv, hl⟩, hb⟩, hr⟩ := this
    refine ⟨by simpa using hv, hl, (tcSB_sound (fenvOf sigs) (envOf globals) sig.ret fuel).2 _ _ hb, ?_⟩
    intro t ht
    rcases hr with h1 | h1
    · rw [ht] at h1; simp at h1
    · exact h1
  · intro name sig fd tv hs hfd hvn
    have := hall' _ (entry name sig hs)
    simp only [Bool.and_eq_true, Bool.not_eq_true', hfd, hvn, Bool.or_eq_true] at this
    obtain ⟨_, ⟨⟨hvar, hpar⟩, hreg⟩, hr⟩ := this
    refine ⟨?_, by simpa using hpar, hreg, ?_⟩
    · cases hfv : fd.variadic with
      | none => rw [hfv] at hvar; simp at hvar
      | some vn =>
        rw [hfv] at hvar
        simp only [Bool.and_eq_true, Bool.not_eq_true', decide_eq_false_iff_not] at hvar
        exact ⟨vn, rfl, hvar.1, (tcSB_sound (fenvOf sigs) (envOf globals) sig.ret fuel).2 _ _ hvar.2⟩
    · intro t ht
      rcases hr with h1 | h1
      · rw [ht] at h1; simp at h1
      · exact h1

/-- the theorem the harness relies on: a program the checker accepts never goes wrong -/
theorem checked_program_never_goes_wrong (ops : NumOps F) (ext : Ext F) (hx : ExtOk ext)
    (sigs : List (Str × FSig)) (globals : List (Str × Ty)) (prog : Program F) (cfuel : Nat)
    (h : checkProg sigs globals prog cfuel = true)
    (fuel : Nat) (st st' : St F) (S : Store) (hok : StOk S [] (envOf globals) st) (w : String) :
    (w ≠ "ErrTest" → execStmts ops ext prog fuel prog.stmts st ≠ .err (.internal w) st') ∧
    execStmts ops ext prog fuel prog.stmts st ≠ .err (.goPanic w) st' := by
  obtain ⟨hp, hb, hg, _⟩ := checkProg_sound sigs globals prog cfuel h
  exact program_never_goes_wrong ops ext prog (fenvOf sigs) (envOf globals) hx hg hp fuel st st' S hb hok w

/-- … and neither do its event handlers: delivering any payload to a handler of a checked program, in a
well-typed state, ends in a well-typed state or in a documented outcome -/
theorem checked_handler_sound (ops : NumOps F) (ext : Ext F) (hx : ExtOk ext)
    (sigs : List (Str × FSig)) (globals : List (Str × Ty)) (prog : Program F) (cfuel : Nat)
    (h : checkProg sigs globals prog cfuel = true)
    (fuel : Nat) (name : Str) (payload : List (Val F)) (st : St F) (Gs : List SEnv) (S : Store)
    (hok : StOk S Gs (envOf globals) st) (hd : Handler F) (hfind : prog.handlers.find? (fun h => h.name == name) = some hd)
    (hlen : hd.params.length ≤ payload.length) :
    match (handleEvent ops ext prog fuel name payload st).1 with
    | .err o => Doc o
    | _ => ∃ S', Grows S S' ∧ StOk S' Gs (envOf globals) (handleEvent ops ext prog fuel name payload st).2 := by
  obtain ⟨hp, _, hg, hh⟩ := checkProg_sound sigs globals prog cfuel h
  exact handler_sound ops ext prog (fenvOf sigs) (envOf globals) hx hg hp hh fuel name payload st Gs S hok hd hfind hlen

/-- the globals every program starts with and their types -/
def builtinGlobals : List (Str × Ty) := [(lit "err", .bool), (lit "errmsg", .str), (lit "pi", .num)]

/-- the state a run starts in (the evaluator's initial globals err, errmsg, pi; nothing on the heap; any
inputs, stop request and options) is well-typed for globals that give those three their types -/
theorem initial_state_ok (globals : List (Str × Ty)) (pi : F) (st : St F)
    (hg : st.global = initGlobals pi) (hl : st.locals = []) (hh : st.heap = #[])
    (h1 : ∀ t, envOf globals (lit "err") = some t → t = .bool)
    (h2 : ∀ t, envOf globals (lit "errmsg") = some t → t = .str)
    (h3 : ∀ t, envOf globals (lit "pi") = some t → t = .num) :
    StOk [] [] (envOf globals) st := by
  refine ⟨by rw [hl]; exact .nil, ?_, ?_⟩
  · rw [hg]
    intro p hp t ht
    simp only [initGlobals, List.mem_cons, List.not_mem_nil, or_false] at hp
    rcases hp with rfl | rfl | rfl
    · rw [h1 t ht]; exact .bool _
    · rw [h2 t ht]; exact .str _
    · rw [h3 t ht]; exact .num _
  · rw [hh]
    exact ⟨rfl, (by intro t ht; cases ht), (by intro a s h; simp at h), (by intro a s h; simp at h)⟩

end EvyV.TS
