import EvyV.Props.EvalCore
import EvyV.Gen.Tables
/-
C13 — built-in functions do what their documentation says (the glue around the
Go library functions; the library functions themselves are the oracle `ext`).
-/
namespace EvyV.C13
open EvyV
variable {F : Type} (ops : NumOps F) (ext : Ext F) (prog : Program F)

/-- the builtin table of the model is the table of newBuiltins (regenerated) -/
theorem builtins_covered :
    (∀ n ∈ Gen.builtinNames, n ∈ builtinNames) ∧ (∀ n ∈ builtinNames, n ∈ Gen.builtinNames) := by decide

/-- the error classes are as the evaluator documents them: which sentinel wraps ErrPanic and
which ErrInternal (regenerated) -/
theorem sentinel_classes : Gen.sentinels =
    [("ErrAnyConversion", "panic"), ("ErrAssignmentTarget", "internal"), ("ErrBadArguments", "panic"),
     ("ErrBadRepetition", "panic"), ("ErrBounds", "panic"), ("ErrIndexValue", "panic"), ("ErrInternal", "root"),
     ("ErrMapKey", "panic"), ("ErrOperation", "internal"), ("ErrPanic", "root"), ("ErrRangeType", "internal"),
     ("ErrRangevalue", "panic"), ("ErrSlice", "panic"), ("ErrStopped", "root"), ("ErrTest", "root"),
     ("ErrType", "internal"), ("ErrUnknownNode", "internal"), ("ErrVarNotSet", "panic")] := by decide

/-- `len` of a string is its number of code points -/
theorem len_is_codepoints (st : St F) (t : Ty) (s : Str) :
    callBuiltin ops ext (lit "len") [.any t (.str s)] st = some (.ok (.num (ops.ofInt s.length)) st) := by
  rfl

/-- `len` of anything but string/array/map is the bad-arguments panic -/
theorem len_other_is_panic (st : St F) (t : Ty) (v : F) :
    callBuiltin ops ext (lit "len") [.any t (.num v)] st = some (.err (.panic .badArgs) st) := by
  rfl

/-- err/errmsg after a str2bool call are (failed?, message) of THAT call: reset on success … -/
theorem str2bool_success_resets (st : St F) (s : Str) (b : Bool) (h : parseBool s = some b) :
    callBuiltin ops ext (lit "str2bool") [.str s] st = some (.ok (.bool b) (setGlobalErr st false [])) := by
  simp [callBuiltin, isBuiltin, builtinNames, lit, h]

/-- … and set on failure, whatever they were before -/
theorem str2bool_failure_sets (st : St F) (s : Str) (h : parseBool s = none) :
    ∃ msg st', callBuiltin ops ext (lit "str2bool") [.str s] st = some (.ok (.bool false) (setGlobalErr st' true msg)) := by
  simp [callBuiltin, isBuiltin, builtinNames, lit, h]
  exact ⟨_, _, rfl⟩

/-- the protocol writes both globals, independent of their previous values (so err never stays
set after a success) -/
theorem setGlobalErr_overwrites (st : St F) (isErr : Bool) (msg : Str) :
    scopeGet (setGlobalErr st isErr msg).global (lit "err") = some (.bool isErr) ∧
    scopeGet (setGlobalErr st isErr msg).global (lit "errmsg") = some (.str msg) := by
  unfold setGlobalErr
  simp only [scopeGet_scopeSet]
  constructor
  · have : lit "err" ≠ lit "errmsg" := by decide
    simp [this]
  · simp

/-- exactly the spellings of the documentation (plus the ones strconv.ParseBool adds: t T f F) -/
theorem parseBool_domain (s : Str) (b : Bool) (h : parseBool s = some b) :
    String.ofList s ∈ ["1", "t", "T", "TRUE", "true", "True", "0", "f", "F", "FALSE", "false", "False"] := by
  unfold parseBool at h
  simp only at h
  split at h
  · rename_i hc; rcases hc with h1 | h1 | h1 | h1 | h1 | h1 <;> simp [h1]
  · split at h
    · rename_i hc; rcases hc with h1 | h1 | h1 | h1 | h1 | h1 <;> simp [h1]
    · simp at h

/-- `rand n`: every n outside [1, 2^31-1] — including NaN, for which both comparisons are
false — is the documented bad-arguments panic; the host function is never reached -/
theorem rand_domain (st : St F) (u : F) (h : (ops.le ops.one u && ops.le u (ops.ofInt 2147483647)) = false) :
    callBuiltin ops ext (lit "rand") [.num u] st = some (.err (.panic .badArgs) st) := by
  simp [callBuiltin, isBuiltin, builtinNames, lit, h, badArgs]

/-- `exit n` ends the run with status int(n); `panic s` is the user panic -/
theorem exit_status (st : St F) (n : F) :
    callBuiltin ops ext (lit "exit") [.num n] st = some (.err (.exit (ops.toInt n)) st) := by rfl

theorem panic_is_user_panic (st : St F) (s : Str) :
    callBuiltin ops ext (lit "panic") [.str s] st = some (.err (.panic .user) st) := by rfl

/-- `typeof` reports the static type recorded when the value was wrapped into `any` -/
theorem typeof_is_recorded_type (st : St F) (t : Ty) (v : Val F) :
    callBuiltin ops ext (lit "typeof") [.any t v] st = some (.ok (.str t.show) st) := by rfl

/-- `has` / `del` act on the shared map object -/
theorem has_is_membership (st : St F) (a : Nat) (m : MapVal (Val F)) (k : Str) (h : heapGet st a = some (.map m)) :
    callBuiltin ops ext (lit "has") [.map a, .str k] st = some (.ok (.bool (m.has k)) st) := by
  simp [callBuiltin, isBuiltin, builtinNames, lit, h]

theorem del_deletes (st : St F) (a : Nat) (m : MapVal (Val F)) (k : Str) (h : heapGet st a = some (.map m)) :
    callBuiltin ops ext (lit "del") [.map a, .str k] st = some (.ok .none (heapSet st a (.map (m.delete k)))) := by
  simp [callBuiltin, isBuiltin, builtinNames, lit, h]

/-- `startswith` / `endswith` / `index` (position in code points, -1 if absent) -/
theorem index_not_found (s sub : Str) (h : ∀ i, ¬ isPrefix sub (s.drop i) = true) (hs : sub ≠ []) :
    strIndex s sub 0 = -1 := by
  have : ∀ (l : Str) (k : Nat), (∀ i, ¬ isPrefix sub (l.drop i) = true) → strIndex l sub k = -1 := by
    intro l
    induction l with
    | nil => intro k _; cases sub with | nil => exact absurd rfl hs | cons a b => simp [strIndex]
    | cons c rest ih =>
      intro k hl
      have h0 := hl 0
      simp only [List.drop_zero] at h0
      simp only [strIndex, h0, if_false, Bool.false_eq_true]
      exact ih (k + 1) (fun i => by simpa using hl (i + 1))
  exact this s 0 h

/-- test bookkeeping: every `test` call counts once; a failed comparison counts as a failure and,
without fail-fast, execution continues -/
theorem test_counts (n : Nat) (args : List (Expr F)) (st st' st'' : St F) (vs : List (Val F))
    (ha : evalList ops ext prog n args st = .ok vs st') :
    (callBuiltin ops ext (lit "test") vs st' = some (.ok .none st'') →
      evalCall ops ext prog (n + 1) (lit "test") args st = .ok .none { st'' with testTotal := st''.testTotal + 1 }) ∧
    (callBuiltin ops ext (lit "test") vs st' = some (.err (.internal "ErrTest") st'') → st''.failFast = false →
      evalCall ops ext prog (n + 1) (lit "test") args st =
        .ok .none { st'' with testTotal := st''.testTotal + 1, testFails := st''.testFails + 1 }) := by
  have hl : String.ofList (lit "test") = "test" := by simp [lit]
  constructor
  · intro h; simp [evalCall, ha, h, hl]
  · intro h hf; simp [evalCall, ha, h, hl, hf]

/-- the summary: total = passed + failed -/
theorem summary_counts (st : St F) (h : st.testFails ≤ st.testTotal) :
    (st.testTotal - st.testFails) + st.testFails = st.testTotal := by omega

end EvyV.C13
