import EvyV.Model.Envelope
/-
C20 — sealed answers round-trip and answer verification is exact.

Cryptography is idealised, as hypotheses of the theorems (never as axioms):
`RoundTrip`: RSA-OAEP and AES-GCM decrypt what they encrypted;
`Integrity` (for a given sealing): whatever RSA part and AES part an adversary
presents, if both open then the plaintext is the sealed one.
-/
namespace EvyV.C20
open EvyV.Envelope

variable (c : Crypto)

structure RoundTrip (pub : c.Pub) (priv : c.Priv) : Prop where
  rsa : ∀ m r, c.rsaDec priv (c.rsaEnc pub m r) = some m
  aes : ∀ k m, c.gcmOpen k (c.gcmSeal k m) = some m

theorem u16_roundtrip (n : Nat) (h : n < 65536) : readU16 ((n / 256) % 256) (n % 256) = n := by
  unfold readU16; omega

/-- **Round trip** for every text of every length and every session key, as long as the RSA
ciphertext is shorter than 64 KiB (true for every RSA modulus up to 524 280 bits). -/
theorem unseal_seal (pub : c.Pub) (priv : c.Priv) (h : RoundTrip c pub priv)
    (text sk : Bytes) (rnd : Nat) (hlen : (c.rsaEnc pub sk rnd).length < 65536) :
    decrypt c priv (encrypt c pub text sk rnd) = .ok text := by
  unfold encrypt decrypt u16be
  simp only [List.cons_append, List.nil_append, List.singleton_append]
  rw [u16_roundtrip _ hlen]
  simp [h.rsa, h.aes]

/-- without the length hypothesis the envelope is NOT decodable in general: the length field
wraps (negative witness over a toy crypto with a 65536-byte RSA part) -/
def toyCrypto : Crypto where
  Pub := Unit
  Priv := Unit
  rsaEnc := fun _ m _ => m
  rsaDec := fun _ m => some m
  gcmSeal := fun _ m => m
  gcmOpen := fun _ m => some m

theorem toy_roundtrip : RoundTrip toyCrypto () () := ⟨fun _ _ => rfl, fun _ _ => rfl⟩

example : decrypt toyCrypto () (encrypt toyCrypto () [7, 8] [1, 2, 3] 0) = .ok [7, 8] :=
  unseal_seal toyCrypto () () toy_roundtrip [7, 8] [1, 2, 3] 0 (by decide)

/-- Idealised integrity for one sealing of `text`: no (RSA part, AES part) presented to the
private key opens to another plaintext. -/
def Integrity (priv : c.Priv) (text : Bytes) : Prop :=
  ∀ rsaPart aesPart sk pt, c.rsaDec priv rsaPart = some sk → c.gcmOpen sk aesPart = some pt → pt = text

/-- **Tamper safety**: for EVERY byte string presented as the sealed value (not only single-byte
changes and truncations: any change of version, length field, RSA part or AES part), decryption
either fails or yields the original text. -/
theorem tamper_safe (priv : c.Priv) (text : Bytes) (hI : Integrity c priv text) (env' : Bytes) :
    decrypt c priv env' = .ok text ∨ ∃ e, decrypt c priv env' = .error e := by
  unfold decrypt
  match env' with
  | [] => exact Or.inr ⟨_, rfl⟩
  | [_] => exact Or.inr ⟨_, rfl⟩
  | [_, _] => exact Or.inr ⟨_, rfl⟩
  | _ :: hi :: lo :: rest =>
    simp only []
    by_cases hl : rest.length < readU16 hi lo
    · simp [hl]
    · simp only [hl, if_false]
      cases hr : c.rsaDec priv (rest.take (readU16 hi lo)) with
      | none => right; simp
      | some sk =>
        cases ho : c.gcmOpen sk (rest.drop (readU16 hi lo)) with
        | none => right; simp [ho]
        | some pt =>
          left
          have := hI _ _ sk pt hr ho
          simp [ho, this]

/-- anything shorter than the three header bytes is rejected -/
theorem too_short_rejected (priv : c.Priv) (env' : Bytes) (h : env'.length < 3) :
    decrypt c priv env' = .error .tooShort := by
  match env', h with
  | [], _ => rfl
  | [_], _ => rfl
  | [_, _], _ => rfl
  | _ :: _ :: _ :: _, h => simp at h; omega

/-- a truncation that cuts into the RSA part is rejected before any key is used -/
theorem truncated_rsa_rejected (priv : c.Priv) (v hi lo : Nat) (rest : Bytes) (h : rest.length < readU16 hi lo) :
    decrypt c priv (v :: hi :: lo :: rest) = .error .tooShort := by
  simp [decrypt, h]

/-! ### verification -/

/-- **Exactness**: verification accepts exactly when the marked choices are precisely the
choices whose output equals the question's output — including marks beyond the last choice. -/
theorem verify_iff {α : Type} [DecidableEq α] (marked : Nat → Bool) (maxLetter : Nat) (gen : α) (outputs : List α)
    (hmax : ∀ i, marked i = true → i < maxLetter) :
    verifyChoice marked maxLetter gen outputs = true ↔
      ∀ i, marked i = true ↔ (∃ h : i < outputs.length, outputs[i] = gen) := by
  unfold verifyChoice
  simp only [Bool.and_eq_true, List.all_eq_true, List.mem_range, Bool.not_eq_eq_eq_not, Bool.not_true,
    Bool.and_eq_false_imp, decide_eq_false_iff_not, Nat.not_le, Bool.or_eq_true, Bool.and_eq_true, beq_iff_eq,
    Bool.not_eq_true', bne_iff_ne, ne_eq]
  constructor
  · rintro ⟨h1, h2⟩ i
    constructor
    · intro hm
      have hlt : i < outputs.length := h2 i (hmax i hm) hm
      refine ⟨hlt, ?_⟩
      have hmem : (outputs[i], i) ∈ outputs.zipIdx := by
        rw [List.mem_zipIdx_iff_getElem?]; simp [List.getElem?_eq_getElem hlt]
      rcases h1 _ hmem with ⟨_, he⟩ | ⟨hf, _⟩
      · exact he
      · simp [hm] at hf
    · rintro ⟨hlt, he⟩
      have hmem : (outputs[i], i) ∈ outputs.zipIdx := by
        rw [List.mem_zipIdx_iff_getElem?]; simp [List.getElem?_eq_getElem hlt]
      rcases h1 _ hmem with ⟨hm, _⟩ | ⟨_, hne⟩
      · exact hm
      · exact absurd he hne
  · intro h
    constructor
    · rintro ⟨x, i⟩ hmem
      rw [List.mem_zipIdx_iff_getElem?] at hmem
      simp only [Nat.zero_add] at hmem
      obtain ⟨hlt, hx⟩ := List.getElem?_eq_some_iff.1 hmem
      subst hx
      by_cases hm : marked i = true
      · left; exact ⟨hm, ((h i).1 hm).2⟩
      · right
        refine ⟨by simpa using hm, ?_⟩
        intro he
        exact hm ((h i).2 ⟨hlt, he⟩)
    · intro i _ hm
      exact ((h i).1 hm).1

/-! Non-vacuity -/
example : verifyChoice (fun i => i == 0 || i == 2) 26 "hi" ["hi", "ho", "hi", "hey"] = true := by decide
example : verifyChoice (fun i => i == 0) 26 "hi" ["hi", "ho", "hi", "hey"] = false := by decide
/-- a mark beyond the last choice is rejected -/
example : verifyChoice (fun i => i == 0 || i == 4) 26 "hi" ["hi", "ho", "hey"] = false := by decide

end EvyV.C20
