import EvyV.Model.Lexer
/-
C03 (lexer part): for EVERY input the token stream ends, ends with EOF, and every token carries the
line and column of the character at its offset — the position a reader would compute by counting
newlines from the start of the text.
-/
namespace EvyV.C03
open EvyV.Lexer

/-! ### the specification of a position -/

def stepLC (lc : Nat × Nat) (ch : Char) : Nat × Nat :=
  if ch = '\n' then (lc.1 + 1, 1) else (lc.1, lc.2 + 1)

/-- line and column (1-based, in runes) of the character at offset `n`: start at (1,1), every
character before it moves one column right, a newline moves to column 1 of the next line -/
def lineCol (inp : Array Char) (n : Nat) : Nat × Nat := (inp.toList.take n).foldl stepLC (1, 1)

theorem lineCol_succ (inp : Array Char) (p : Nat) (h : p < inp.size) :
    lineCol inp (p + 1) = stepLC (lineCol inp p) inp[p] := by
  unfold lineCol
  have : inp.toList.take (p + 1) = inp.toList.take p ++ [inp[p]] := by
    rw [List.take_add_one]
    simp [h]
  rw [this, List.foldl_append]
  rfl

variable (inp : Array Char) (cl : Classes)

/-- the lexer's bookkeeping is right and its position is inside the text (or it has not started) -/
def Inv (s : St) : Prop :=
  match s.pos with
  | none => s.line = 1 ∧ s.col = 0
  | some p => p ≤ inp.size ∧ (s.line, s.col) = lineCol inp p

/-- additionally: the current rune exists -/
def Good (s : St) : Prop :=
  Inv inp s ∧ (match s.pos with | none => True | some p => p < inp.size)

theorem nul_ne_nl : NUL ≠ '\n' := by decide

theorem lookAt_ne_nul {p : Nat} (h : lookAt inp p ≠ NUL) : p < inp.size := by
  unfold lookAt at h
  by_cases hp : p < inp.size
  · exact hp
  · simp [hp] at h

theorem advance_inv (s : St) (hi : Inv inp s) (hn : nextPos s ≤ inp.size) : Inv inp (advance inp s) := by
  unfold Inv advance at *
  cases hp : s.pos with
  | none =>
    simp only [hp] at hi
    have hc : cur inp s = NUL := by simp [cur, hp]
    simp [hc, nul_ne_nl, nextPos, hp, hi.1, hi.2, lineCol]
  | some p =>
    simp only [hp] at hi
    have hn' : p < inp.size := by simp [nextPos, hp] at hn; omega
    have hc : cur inp s = inp[p] := by simp [cur, hp, lookAt, hn']
    obtain ⟨_, hlc⟩ := hi
    simp only [nextPos, hp, hc]
    refine ⟨hn', ?_⟩
    rw [lineCol_succ inp p hn', ← hlc]
    by_cases hnl : inp[p] = '\n' <;> simp [hnl, stepLC]

theorem advance_pos (s : St) : (advance inp s).pos = some (nextPos s) := by
  simp [advance]

theorem nextPos_advance (s : St) : nextPos (advance inp s) = nextPos s + 1 := by
  simp [advance, nextPos]

/-- an advance that is guarded by a look at a non-NUL next rune keeps everything in range -/
theorem advance_good (s : St) (hg : Good inp s) (hpk : peek inp s ≠ NUL) : Good inp (advance inp s) := by
  have hlt : nextPos s < inp.size := lookAt_ne_nul inp hpk
  refine ⟨advance_inv inp s hg.1 (Nat.le_of_lt hlt), ?_⟩
  simp [advance_pos, hlt]

theorem advanceWhile_good (pred : Char → Bool) (hpred : pred NUL = false) :
    ∀ (fuel : Nat) (s : St), Good inp s →
      Good inp (advanceWhile inp pred fuel s) ∧ nextPos s ≤ nextPos (advanceWhile inp pred fuel s) := by
  intro fuel
  induction fuel with
  | zero => intro s hg; exact ⟨hg, Nat.le_refl _⟩
  | succ n ih =>
    intro s hg
    unfold advanceWhile
    by_cases hp : pred (peek inp s) = true
    · have hne : peek inp s ≠ NUL := by
        intro h; rw [h, hpred] at hp; exact absurd hp (by simp)
      obtain ⟨h1, h2⟩ := ih (advance inp s) (advance_good inp s hg hne)
      simp only [hp, if_true]
      refine ⟨h1, ?_⟩
      rw [nextPos_advance] at h2; omega
    · simp only [hp]; exact ⟨hg, Nat.le_refl _⟩

theorem readString_good : ∀ (fuel : Nat) (esc : Bool) (s : St), Good inp s →
    Good inp (readString inp fuel esc s) ∧ nextPos s ≤ nextPos (readString inp fuel esc s) := by
  intro fuel
  induction fuel with
  | zero => intro esc s hg; exact ⟨hg, Nat.le_refl _⟩
  | succ n ih =>
    intro esc s hg
    unfold readString
    simp only []
    split
    · rename_i h1
      have hne : peek inp s ≠ NUL := by
        intro h; simp [h] at h1; exact absurd h1.1 (by decide)
      exact ⟨advance_good inp s hg hne, by rw [nextPos_advance]; omega⟩
    · split
      · exact ⟨hg, Nat.le_refl _⟩
      · rename_i h2
        have hne : peek inp s ≠ NUL := by
          intro h; simp [h] at h2
        obtain ⟨g1, g2⟩ := ih (cur inp s = '\\' && !esc) (advance inp s) (advance_good inp s hg hne)
        refine ⟨g1, ?_⟩
        rw [nextPos_advance] at g2; omega

/-- the unicode classification says NUL is neither a letter nor a digit -/
def ClassesOk : Prop := cl.isULetter NUL = false ∧ cl.isUDigit NUL = false

theorem adv_of_peek (s : St) (hg : Good inp s) (ch : Char) (h : peek inp s = ch) (hch : ch ≠ NUL) :
    Good inp (advance inp s) ∧ nextPos s ≤ nextPos (advance inp s) :=
  ⟨advance_good inp s hg (by rw [h]; exact hch), by rw [nextPos_advance]; omega⟩

theorem peek_advance (s : St) : peek inp (advance inp s) = peek2 inp s := by
  simp [peek, peek2, nextPos_advance]

theorem ite_elim {α : Type} {P : α → Prop} {c : Prop} [Decidable c] {a b : α}
    (ha : c → P a) (hb : ¬c → P b) : P (if c then a else b) := by
  split
  · exact ha ‹_›
  · exact hb ‹_›

/-- what every branch of the rule has to establish -/
def Q (s : St) (r : TT × St) : Prop := Good inp r.2 ∧ nextPos s ≤ nextPos r.2

/-- the rule applied at an existing rune keeps the lexer in range and never moves backwards -/
theorem rule_spec (hcl : ClassesOk cl) (s : St) (hg : Good inp s) : Q inp s (rule inp cl s) := by
  have hl : isLetter cl NUL = false := by simp [isLetter, hcl.1]; decide
  have hid : (fun r => isLetter cl r || cl.isUDigit r) NUL = false := by simp [hl, hcl.2]
  have hnum : (fun r => isDigit r || decide (r = '.')) NUL = false := by decide
  have hws : isHWS NUL = false := by decide
  have hcom : (fun r => r != NUL && r != '\n') NUL = false := by decide
  have stay : Good inp s ∧ nextPos s ≤ nextPos s := ⟨hg, Nat.le_refl _⟩
  unfold rule
  simp only []
  repeat' (refine ite_elim (P := Q inp s) (fun _ => ?_) (fun _ => ?_))
  all_goals unfold Q
  all_goals first
    | exact stay
    | exact adv_of_peek inp s hg '=' (by assumption) (by decide)
    | exact advanceWhile_good inp _ hws _ _ hg
    | exact advanceWhile_good inp _ hcom _ _ hg
    | exact advanceWhile_good inp _ hid _ _ hg
    | exact advanceWhile_good inp _ hnum _ _ hg
    | exact readString_good inp _ _ _ hg
    | skip
  -- the three dots
  all_goals
    rename_i h0
    have h : peek inp s = '.' ∧ peek2 inp s = '.' := by simpa using h0
    obtain ⟨g1, g2⟩ := adv_of_peek inp s hg '.' h.1 (by decide)
    obtain ⟨g3, g4⟩ := adv_of_peek inp (advance inp s) g1 '.' (by rw [peek_advance]; exact h.2) (by decide)
    exact ⟨g3, by show nextPos s ≤ nextPos (advance inp (advance inp s)); omega⟩

theorem rule_at_nul (s : St) (h : cur inp s = NUL) : rule inp cl s = (.eof, s) := by
  unfold rule
  simp [h, NUL]

def R (s : St) (r : TT × St) : Prop := r.1 = .eof → cur inp s = NUL

theorem rule_eof_only_at_nul (s : St) : R inp s (rule inp cl s) := by
  unfold rule
  simp only []
  repeat' (refine ite_elim (P := R inp s) (fun _ => ?_) (fun _ => ?_))
  all_goals unfold R
  all_goals first
    | (intro h; simp at h; done)
    | (intro _; assumption)
    | (intro h; split at h <;> simp at h; done)
    | skip


/-- one call of Next from a state in range: the token sits where its line / column say, and unless it
is EOF the lexer is again in range and has moved on -/
theorem next_spec (hcl : ClassesOk cl) (s0 : St) (hg : Good inp s0) :
    (next inp cl s0).1.offset = nextPos s0 ∧ (next inp cl s0).1.offset ≤ inp.size ∧
    ((next inp cl s0).1.line, (next inp cl s0).1.col) = lineCol inp (next inp cl s0).1.offset ∧
    ((next inp cl s0).1.tt ≠ .eof → Good inp (next inp cl s0).2 ∧ nextPos s0 + 1 ≤ nextPos (next inp cl s0).2) ∧
    (inp.size ≤ nextPos s0 → (next inp cl s0).1.tt = .eof) := by
  have hle : nextPos s0 ≤ inp.size := by
    unfold Good at hg
    cases hp : s0.pos with
    | none => simp [nextPos, hp]
    | some p => have := hg.2; simp only [hp] at this; simp [nextPos, hp]; omega
  have hinv := advance_inv inp s0 hg.1 hle
  have hpos := advance_pos inp s0
  have hlc : ((advance inp s0).line, (advance inp s0).col) = lineCol inp (nextPos s0) := by
    unfold Inv at hinv; simp only [hpos] at hinv; exact hinv.2
  have hnp := nextPos_advance inp s0
  refine ⟨rfl, hle, hlc, ?_, ?_⟩
  · intro hne
    have hc : cur inp (advance inp s0) ≠ NUL := fun e => hne (by simp [next, rule_at_nul inp cl _ e])
    have hgd : Good inp (advance inp s0) := by
      refine ⟨hinv, ?_⟩
      simp only [hpos]
      apply lookAt_ne_nul inp
      simpa [cur, hpos] using hc
    obtain ⟨g1, g2⟩ := rule_spec inp cl hcl _ hgd
    exact ⟨g1, by simp only [next]; omega⟩
  · intro h
    have : cur inp (advance inp s0) = NUL := by simp [cur, hpos, lookAt]; omega
    simp [next, rule_at_nul inp cl _ this]

theorem tokens_spec (hcl : ClassesOk cl) : ∀ (fuel : Nat) (s : St), Good inp s →
    (∀ t ∈ tokens inp cl fuel s, t.offset ≤ inp.size ∧ (t.line, t.col) = lineCol inp t.offset) ∧
    (inp.size + 1 ≤ fuel + nextPos s →
      ∃ pre last, tokens inp cl fuel s = pre ++ [last] ∧ last.tt = .eof ∧ ∀ t ∈ pre, t.tt ≠ .eof) := by
  intro fuel
  induction fuel with
  | zero =>
    intro s hg
    refine ⟨by simp [tokens], ?_⟩
    intro h
    -- nextPos s ≤ size always, so the premise is impossible
    have hle : nextPos s ≤ inp.size := by
      unfold Good at hg
      cases hp : s.pos with
      | none => simp [nextPos, hp]
      | some p => have := hg.2; simp only [hp] at this; simp [nextPos, hp]; omega
    omega
  | succ n ih =>
    intro s hg
    obtain ⟨h1, h2, h3, h4, h5⟩ := next_spec inp cl hcl s hg
    unfold tokens
    simp only []
    by_cases he : (next inp cl s).1.tt = .eof
    · simp only [he, if_true]
      refine ⟨?_, ?_⟩
      · intro t ht; simp at ht; subst ht; exact ⟨h2, h3⟩
      · intro _; exact ⟨[], (next inp cl s).1, by simp, he, by simp⟩
    · simp only [he, if_false]
      obtain ⟨g1, g2⟩ := h4 he
      obtain ⟨i1, i2⟩ := ih (next inp cl s).2 g1
      refine ⟨?_, ?_⟩
      · intro t ht
        simp only [List.mem_cons] at ht
        rcases ht with rfl | ht
        · exact ⟨h2, h3⟩
        · exact i1 t ht
      · intro hf
        obtain ⟨pre, last, e1, e2, e3⟩ := i2 (by omega)
        refine ⟨(next inp cl s).1 :: pre, last, by simp [e1], e2, ?_⟩
        intro t ht
        simp only [List.mem_cons] at ht
        rcases ht with rfl | ht
        · exact he
        · exact e3 t ht

theorem init_good : Good inp init := by
  simp [Good, Inv, init]

/-- **C03, lexer** — for every input (any runes, any length): lexing ends; the token list is a run of
non-EOF tokens followed by exactly one EOF; and every token's line and column are the position of the
character at its offset, which lies inside the text (or just after it, for EOF). -/
theorem lex_total_and_located (hcl : ClassesOk cl) :
    (∀ t ∈ lex inp cl, t.offset ≤ inp.size ∧ (t.line, t.col) = lineCol inp t.offset) ∧
    (∃ pre last, lex inp cl = pre ++ [last] ∧ last.tt = .eof ∧ ∀ t ∈ pre, t.tt ≠ .eof) := by
  obtain ⟨h1, h2⟩ := tokens_spec inp cl hcl (inp.size + 1) init (init_good inp)
  exact ⟨h1, h2 (by simp [nextPos, init])⟩

/-- tokens follow one another: each starts after the previous one -/
theorem tokens_increasing (hcl : ClassesOk cl) : ∀ (fuel : Nat) (s : St), Good inp s →
    List.Pairwise (fun a b => a.offset < b.offset) (tokens inp cl fuel s) ∧
    ∀ t ∈ tokens inp cl fuel s, nextPos s ≤ t.offset := by
  intro fuel
  induction fuel with
  | zero => intro s _; simp [tokens]
  | succ n ih =>
    intro s hg
    obtain ⟨h1, _, _, h4, _⟩ := next_spec inp cl hcl s hg
    unfold tokens
    simp only []
    by_cases he : (next inp cl s).1.tt = .eof
    · simp [he, h1]
    · simp only [he, if_false]
      obtain ⟨g1, g2⟩ := h4 he
      obtain ⟨i1, i2⟩ := ih _ g1
      refine ⟨List.Pairwise.cons ?_ i1, ?_⟩
      · intro t ht; have := i2 t ht; omega
      · intro t ht
        simp only [List.mem_cons] at ht
        rcases ht with rfl | ht
        · omega
        · have := i2 t ht; omega

/-! ### non-vacuity: a concrete text -/

def asciiClasses : Classes :=
  { isULetter := fun c => ('a' ≤ c && c ≤ 'z') || ('A' ≤ c && c ≤ 'Z'), isUDigit := fun c => '0' ≤ c && c ≤ '9' }

example : ClassesOk asciiClasses := ⟨by decide, by decide⟩

example : (lex "x := 1\nprint x // hi".toList.toArray asciiClasses).map (fun t => (t.offset, t.line, t.col)) =
    [(0, 1, 1), (1, 1, 2), (2, 1, 3), (4, 1, 5), (5, 1, 6), (6, 1, 7), (7, 2, 1), (12, 2, 6), (13, 2, 7), (14, 2, 8),
     (15, 2, 9), (20, 2, 14)] := by decide

end EvyV.C03
