import EvyV.Props.C07
import EvyV.Props.C01Pratt
/-
C06 (the part that is logic): the formatter's layout pass adds and removes nothing but blank lines —
for every sequence of items, at top level and inside multi-line literals. (That each item is printed
with its own tokens is established per input by the correspondence check: token sequence, re-parse,
syntax tree, behaviour.)
-/
namespace EvyV.C06
open EvyV.Layout

/-- every statement, declaration and comment line of the input is in the output, once, in order -/
theorem layout_keeps_items (l : List K) : (fmtK l).filter (· ≠ .blank) = l.filter (· ≠ .blank) :=
  C07.fmtK_keeps_items l

/-- every element and comment of a multi-line literal is in the output, once, in order -/
theorem literal_keeps_items (l : List M) : (fmtM 0 l).filter (· ≠ .nl) = l.filter (· ≠ .nl) :=
  C07.fmtM_keeps_items 0 l

/-- a blank line is only ever written between two items that both stay: the output never starts with
an inserted blank line -/
theorem no_blank_invented_at_start (l : List K) : (fmtK l).head? = l.head? := C07.head_fmtK l

example : (fmtK [.comment, .stmt, .func, .comment, .blank, .blank, .func]).filter (· ≠ .blank) =
    [.comment, .stmt, .func, .comment, .func] := by decide

/-! ### expressions: the printer writes the tokens of the tree, and they bind the same way again

format.go prints a unary expression as operator + operand, a binary expression as left, operator,
right, an index expression as left `[` index `]`, a group as `(` expression `)`: the token kinds of
the printed text are `Pratt.toks` of the tree. -/

open EvyV.Pratt in
/-- no token of an accepted expression is dropped, added or rewritten by printing its tree: for every
token sequence, the tokens of the tree the parser built, followed by what it left, are the input -/
theorem expr_format_keeps_tokens (ts : List Tok) (e : E) (rest : List Tok) (h : parse ts = some (e, rest)) :
    toks e ++ rest = ts := (parse_sound ts e rest h).2.1.symm

open EvyV.Pratt in
/-- the printed form of ANY precedence-respecting tree is read back as that tree: the printer never has
to add parentheses, and its output never binds differently (in particular for every tree the parser
returns, which `parse_sound` shows to be precedence-respecting) -/
theorem formatted_expr_reparses_to_same_tree (ts : List Tok) (e : E) (rest : List Tok) (h : parse ts = some (e, rest)) :
    parse (toks e ++ rest) = some (e, rest) := by
  obtain ⟨w, _, h0⟩ := parse_sound ts e rest h
  exact parse_toks e rest w h0

open EvyV.Pratt in
/-- a printer that dropped the parentheses of a group would change the reading: the group is needed -/
example : parse (toks (.bin .star (.group (.bin .plus (.atom 0) (.atom 1))) (.atom 2))) =
      some (.bin .star (.group (.bin .plus (.atom 0) (.atom 1))) (.atom 2), []) ∧
    parse (toks (.bin .star (.bin .plus (.atom 0) (.atom 1)) (.atom 2))) ≠
      some (.bin .star (.bin .plus (.atom 0) (.atom 1)) (.atom 2), []) := by decide

end EvyV.C06
