import EvyV.Props.C07
/-
C06 (the part that is logic): the formatter's layout pass adds and removes nothing but blank lines —
for every sequence of items, at top level and inside multi-line literals. (That each item is printed
with its own tokens is established per input by the correspondence check: token sequence, re-parse,
syntax tree, behaviour.)
-/
namespace EvyV.C06
open EvyV.Layout

/-- every statement, declaration and comment line of the input is in the output, once, in order -/
theorem layout_keeps_items (l : List K) : (fmtK l).filter (· ≠ .blank) = l.filter (· ≠ .blank) :=
  C07.fmtK_keeps_items l

/-- every element and comment of a multi-line literal is in the output, once, in order -/
theorem literal_keeps_items (l : List M) : (fmtM 0 l).filter (· ≠ .nl) = l.filter (· ≠ .nl) :=
  C07.fmtM_keeps_items 0 l

/-- a blank line is only ever written between two items that both stay: the output never starts with
an inserted blank line -/
theorem no_blank_invented_at_start (l : List K) : (fmtK l).head? = l.head? := C07.head_fmtK l

example : (fmtK [.comment, .stmt, .func, .comment, .blank, .blank, .func]).filter (· ≠ .blank) =
    [.comment, .stmt, .func, .comment, .func] := by decide

end EvyV.C06
