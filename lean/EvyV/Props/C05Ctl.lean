import EvyV.Model.Ctl
import EvyV.Gen.ScopeSites
/-
C05, `break` and `return`: what the parser's chain walk accepts is exactly the structural rule —

  * a `break` stands inside a loop of the SAME function, handler or top-level code (`ctlS`: a function or handler
    starts again outside every loop),
  * a `return` stands inside a function or a handler, and carries a value exactly when the function has a result type.

The parser's inLoop walks the whole scope chain, through function boundaries; the two agree because functions and
handlers stand at top level only (`TopOnly`, which is what parseProgram's dispatch gives: Props/Blocks.lean).
-/
namespace EvyV.Ctl

/-! ### the specification -/

mutual
def ctlS (loop : Bool) (ret : Option Bool) : St → Prop
  | .simple => True
  | .brk => loop = true
  | .ret v => ret = some v
  | .scope .loop body => ctlL true ret body
  | .scope (.func t) body => ctlL false (some t) body
  | .scope .handler body => ctlL false (some false) body
  | .scope _ body => ctlL loop ret body
def ctlL (loop : Bool) (ret : Option Bool) : Ss → Prop
  | .nil => True
  | .cons s rest => ctlS loop ret s ∧ ctlL loop ret rest
end

mutual
/-- no function or handler inside -/
def noFnS : St → Prop
  | .scope (.func _) _ => False
  | .scope .handler _ => False
  | .scope _ body => noFnL body
  | _ => True
def noFnL : Ss → Prop
  | .nil => True
  | .cons s rest => noFnS s ∧ noFnL rest
end

/-- functions and handlers at top level only -/
def TopOnly : Ss → Prop
  | .nil => True
  | .cons (.scope (.func _) body) rest => noFnL body ∧ TopOnly rest
  | .cons (.scope .handler body) rest => noFnL body ∧ TopOnly rest
  | .cons s rest => noFnS s ∧ TopOnly rest

@[simp] theorem prog_ne : (K.prog == K.loop) = false := by decide
@[simp] theorem branch_ne : (K.branch == K.loop) = false := by decide
@[simp] theorem handler_ne : (K.handler == K.loop) = false := by decide
@[simp] theorem func_ne (t : Bool) : (K.func t == K.loop) = false := by cases t <;> decide
@[simp] theorem loop_eq : (K.loop == K.loop) = true := by decide

def topRet : List Sc → Option Bool
  | [] => none
  | s :: _ => s.ret

theorem retOK_iff (v : Bool) (k : List Sc) : retOK v k = true ↔ topRet k = some v := by
  cases k with
  | nil => simp [retOK, topRet]
  | cons s r =>
    simp only [retOK, topRet]
    cases s.ret with
    | none => simp
    | some t => simp

mutual
/-- inside one function: the chain walk and the structural rule agree -/
theorem chkS_iff : ∀ (s : St) (k : List Sc), noFnS s → (chkS s k = true ↔ ctlS (inLoop k) (topRet k) s)
  | .simple, k, _ => by simp [chkS, ctlS]
  | .brk, k, _ => by simp [chkS, ctlS]
  | .ret v, k, _ => by simp only [chkS, ctlS]; exact retOK_iff v k
  | .scope .prog body, k, h => by
    simp only [noFnS] at h
    simp only [chkS, ctlS]
    have := chkL_iff body (push .prog k) h
    rw [this]
    cases k <;> simp [push, inLoop, topRet]
  | .scope .branch body, k, h => by
    simp only [noFnS] at h
    simp only [chkS, ctlS]
    have := chkL_iff body (push .branch k) h
    rw [this]
    cases k <;> simp [push, inLoop, topRet]
  | .scope .loop body, k, h => by
    simp only [noFnS] at h
    simp only [chkS, ctlS]
    have := chkL_iff body (push .loop k) h
    rw [this]
    cases k <;> simp [push, inLoop, topRet]
  | .scope (.func t) body, k, h => by simp only [noFnS] at h
  | .scope .handler body, k, h => by simp only [noFnS] at h
theorem chkL_iff : ∀ (ss : Ss) (k : List Sc), noFnL ss → (chkL ss k = true ↔ ctlL (inLoop k) (topRet k) ss)
  | .nil, k, _ => by simp [chkL, ctlL]
  | .cons s rest, k, h => by
    simp only [noFnL] at h
    simp only [chkL, ctlL, Bool.and_eq_true]
    rw [chkS_iff s k h.1, chkL_iff rest k h.2]
end

/-- a statement without functions inside is also fine as a top-level item -/
theorem top_iff : ∀ (p : Ss), TopOnly p →
    (chkL p [{ kind := .prog, ret := none }] = true ↔ ctlL false none p)
  | .nil, _ => by simp [chkL, ctlL]
  | .cons s rest, h => by
    have k0 : inLoop [{ kind := K.prog, ret := none }] = false := by simp [inLoop]
    have r0 : topRet [{ kind := K.prog, ret := (none : Option Bool) }] = none := rfl
    cases s with
    | simple =>
      simp only [TopOnly] at h
      simp only [chkL, ctlL, Bool.and_eq_true]
      rw [top_iff rest h.2]; simp [chkS, ctlS]
    | brk =>
      simp only [TopOnly] at h
      simp only [chkL, ctlL, Bool.and_eq_true]
      rw [top_iff rest h.2]; simp [chkS, ctlS, inLoop]
    | ret v =>
      simp only [TopOnly] at h
      simp only [chkL, ctlL, Bool.and_eq_true]
      rw [top_iff rest h.2]; simp [chkS, ctlS, retOK]
    | scope kd body =>
      cases kd with
      | func t =>
        simp only [TopOnly] at h
        simp only [chkL, ctlL, Bool.and_eq_true, chkS, ctlS]
        rw [top_iff rest h.2, chkL_iff body _ h.1]
        simp [push, inLoop, topRet]
      | handler =>
        simp only [TopOnly] at h
        simp only [chkL, ctlL, Bool.and_eq_true, chkS, ctlS]
        rw [top_iff rest h.2, chkL_iff body _ h.1]
        simp [push, inLoop, topRet]
      | prog =>
        simp only [TopOnly] at h
        simp only [chkL, ctlL, Bool.and_eq_true]
        rw [top_iff rest h.2, chkS_iff _ _ h.1, k0, r0]
      | branch =>
        simp only [TopOnly] at h
        simp only [chkL, ctlL, Bool.and_eq_true]
        rw [top_iff rest h.2, chkS_iff _ _ h.1, k0, r0]
      | loop =>
        simp only [TopOnly] at h
        simp only [chkL, ctlL, Bool.and_eq_true]
        rw [top_iff rest h.2, chkS_iff _ _ h.1, k0, r0]

/-- **C05, break and return.** A program (functions and handlers at top level) is accepted by the chain walk exactly
when every break is inside a loop of its own function and every return is inside a function or handler and carries a
value exactly when a result type is declared. -/
theorem accepted_iff_control_well_placed (p : Ss) (h : TopOnly p) : chkProg p = true ↔ ctlL false none p :=
  top_iff p h

theorem misplaced_break_or_return_is_rejected (p : Ss) (h : TopOnly p) (hbad : ¬ ctlL false none p) : chkProg p = false := by
  cases hc : chkProg p with
  | false => rfl
  | true => exact absurd ((accepted_iff_control_well_placed p h).mp hc) hbad

/-! ### the tie to the source (T1)

What parseBreakStatement and parseReturnStatement consult, extracted from the working tree on every run: inLoop
walks `s = s.outer` over the whole chain and counts while and for statements; a break asks inLoop(p.scope); a return
is judged by p.scope.returnType (absent: not allowed here; otherwise it must accept the type of the value, none for a
bare return); a scope gets its result type from the function (its declared type), the handler (none) or the
enclosing scope. -/

theorem control_sites_as_modelled :
    Gen.inLoopKinds = ["*WhileStmt", "*ForStmt"] ∧ Gen.inLoopWalksOuter = true ∧
    Gen.breakConsults = ["inLoop(p.scope)"] ∧
    Gen.returnConds = ["(p.scope.returnType == nil)", "!p.scope.returnType.accepts(ret.T)", "(ret.Value != nil)"] ∧
    Gen.scopeReturnTypes = ["parseFunc: fd.ReturnType", "parseEventHandler: NONE_TYPE", "newScope: nil", "newScope: outer.returnType"] := by
  decide

/-! ### not vacuous -/

/-- `func f:num` / `while true` / `if true` / `break` / `end` / `return 1` / `end` / `return 2` / `end` -/
def good : Ss :=
  .cons (.scope (.func true) (.cons (.scope .loop (.cons (.scope .branch (.cons .brk .nil)) (.cons (.ret true) .nil))) (.cons (.ret true) .nil))) .nil
/-- `while true` / `func`-less: a break in a branch at top level, outside every loop -/
def strayBreak : Ss := .cons (.scope .branch (.cons .brk .nil)) .nil
/-- `on down` / `return 1` / `end` -/
def handlerValue : Ss := .cons (.scope .handler (.cons (.ret true) .nil)) .nil

example : TopOnly good ∧ chkProg good = true := by simp [TopOnly, noFnL, noFnS, good]; decide
example : ctlL false none good := (accepted_iff_control_well_placed good (by simp [TopOnly, noFnL, noFnS, good])).mp (by decide)
example : chkProg strayBreak = false := by decide
example : ¬ ctlL false none strayBreak := by simp [ctlL, ctlS, strayBreak]
example : chkProg handlerValue = false := by decide
example : ¬ ctlL false none handlerValue := by simp [ctlL, ctlS, handlerValue]

end EvyV.Ctl
