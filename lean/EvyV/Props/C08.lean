import EvyV.Gen.Sites
/-
C08 — parsing, formatting and running are deterministic.

In Lean every model function is a function; the only ways the Go code can fail
to be one are hash-map iteration order, time, addresses and goroutines.  The
inventories of all of these are regenerated from the source on every run; the
obligations below say that the inventory is exactly the list of sites whose
order-independence is argued here.  A new `for … range someMap`, a goroutine, a
clock read or a %p breaks an obligation.
-/
namespace EvyV.C08

/-- how a map-range site uses the iteration: every class is independent of the order -/
inductive Use
  | conjunction      -- returns false at the first mismatch, true otherwise: a ∀ over the entries
  | buildsMap        -- inserts each entry into another map / scope under its own key
  | perEntryUpdate   -- updates each entry in place, independently of the others
  | collectThenSort  -- collects entries and sorts them by a total key before use
  | collectAsSet     -- collects into a slice that its consumers treat as a set (not an observable of C08)
  deriving DecidableEq, Repr

/-- the justified inventory -/
def sites : List (String × Use) := [
  ("pkg/bytecode/value.go:mapVal.Equals:m.m#1", .conjunction),
  ("pkg/evaluator/builtin.go:builtinsDeclsFromBuiltins:b.Funcs#1", .buildsMap),
  ("pkg/evaluator/builtin.go:builtinsDeclsFromBuiltins:b.Globals#2", .buildsMap),
  ("pkg/evaluator/builtin.go:sameMap:want.Pairs#1", .conjunction),
  ("pkg/evaluator/evaluator.go:Evaluator.evalProgram:e.eventHandlers#1", .collectAsSet),
  ("pkg/evaluator/evaluator.go:NewEvaluator:builtins.Globals#1", .buildsMap),
  ("pkg/evaluator/value.go:mapVal.Equals:m.Pairs#1", .conjunction),
  ("pkg/parser/ast.go:MapLiteral.infer:m.Pairs#1", .perEntryUpdate),
  ("pkg/parser/ast.go:wrapAny:mapLit.Pairs#1", .perEntryUpdate),
  ("pkg/parser/parser.go:newParser:builtins.Funcs#1", .buildsMap),
  ("pkg/parser/parser.go:parser.calledBuiltinFuncs:p.funcs#1", .collectAsSet),
  ("pkg/parser/parser.go:parser.parseProgram:p.builtins.Globals#1", .buildsMap),
  ("pkg/parser/parser.go:parser.validateScope:p.scope.vars#1", .collectThenSort)]

/-- every map-range loop in lexer, parser, evaluator, bytecode, cli, cli/svg and main.go is one
of the justified sites — and nothing else ranges over a map -/
theorem sites_covered : Gen.mapRanges = sites.map Prod.fst := by decide

/-- no goroutines, no channel operations, no address formatting anywhere in those packages; the
only clock reads are the default seed of RandSource (overridden by --rand-seed / by the platform)
and the platform's own sleep -/
theorem no_clock_no_goroutines :
    Gen.goroutineAndChannelSites = [] ∧ Gen.pointerFormatSites = [] ∧
    Gen.timeSites = ["pkg/cli/runtime.go:Platform.Sleep:time.Sleep",
                     "pkg/evaluator/builtin.go:<package var>:time.Now",
                     "pkg/evaluator/builtin.go:<package var>:time.Now().UnixNano"] := by decide

/-! ### why each class is independent of the iteration order (for every permutation) -/

/-- conjunction: `all` does not depend on the order of the entries -/
theorem conjunction_order_free {α : Type} (p : α → Bool) (l₁ l₂ : List α) (h : l₁.Perm l₂) :
    l₁.all p = l₂.all p := by
  induction h with
  | nil => rfl
  | cons x _ ih => simp [List.all_cons, ih]
  | swap x y l => simp [List.all_cons, Bool.and_left_comm]
  | trans _ _ ih1 ih2 => rw [ih1, ih2]

/-- a map built by inserting every entry under its own (distinct) key: looking any key up gives the
same answer whatever the insertion order -/
def insertAll {κ ν : Type} [DecidableEq κ] (m : κ → Option ν) (l : List (κ × ν)) : κ → Option ν :=
  l.foldl (fun acc p => fun k => if k = p.1 then some p.2 else acc k) m

theorem insertAll_lookup {κ ν : Type} [DecidableEq κ] (l : List (κ × ν)) (hn : (l.map Prod.fst).Nodup)
    (m : κ → Option ν) (k : κ) :
    insertAll m l k = match l.find? (fun p => p.1 = k) with | some p => some p.2 | none => m k := by
  induction l generalizing m with
  | nil => rfl
  | cons p rest ih =>
    simp only [List.map_cons, List.nodup_cons] at hn
    simp only [insertAll, List.foldl_cons] at *
    rw [ih hn.2]
    by_cases hk : p.1 = k
    · subst hk
      have : rest.find? (fun q => q.1 = p.1) = none := by
        rw [List.find?_eq_none]
        intro q hq hqe
        simp only [decide_eq_true_eq] at hqe
        exact hn.1 (List.mem_map.2 ⟨q, hq, hqe⟩)
      simp [this]
    · have hk' : ¬ k = p.1 := fun e => hk e.symm
      simp [List.find?_cons, hk, hk']

theorem buildsMap_order_free {κ ν : Type} [DecidableEq κ] (l₁ l₂ : List (κ × ν)) (h : l₁.Perm l₂)
    (hn : (l₁.map Prod.fst).Nodup) (m : κ → Option ν) (k : κ) :
    insertAll m l₁ k = insertAll m l₂ k := by
  have hn2 : (l₂.map Prod.fst).Nodup := (h.map Prod.fst).nodup_iff.1 hn
  rw [insertAll_lookup l₁ hn, insertAll_lookup l₂ hn2]
  -- with distinct keys `find?` by key finds the same pair in both lists
  have key : ∀ (l : List (κ × ν)), (l.map Prod.fst).Nodup → ∀ p ∈ l, l.find? (fun q => q.1 = p.1) = some p := by
    intro l
    induction l with
    | nil => intro _ p hp; simp at hp
    | cons a rest ih =>
      intro hnd p hp
      simp only [List.map_cons, List.nodup_cons] at hnd
      simp only [List.mem_cons] at hp
      by_cases ha : a.1 = p.1
      · rcases hp with rfl | hp
        · simp
        · exact absurd (List.mem_map.2 ⟨p, hp, ha.symm⟩) hnd.1
      · rcases hp with rfl | hp
        · exact absurd rfl ha
        · simp [List.find?_cons, ha, ih hnd.2 p hp]
  cases h1 : l₁.find? (fun p => p.1 = k) with
  | some p =>
    have hp := List.mem_of_find?_eq_some h1
    have hpk : p.1 = k := by simpa using List.find?_some h1
    have := key l₂ hn2 p (h.mem_iff.1 hp)
    rw [hpk] at this
    simp [this]
  | none =>
    have : l₂.find? (fun p => p.1 = k) = none := by
      rw [List.find?_eq_none] at h1 ⊢
      intro q hq
      exact h1 q (h.mem_iff.2 hq)
    simp [this]

/-- collect-then-sort: sorting by a key that is distinct for distinct entries gives the same list
for every permutation of the input (token offsets are distinct: Lemmas for mergeSort in core) -/
theorem collectThenSort_order_free {α : Type} (le : α → α → Bool) (l₁ l₂ : List α) (h : l₁.Perm l₂)
    (htrans : ∀ a b c, le a b = true → le b c = true → le a c = true)
    (htotal : ∀ a b, (le a b || le b a) = true)
    (hanti : ∀ a b, a ∈ l₁ → b ∈ l₁ → le a b = true → le b a = true → a = b) :
    l₁.mergeSort le = l₂.mergeSort le := by
  apply List.Perm.eq_of_pairwise (le := fun a b => le a b = true)
  · intro a b ha hb h1 h2
    have ha' : a ∈ l₁ := List.mem_mergeSort.1 ha
    have hb' : b ∈ l₁ := h.mem_iff.2 (List.mem_mergeSort.1 hb)
    exact hanti a b ha' hb' h1 h2
  · exact List.pairwise_mergeSort htrans htotal l₁
  · exact List.pairwise_mergeSort htrans htotal l₂
  · exact (List.mergeSort_perm l₁ le).trans (h.trans (List.mergeSort_perm l₂ le).symm)

end EvyV.C08
