import EvyV.Model.MapVal
import EvyV.Spec.OrderedDict
/- Helper lemmas for C12. -/
namespace EvyV
open Spec

variable {V : Type}

theorem GoMap.lookup_set (m : GoMap V) (k k' : Key) (v : V) :
    List.lookup k' (GoMap.set m k v) = if k' = k then some v else List.lookup k' m := by
  induction m with
  | nil => simp only [GoMap.set, List.lookup]; split <;> simp_all
  | cons p rest ih =>
    obtain ⟨a, b⟩ := p
    simp only [GoMap.set]
    by_cases h : a = k <;> by_cases h2 : k' = a <;> simp_all [List.lookup] <;> grind

theorem GoMap.lookup_del (m : GoMap V) (k k' : Key) :
    List.lookup k' (GoMap.del m k) = if k' = k then none else List.lookup k' m := by
  induction m with
  | nil => simp [GoMap.del]
  | cons p rest ih =>
    obtain ⟨a, b⟩ := p
    unfold GoMap.del at *
    by_cases h : a = k <;> by_cases h2 : k' = a <;> simp_all [List.lookup, List.filter] <;> grind

theorem GoMap.keys_set (m : GoMap V) (k : Key) (v : V) :
    GoMap.keys (GoMap.set m k v) = if GoMap.has m k then GoMap.keys m else GoMap.keys m ++ [k] := by
  induction m with
  | nil => simp [GoMap.set, GoMap.keys, GoMap.has]
  | cons p rest ih =>
    obtain ⟨a, b⟩ := p
    unfold GoMap.keys GoMap.has at *
    simp only [GoMap.set]
    by_cases h : a = k
    · subst h; simp [List.lookup]
    · have hb : (k == a) = false := by simp; intro e; exact h e.symm
      simp only [h, if_false, List.map, List.lookup, hb]
      rw [ih]; split <;> simp

theorem GoMap.keys_del (m : GoMap V) (k : Key) :
    GoMap.keys (GoMap.del m k) = (GoMap.keys m).filter (fun x => !decide (x = k)) := by
  induction m with
  | nil => simp [GoMap.del, GoMap.keys]
  | cons p rest ih =>
    obtain ⟨a, b⟩ := p
    unfold GoMap.del GoMap.keys at *
    by_cases h : a = k <;> simp_all [List.filter]

theorem GoMap.has_iff_mem_keys (m : GoMap V) (k : Key) : GoMap.has m k = true ↔ k ∈ GoMap.keys m := by
  induction m with
  | nil => simp [GoMap.has, GoMap.keys, List.lookup]
  | cons p rest ih =>
    obtain ⟨a, b⟩ := p
    unfold GoMap.has GoMap.keys at *
    by_cases h : k = a
    · subst h; simp [List.lookup]
    · have hb : (k == a) = false := by simp [h]
      simp [List.lookup, hb, ih, h]

theorem GoMap.len_eq_keys (m : GoMap V) : GoMap.len m = (GoMap.keys m).length := by
  simp [GoMap.len, GoMap.keys]

/-- the entries an order list denotes under a lookup function -/
def absOf (f : Key → Option V) (order : List Key) : List (Key × V) :=
  order.filterMap (fun k => (f k).map (fun v => (k, v)))

theorem absOf_congr (f g : Key → Option V) (order : List Key)
    (h : ∀ k ∈ order, f k = g k) : absOf f order = absOf g order := by
  induction order with
  | nil => rfl
  | cons a rest ih =>
    unfold absOf at *
    simp only [List.filterMap_cons]
    rw [h a (by simp)]
    rw [ih (fun k hk => h k (by simp [hk]))]

theorem absOf_keys_sub (f : Key → Option V) (order : List Key) (k : Key)
    (h : k ∈ (absOf f order).map Prod.fst) : k ∈ order := by
  unfold absOf at h
  simp only [List.mem_map, List.mem_filterMap] at h
  obtain ⟨p, ⟨a, ha, hp⟩, rfl⟩ := h
  cases hf : f a with
  | none => simp [hf] at hp
  | some v => simp [hf] at hp; subst hp; simpa using ha

theorem Dict.set_not_mem (d : Dict V) (k : Key) (v : V) (h : k ∉ d.map Prod.fst) :
    Dict.set d k v = d ++ [(k, v)] := by
  induction d with
  | nil => rfl
  | cons p rest ih =>
    obtain ⟨a, b⟩ := p
    simp at h
    have : ¬ a = k := fun e => h.1 e.symm
    simp [Dict.set, this]
    exact ih (by simpa using h.2)

theorem absOf_update_mem (f : Key → Option V) (order : List Key) (k : Key) (v : V)
    (hnd : order.Nodup) (hk : k ∈ order) (hf : (f k).isSome) :
    absOf (fun k' => if k' = k then some v else f k') order = Dict.set (absOf f order) k v := by
  induction order with
  | nil => simp at hk
  | cons a rest ih =>
    simp only [List.nodup_cons] at hnd
    by_cases h : a = k
    · subst h
      have hnot : a ∉ rest := hnd.1
      have e1 : absOf (fun k' => if k' = a then some v else f k') rest = absOf f rest := by
        apply absOf_congr
        intro k' hk'
        have : k' ≠ a := fun e => hnot (e ▸ hk')
        simp [this]
      cases hfa : f a with
      | none => simp [hfa] at hf
      | some old =>
        unfold absOf at *
        simp [List.filterMap_cons, hfa, Dict.set, e1]
    · have hk' : k ∈ rest := by
        simp at hk; rcases hk with e | e
        · exact absurd e.symm h
        · exact e
      have ih' := ih hnd.2 hk'
      unfold absOf at *
      simp only [List.filterMap_cons, h, if_false]
      cases hfa : f a with
      | none => simp [ih']
      | some va => simp [Dict.set, h, ih']

theorem absOf_erase (f : Key → Option V) (order : List Key) (k : Key) (hnd : order.Nodup) :
    absOf (fun k' => if k' = k then none else f k') (order.erase k) = Dict.del (absOf f order) k := by
  induction order with
  | nil => simp [absOf, Dict.del]
  | cons a rest ih =>
    simp only [List.nodup_cons] at hnd
    by_cases h : a = k
    · subst h
      have e1 : absOf (fun k' => if k' = a then none else f k') rest = absOf f rest := by
        apply absOf_congr
        intro k' hk'
        have : k' ≠ a := fun e => hnd.1 (e ▸ hk')
        simp [this]
      have e2 : Dict.del (absOf f rest) a = absOf f rest := by
        unfold Dict.del
        apply List.filter_eq_self.2
        intro p hp
        have : p.1 ∈ (absOf f rest).map Prod.fst := List.mem_map_of_mem hp
        have := absOf_keys_sub f rest p.1 this
        have hne : p.1 ≠ a := fun e => hnd.1 (e ▸ this)
        simp [hne]
      simp only [List.erase_cons_head, e1]
      unfold absOf Dict.del at *
      simp only [List.filterMap_cons]
      cases hfa : f a with
      | none => simp [e2]
      | some va => simp [List.filter, e2]
    · have hb : (a == k) = false := by simp [h]
      simp only [List.erase_cons, hb]
      have ih' := ih hnd.2
      unfold absOf Dict.del at *
      simp only [List.filterMap_cons, h, if_false, Bool.false_eq_true]
      cases hfa : f a with
      | none => simp [ih']
      | some va => simp [List.filter, h, ih']

end EvyV
