/-
Model of pkg/evaluator/value.go mapVal: a Go map `Pairs` next to the key slice
`Order`, and of ranger.go mapRange.  The Go map is an association list that the
operations keep duplicate-free (`GoMap`); `Order` is a plain list, exactly as in
the code, so that the two can get out of step if an operation forgets one.
-/
namespace EvyV

abbrev Key := List Char

/-- a Go `map[string]V`: lookup, insert-or-replace, delete, len. -/
abbrev GoMap (V : Type) := List (Key × V)

namespace GoMap
variable {V : Type}
def get? (m : GoMap V) (k : Key) : Option V := (List.lookup k m)
def has (m : GoMap V) (k : Key) : Bool := (List.lookup k m).isSome
def set (m : GoMap V) (k : Key) (v : V) : GoMap V :=
  match m with
  | [] => [(k, v)]
  | (k', v') :: rest => if k' = k then (k, v) :: rest else (k', v') :: set rest k v
def del (m : GoMap V) (k : Key) : GoMap V := List.filter (fun p => !decide (p.1 = k)) m
def len (m : GoMap V) : Nat := List.length m
def keys (m : GoMap V) : List Key := List.map Prod.fst m
end GoMap

structure MapVal (V : Type) where
  pairs : GoMap V
  order : List Key

namespace MapVal
variable {V : Type}

/-- zero value / `{}` -/
def empty : MapVal V := ⟨[], []⟩

/-- mapVal.SetKey -/
def setKey (m : MapVal V) (k : Key) (v : V) : MapVal V :=
  if m.pairs.has k then { m with pairs := m.pairs.set k v }
  else { pairs := m.pairs.set k v, order := m.order ++ [k] }

/-- mapVal.Delete: removes the first occurrence of the key from Order. -/
def delete (m : MapVal V) (k : Key) : MapVal V :=
  if m.pairs.has k then { pairs := m.pairs.del k, order := m.order.erase k } else m

/-- mapVal.Get: `none` is the ErrMapKey panic. -/
def get (m : MapVal V) (k : Key) : Option V := m.pairs.get? k

/-- builtin has -/
def has (m : MapVal V) (k : Key) : Bool := m.pairs.has k

/-- builtin len: len(m.Pairs) -/
def len (m : MapVal V) : Nat := m.pairs.len

/-- evalMapLiteral: Pairs from the literal's pairs, Order a copy of the literal's Order. -/
def ofLiteral (ps : List (Key × V)) : MapVal V :=
  { pairs := ps.foldl (fun acc p => acc.set p.1 p.2) [], order := ps.map Prod.fst }

/-- String()/Repr(): the entries in Order order; a key of Order missing from
Pairs would be a nil dereference in Go: `none`. -/
def entries (m : MapVal V) : Option (List (Key × V)) :=
  m.order.mapM (fun k => (m.pairs.get? k).map (fun v => (k, v)))

/-- mapVal.Equals with element equality `veq`: same len and every entry of `m`
has an equal partner in `m2`. -/
def equals (veq : V → V → Bool) (m m2 : MapVal V) : Bool :=
  m.pairs.len == m2.pairs.len &&
  m.pairs.all (fun p => match m2.pairs.get? p.1 with | some v2 => veq p.2 v2 | none => false)

end MapVal

/-- One operation of a history on a map (through any alias: aliases share the
same mapVal, so the history is the interleaving of everybody's operations). -/
inductive MapOp (V : Type)
  | set (k : Key) (v : V)
  | del (k : Key)

def MapVal.step {V : Type} (m : MapVal V) : MapOp V → MapVal V
  | .set k v => m.setKey k v
  | .del k => m.delete k

/-- ranger.go mapRange + evalFor: `order` is the snapshot taken at loop entry;
`body k m` is whatever the loop body does to the map when run for key `k`.
Returns the visited keys and the final map. -/
def mapRangeLoop {V : Type} (body : Key → MapVal V → MapVal V) :
    List Key → MapVal V → List Key × MapVal V
  | [], m => ([], m)
  | k :: rest, m =>
    if m.pairs.has k then
      let (vis, m') := mapRangeLoop body rest (body k m)
      (k :: vis, m')
    else mapRangeLoop body rest m

def mapRange {V : Type} (body : Key → MapVal V → MapVal V) (m : MapVal V) : List Key × MapVal V :=
  mapRangeLoop body m.order m

end EvyV
