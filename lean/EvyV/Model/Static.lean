import EvyV.Model.Ast
/-
ImplModel of the parser's termination analysis (pkg/parser/ast.go alwaysTerminates / alwaysTerms,
parser.go parseBlockWithEndTokens): which statements and blocks never complete normally. The parser
uses it to reject "missing return" and "unreachable code".
-/
namespace EvyV
variable {F : Type}

mutual
/-- alwaysTerms(stmt): return, break, and an if whose every branch — with an else — terminates -/
def stmtTerms : Stmt F → Bool
  | .ret _ => true
  | .brk => true
  | .ifS conds (some e) => blockTerms e && condsTerm conds
  | _ => false
/-- BlockStatement.alwaysTerms: set as soon as one of its statements terminates -/
def blockTerms : List (Stmt F) → Bool
  | [] => false
  | s :: rest => stmtTerms s || blockTerms rest
def condsTerm : List (Expr F × List (Stmt F)) → Bool
  | [] => true
  | (_, b) :: rest => blockTerms b && condsTerm rest
end

mutual
/-- the flags of every statement of a block in source order (a statement, then its nested blocks) -/
def flagsStmt : Stmt F → List Bool
  | .ifS conds els => stmtTerms (.ifS conds els) :: (flagsConds conds ++ (match els with | some e => flagsBlock e | none => []))
  | .whileS c body => stmtTerms (.whileS c body) :: flagsBlock body
  | .forS lv t r body => stmtTerms (.forS lv t r body) :: flagsBlock body
  | s => [stmtTerms s]
def flagsBlock : List (Stmt F) → List Bool
  | [] => []
  | s :: rest => flagsStmt s ++ flagsBlock rest
def flagsConds : List (Expr F × List (Stmt F)) → List Bool
  | [] => []
  | (_, b) :: rest => flagsBlock b ++ flagsConds rest
end

mutual
/-- what the parser guarantees about the body of a function with a return type, apart from
termination: `break` only inside a loop ("break is not in a loop"), and every `return` carries a
value (the return type check). `inLoop` says whether the statement is inside a loop of this body. -/
def fnOkS (inLoop : Bool) : Stmt F → Bool
  | .brk => inLoop
  | .ret none => false
  | .ret (some _) => true
  | .ifS conds els => fnOkConds inLoop conds && (match els with | some e => fnOkB inLoop e | none => true)
  | .whileS _ body => fnOkB true body
  | .forS _ _ _ body => fnOkB true body
  | _ => true
def fnOkB (inLoop : Bool) : List (Stmt F) → Bool
  | [] => true
  | s :: rest => fnOkS inLoop s && fnOkB inLoop rest
def fnOkConds (inLoop : Bool) : List (Expr F × List (Stmt F)) → Bool
  | [] => true
  | (_, b) :: rest => fnOkB inLoop b && fnOkConds inLoop rest
end

def flagsProgram (p : Program F) : List Bool :=
  (p.funcs.flatMap (fun f => flagsBlock f.body)) ++ (p.handlers.flatMap (fun h => flagsBlock h.body)) ++ flagsBlock p.stmts

end EvyV
