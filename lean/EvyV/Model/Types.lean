/-
ImplModel of pkg/parser/type.go: the static types of Evy and the relations the parser decides
with them (accepts, matches, Equals, infer, fixedType, combineTypes, concatType).

Go's `*Type` values are compared by pointer in places. The interned ones (NUM_TYPE, …, EMPTY_ARRAY,
EMPTY_MAP, GENERIC_ARRAY, GENERIC_MAP) are constructors here; every other composite is built with
`arr` / `map`, whose pointer identity never matters (a composite that is pointer-equal to another is
structurally equal, and the loops reach the same verdict by descending).
-/
namespace EvyV.Types

inductive Ty
  | num | str | bool | any | none
  | emptyArr | emptyMap          -- EMPTY_ARRAY, EMPTY_MAP: the untyped `[]` and `{}`
  | genArr | genMap              -- GENERIC_ARRAY, GENERIC_MAP: parameters of builtins such as `len`
  | arr (fixed : Bool) (sub : Ty)
  | map (fixed : Bool) (sub : Ty)
  deriving DecidableEq, Repr, Inhabited

inductive Name | num | str | bool | any | array | map | none
  deriving DecidableEq, Repr

namespace Ty

def name : Ty → Name
  | .num => .num | .str => .str | .bool => .bool | .any => .any | .none => .none
  | .emptyArr | .genArr | .arr .. => .array
  | .emptyMap | .genMap | .map .. => .map

def isFixed : Ty → Bool
  | .arr f _ => f
  | .map f _ => f
  | _ => false

/-- Type.String() -/
def toStr : Ty → String
  | .num => "num" | .str => "string" | .bool => "bool" | .any => "any" | .none => "none"
  | .emptyArr | .genArr => "[]"
  | .emptyMap | .genMap => "{}"
  | .arr _ s => "[]" ++ toStr s
  | .map _ s => "{}" ++ toStr s

/-- fixedType -/
def fixedType : Ty → Ty
  | .arr _ s => .arr true s
  | .map _ s => .map true s
  | t => t

/-- Type.Equals: equal names all the way down, Fixed ignored (an EMPTY literal's Sub is NONE_TYPE,
a GENERIC one's is nil) -/
def equals : Ty → Ty → Bool
  | .arr _ a, .arr _ b => equals a b
  | .map _ a, .map _ b => equals a b
  | .arr .., _ => false
  | .map .., _ => false
  | _, .arr .. => false
  | _, .map .. => false
  | a, b => a == b

/-- Type.accepts, first iteration has `top = true` (`left == t`), `rf` is rightFixed so far -/
def acceptsAux (top rf : Bool) : Ty → Ty → Bool
  | .arr _ ls, r =>
    match r with
    | .emptyArr => true
    | .arr f rs => acceptsAux false (rf || f) ls rs
    | _ => false
  | .map _ ls, r =>
    match r with
    | .emptyMap => true
    | .map f rs => acceptsAux false (rf || f) ls rs
    | _ => false
  | .any, r => r == .any || (r != .none && (top || !(rf || r.isFixed)))
  | .genArr, r => r.name == .array
  | .genMap, r => r.name == .map
  | l, r => l == r

def accepts (t t2 : Ty) : Bool := acceptsAux true false t t2

/-- Type.matches -/
def matchesT : Ty → Ty → Bool
  | .arr _ a, .arr _ b => matchesT a b
  | .map _ a, .map _ b => matchesT a b
  | .arr .., r => r == .emptyArr
  | .map .., r => r == .emptyMap
  | .emptyArr, r => r.name == .array
  | .emptyMap, r => r.name == .map
  | .genArr, r => r == .genArr || r == .emptyArr
  | .genMap, r => r == .genMap || r == .emptyMap
  | l, r => l == r

/-- Type.infer -/
def infer : Ty → Ty
  | .emptyArr => .arr false .any
  | .emptyMap => .map false .any
  | .arr f s => .arr f (infer s)
  | .map f s => .map f (infer s)
  | t => t

/-- the recursive call `combineTypes([]*Type{t.Sub, combinedT.Sub})`, which swaps its arguments at
every level: `combineSub sw x y` is Go's `combineTypes([x, y])` when `sw = false` and
`combineTypes([y, x])` when `sw = true`. It always yields a type (ANY on failure). -/
def combineSub (sw : Bool) : Ty → Ty → Ty
  | x, y =>
    let a := if sw then y else x
    let b := if sw then x else y
    if equals a b then (if b.isFixed then b else a)
    else if b.isFixed || a.isFixed then .any
    else
      match x, y with
      | .arr _ xs, .arr _ ys => .arr false (combineSub (!sw) xs ys)
      | .map _ xs, .map _ ys => .map false (combineSub (!sw) xs ys)
      | .arr f xs, .emptyArr => .arr f xs
      | .map f xs, .emptyMap => .map f xs
      | .emptyArr, .arr f ys => .arr f ys
      | .emptyMap, .map f ys => .map f ys
      | _, _ => .any

/-- one step of combineTypes (`c` = combinedT so far, next `t`); `none` = return ANY_TYPE at once -/
def combine2 (c t : Ty) : Option Ty :=
  if equals c t then some (if t.isFixed then t else c)
  else if t.isFixed || c.isFixed then Option.none
  else
    match c, t with
    | .arr _ cs, .arr _ ts => some (.arr false (combineSub false ts cs))
    | .map _ cs, .map _ ts => some (.map false (combineSub false ts cs))
    | .arr f cs, .emptyArr => some (.arr f cs)
    | .map f cs, .emptyMap => some (.map f cs)
    | .emptyArr, .arr f ts => some (.arr f ts)
    | .emptyMap, .map f ts => some (.map f ts)
    | _, _ => Option.none

/-- combineTypes over the element types of a literal -/
def combineTypes : List Ty → Ty
  | [] => .none
  | t :: rest => go t rest
where
  go (c : Ty) : List Ty → Ty
    | [] => c
    | t :: rest =>
      match combine2 c t with
      | some c' => go c' rest
      | Option.none => .any

/-- concatType -/
def concatType : Ty → Ty → Ty
  | .emptyArr, r => r
  | .emptyMap, r => r
  | .arr lf ls, .arr rf rs => .arr (lf || rf) (concatType ls rs)
  | .map lf ls, .map rf rs => .map (lf || rf) (concatType ls rs)
  | l, _ => l

end Ty
end EvyV.Types

namespace EvyV.Types

/-! ### operators, conditions, range, index (pkg/parser/expression.go, parser.go) -/

inductive BinOp | plus | minus | star | slash | percent | lt | gt | le | ge | eq | ne | and | or
  deriving DecidableEq, Repr

def BinOp.isComparison : BinOp → Bool
  | .lt | .gt | .le | .ge | .eq | .ne => true
  | _ => false

/-- parseBinaryExpr + validateBinaryType: `none` = a type error is reported, `some t` = the static type -/
def binType (op : BinOp) (l r : Ty) : Option Ty :=
  if !(l.matchesT r || (l.name == .array && op == .star)) then none
  else
    let ok : Bool :=
      match op with
      | .plus => l == .num || l == .str || l.name == .array
      | .star => l == .num || (l.name == .array && r == .num)
      | .minus | .slash | .percent => l == .num
      | .lt | .gt | .le | .ge => l == .num || l == .str
      | .and | .or => l == .bool
      | .eq | .ne => true
    if !ok then none
    else if op.isComparison then some .bool
    else if op == .plus && l.name == .array && r.name == .array then some (l.concatType r)
    else some l

inductive UnOp | neg | not
  deriving DecidableEq, Repr

/-- validateUnaryType -/
def unType (op : UnOp) (t : Ty) : Option Ty :=
  match op with
  | .neg => if t == .num then some .num else none
  | .not => if t == .bool then some .bool else none

/-- parseCondition: if / else if / while -/
def condOk (t : Ty) : Bool := t == .bool

/-- parseForStatement with one range operand: the loop variable's type -/
def rangeVar (t : Ty) : Option Ty :=
  match t.name with
  | .str | .map => some .str
  | .array => some (match t.infer with | .arr _ s => s.fixedType | _ => .none)
  | .num => some .num
  | _ => none

/-- parseIndexOrSliceExpr: `left[index]`. A literal that is indexed directly is inferred first
(inferLiteral: `[[]]` is [][]any), so an element never has an untyped type; for variables infer changes
nothing. -/
def indexType (left index : Ty) : Option Ty :=
  match left.infer with
  | .str => if index == .num then some .str else none
  | .arr _ s => if index == .num then some s.fixedType else none
  | .map _ s => if index == .str then some s.fixedType else none
  | _ => none

/-- parseSlice: `left[a:b]` -/
def sliceType (left : Ty) : Option Ty :=
  if left.name == .array || left == .str then some left else none

/-- parseDotExpr -/
def dotType (left : Ty) : Option Ty :=
  match left.infer with
  | .map _ s => some s.fixedType
  | _ => none

/-- parseTypeAssertion `left.(t)` -/
def assertType (left t : Ty) : Option Ty :=
  if left == .any && t != .any then some t.fixedType else none

end EvyV.Types
