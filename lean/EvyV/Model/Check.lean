import EvyV.Spec.WellTyped
/-
An executable type checker for the serialised AST: `tc` (expressions, bidirectional: an expected type
may be given, which is how untyped empty literals get their type), `tcS` / `tcB` (statements, blocks)
and `checkProg` (a whole program against the signatures of its functions and the types of its
globals, both supplied by the harness from the REAL parser's AST). Props/C02Check.lean proves that
what it accepts satisfies the hypotheses of the type soundness theorem; the harness runs it on every
accepted program of its streams.
-/
namespace EvyV.TS
open EvyV

variable {F : Type}

def accept (ex : Option Ty) (t : Ty) : Option Ty :=
  match ex with
  | none => some t
  | some t' => if t' = t then some t else none

/-- the type of `l op r` for operands of type `t` (both operands have the same type in every rule) -/
def binTy (op : Op) (t : Ty) : Option Ty :=
  if isEq op then some .bool
  else match t with
    | .num => if isArith op then some .num else if isCmp op then some .bool else none
    | .str => if op = .plus then some .str else if isCmp op then some .bool else none
    | .bool => if isLogic op then some .bool else none
    | .arr s => if op = .plus then some (.arr s) else none
    | _ => none

def optAll {α : Type} (o : Option α) (p : α → Bool) : Bool :=
  match o with
  | none => true
  | some x => p x

/-- the types of all arguments, if every one can be inferred -/
def inferAll (f : Expr F → Option Ty) : List (Expr F) → Option (List Ty)
  | [] => some []
  | e :: rest =>
    match f e, inferAll f rest with
    | some t, some ts => some (t :: ts)
    | _, _ => none

/-- the argument types meet what the built-in requires, from position `i` on -/
def predsOk (sig : BSig) : Nat → List Ty → Bool
  | _, [] => true
  | i, t :: ts => sig.paramAt i t && predsOk sig (i + 1) ts

def arityOk (sig : BSig) (n : Nat) : Bool :=
  decide (sig.params.length ≤ n) && (sig.rest.isSome || decide (n = sig.params.length))

/-- `tc Φ G fuel e ex`: the type of `e` (which must be `ex` if that is given), or `none` -/
def tc (Φ : FEnv) (G : Env) : Nat → Expr F → Option Ty → Option Ty
  | 0, _, _ => none
  | n + 1, e, ex =>
    match e with
    | .num _ => accept ex .num
    | .str _ => accept ex .str
    | .bool _ => accept ex .bool
    | .var nm =>
      match G nm with
      | some t => accept ex t
      | none => none
    | .any t inner =>
      if t = .any then none
      else match tc Φ G n inner (some t) with
        | some _ => accept ex .any
        | none => none
    | .arr elems =>
      let s? : Option Ty := match ex with
        | some (.arr s) => some s
        | some _ => none
        | none => elems.findSome? (fun e => tc Φ G n e none)
      match s? with
      | some s => if Reg s && elems.all (fun e => tc Φ G n e (some s) == some s) then some (.arr s) else none
      | none => none
    | .mapLit pairs =>
      let s? : Option Ty := match ex with
        | some (.map s) => some s
        | some _ => none
        | none => pairs.findSome? (fun p => tc Φ G n p.2 none)
      match s? with
      | some s => if Reg s && pairs.all (fun p => tc Φ G n p.2 (some s) == some s) then some (.map s) else none
      | none => none
    | .group inner => tc Φ G n inner ex
    | .unary op inner =>
      if op = .minus then
        match tc Φ G n inner (some .num) with
        | some _ => accept ex .num
        | none => none
      else if op = .bang then
        match tc Φ G n inner (some .bool) with
        | some _ => accept ex .bool
        | none => none
      else none
    | .binary op l r =>
      -- array repetition: an array and a number
      match (if op = .asterisk then tc Φ G n l none else none) with
      | some (.arr s) => if tc Φ G n r (some .num) == some .num then accept ex (.arr s) else none
      | _ =>
      -- otherwise the operands have the same type: take it from whichever side can be inferred
      let t? : Option Ty := match tc Φ G n l none with
        | some t => some t
        | none => tc Φ G n r none
      match t? with
      | some t =>
        if tc Φ G n l (some t) == some t && tc Φ G n r (some t) == some t then
          match binTy op t with
          | some res => accept ex res
          | none => none
        else none
      | none => none
    | .index l i =>
      match tc Φ G n l none with
      | some (.arr s) => if tc Φ G n i (some .num) == some .num then accept ex s else none
      | some .str => if tc Φ G n i (some .num) == some .num then accept ex .str else none
      | some (.map s) => if tc Φ G n i (some .str) == some .str then accept ex s else none
      | _ => none
    | .slice l a b =>
      if optAll a (fun x => tc Φ G n x (some .num) == some .num) && optAll b (fun x => tc Φ G n x (some .num) == some .num) then
        match tc Φ G n l none with
        | some (.arr s) => accept ex (.arr s)
        | some .str => accept ex .str
        | _ => none
      else none
    | .dot l _ =>
      match tc Φ G n l none with
      | some (.map s) => accept ex s
      | _ => none
    | .assert t inner =>
      if t = .any then none
      else if Reg t then
        match tc Φ G n inner (some .any) with
        | some _ => accept ex t
        | none => none
      else none
    | .call name args =>
      match builtinSig name with
      | some sig =>
        match sig.ret, inferAll (fun a => tc Φ G n a none) args with
        | some t, some tys => if arityOk sig args.length && predsOk sig 0 tys then accept ex t else none
        | _, _ => none
      | none =>
      match Φ name with
      | some sig =>
        match sig.ret with
        | some t =>
          match sig.variadic with
          | some tv => if args.all (fun a => tc Φ G n a (some tv) == some tv) then accept ex t else none
          | none =>
            if args.length = sig.params.length && (args.zip sig.params).all (fun p => tc Φ G n p.1 (some p.2) == some p.2) then accept ex t
            else none
        | none => none
      | none => none

def lvOk (lv : Option Str) : Bool :=
  match lv with
  | some n => !decide (n = underscore)
  | none => true

mutual
/-- the scopes a well-typed statement leaves, or `none` -/
def tcS (Φ : FEnv) (Gg : Env) (ρ : Option Ty) : Nat → List SEnv → Stmt F → Option (List SEnv)
  | 0, _, _ => none
  | n + 1, Gs, s =>
    let G := lookupG Gs Gg
    match s with
    | .noop => some Gs
    | .brk => some Gs
    | .decl nm e =>
      if nm = underscore then none
      else match Gs with
        | h :: rest =>
          match tc Φ G n e none with
          | some t => some (senvSet h nm t :: rest)
          | none => none
        | [] =>
          match Gg nm with
          | some t => if tc Φ G n e (some t) == some t then some [] else none
          | none => none
    | .assign (.var nm) e =>
      match G nm with
      | some t => if tc Φ G n e (some t) == some t then some Gs else none
      | none => none
    | .assign (.index l i) e =>
      match tc Φ G n l none with
      | some (.arr s) => if tc Φ G n i (some .num) == some .num && tc Φ G n e (some s) == some s then some Gs else none
      | some (.map s) => if tc Φ G n i (some .str) == some .str && tc Φ G n e (some s) == some s then some Gs else none
      | _ => none
    | .assign (.dot l _) e =>
      match tc Φ G n l none with
      | some (.map s) => if tc Φ G n e (some s) == some s then some Gs else none
      | _ => none
    | .assign _ _ => none
    | .ret none => if ρ = none then some Gs else none
    | .ret (some e) =>
      match ρ with
      | some t => if tc Φ G n e (some t) == some t then some Gs else none
      | none => none
    | .ifS conds els =>
      if conds.all (fun c => tc Φ G n c.1 (some .bool) == some .bool && tcB Φ Gg ρ n ([] :: Gs) c.2) &&
          optAll els (fun b => tcB Φ Gg ρ n ([] :: Gs) b) then some Gs else none
    | .whileS c body =>
      if tc Φ G n c (some .bool) == some .bool && tcB Φ Gg ρ n ([] :: Gs) body then some Gs else none
    | .forS lv lvTy range body =>
      if !lvOk lv then none
      else match range with
        | .step a b c =>
          if optAll a (fun x => tc Φ G n x (some .num) == some .num) && tc Φ G n b (some .num) == some .num &&
              optAll c (fun x => tc Φ G n x (some .num) == some .num) && tcB Φ Gg ρ n ([] :: loopScope lv .num :: Gs) body
          then some Gs else none
        | .over e =>
          match tc Φ G n e none with
          | some (.arr s) => if (lv.isNone || decide (lvTy = s)) && tcB Φ Gg ρ n ([] :: loopScope lv s :: Gs) body then some Gs else none
          | some .str => if tcB Φ Gg ρ n ([] :: loopScope lv .str :: Gs) body then some Gs else none
          | some (.map _) => if tcB Φ Gg ρ n ([] :: loopScope lv .str :: Gs) body then some Gs else none
          | _ => none
    | .callS (.call name args) =>
      if name = lit "print" then
        if args.all (fun a => (tc Φ G n a none).isSome) then some Gs else none
      else if name = lit "test" then
        if args.all (fun a => tc Φ G n a (some .any) == some .any) then some Gs else none
      else match builtinSig name with
        | some sig =>
          match inferAll (fun a => tc Φ G n a none) args with
          | some tys => if arityOk sig args.length && predsOk sig 0 tys then some Gs else none
          | none => none
        | none =>
        match Φ name with
        | some sig =>
          match sig.variadic with
          | some tv => if args.all (fun a => tc Φ G n a (some tv) == some tv) then some Gs else none
          | none =>
            if args.length = sig.params.length && (args.zip sig.params).all (fun p => tc Φ G n p.1 (some p.2) == some p.2) then some Gs
            else none
        | none => none
    | .callS _ => none
def tcB (Φ : FEnv) (Gg : Env) (ρ : Option Ty) : Nat → List SEnv → List (Stmt F) → Bool
  | 0, _, _ => false
  | _ + 1, _, [] => true
  | n + 1, Gs, s :: rest =>
    match tcS Φ Gg ρ n Gs s with
    | some Gs' => tcB Φ Gg ρ n Gs' rest
    | none => false
end

def envOf (l : List (Str × Ty)) : Env := fun n => List.lookup n l
def fenvOf (l : List (Str × FSig)) : FEnv := fun n => List.lookup n l

/-- a whole program against the signatures of its functions and the types of its globals -/
def checkProg (sigs : List (Str × FSig)) (globals : List (Str × Ty)) (prog : Program F) (fuel : Nat) : Bool :=
  sigs.all (fun p =>
    !isBuiltin p.1 &&
    match lookupFunc prog.funcs p.1 with
    | some fd =>
      (match p.2.variadic with
        | none =>
          fd.variadic.isNone && decide (fd.params.length = p.2.params.length) &&
          tcB (fenvOf sigs) (envOf globals) p.2.ret fuel [paramScope fd.params p.2.params []] fd.body
        | some tv =>
          (match fd.variadic with
            | some vn => !decide (vn = underscore) && tcB (fenvOf sigs) (envOf globals) p.2.ret fuel [[(vn, Ty.arr tv)]] fd.body
            | none => false) &&
          fd.params.isEmpty && Reg tv) &&
      (p.2.ret.isNone || (blockTerms fd.body && fnOkB false fd.body))
    | none => false) &&
  tcB (fenvOf sigs) (envOf globals) none fuel [] prog.stmts &&
  prog.handlers.all (fun h => tcB (fenvOf sigs) (envOf globals) none fuel [paramScope (h.params.map Prod.fst) (h.params.map Prod.snd) []] h.body) &&
  optAll (envOf globals (lit "err")) (fun t => decide (t = .bool)) && optAll (envOf globals (lit "errmsg")) (fun t => decide (t = .str))

end EvyV.TS
