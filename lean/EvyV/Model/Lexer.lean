/-
ImplModel of pkg/lexer/lexer.go: the state machine with `advance`, the lazily updated line / column
bookkeeping and every token rule. Positions are in runes (the Go code works on `[]rune(input)`).

The Unicode classification (unicode.IsLetter, unicode.IsDigit) is a parameter; theorems hold for every
classification, the driver gets the classification of the non-ASCII runes of its input from Go.
-/
namespace EvyV.Lexer

inductive TT
  | illegal | eof | comment | ident | numLit | stringLit
  | declare | assign | plus | minus | bang | asterisk | slash | percent
  | eq | notEq | lt | gt | ltEq | gtEq
  | lparen | rparen | lbracket | rbracket | lcurly | rcurly
  | colon | ws | nl | dot | dot3
  | keyword (s : String)
  deriving DecidableEq, Repr

structure Classes where
  isULetter : Char → Bool     -- unicode.IsLetter
  isUDigit : Char → Bool      -- unicode.IsDigit

structure Token where
  tt : TT
  offset : Nat
  line : Nat
  col : Nat
  deriving Repr

/-- Lexer struct; `pos = none` is the initial -1 -/
structure St where
  pos : Option Nat
  line : Nat
  col : Nat
  deriving Repr

def NUL : Char := Char.ofNat 0

section
variable (inp : Array Char) (cl : Classes)

/-- lookAt -/
def lookAt (p : Nat) : Char := if h : p < inp.size then inp[p] else NUL

/-- l.cur: zero before the first advance -/
def cur (s : St) : Char := match s.pos with | none => NUL | some p => lookAt inp p

def nextPos (s : St) : Nat := match s.pos with | none => 0 | some p => p + 1

/-- advance -/
def advance (s : St) : St :=
  let (line, col) := if cur inp s = '\n' then (s.line + 1, 0) else (s.line, s.col)
  { pos := some (nextPos s), line := line, col := col + 1 }

def peek (s : St) : Char := lookAt inp (nextPos s)
def peek2 (s : St) : Char := lookAt inp (nextPos s + 1)

/-- `for pr := l.peekRune(); pred(pr); pr = l.peekRune() { l.advance() }`; the fuel is the input size -/
def advanceWhile (pred : Char → Bool) : Nat → St → St
  | 0, s => s
  | fuel + 1, s => if pred (peek inp s) then advanceWhile pred fuel (advance inp s) else s

def isLetter (c : Char) : Bool := cl.isULetter c || c = '_'
def isDigit (c : Char) : Bool := '0' ≤ c && c ≤ '9'
def isHWS (c : Char) : Bool := c = ' ' || c = '\t' || c = '\r'

def keywords : List String :=
  ["true", "false", "and", "or", "num", "string", "bool", "any", "if", "else", "func", "on", "return", "for",
   "range", "while", "break", "end", "pkg", "import"]

/-- readString's loop: returns the state after it -/
def readString : Nat → Bool → St → St
  | 0, _, s => s
  | fuel + 1, escaped, s =>
    let escaped := cur inp s = '\\' && !escaped
    let pr := peek inp s
    if pr = '"' && !escaped then advance inp s
    else if pr = NUL || pr = '\n' then s
    else readString fuel escaped (advance inp s)

def slice (a b : Nat) : String := String.ofList ((inp.toList.drop a).take (b - a))

/-- the `switch l.cur` of Next and what follows it: the token type and the state after the token.
(The literal of a string token — strconv.Unquote — is not modelled: an invalid string is an
`illegal` token in Go and a `stringLit` here.) -/
def rule (s : St) : TT × St :=
  let c := cur inp s
  if c = ' ' || c = '\t' then (.ws, advanceWhile inp isHWS inp.size s)
  else if c = '=' then (if peek inp s = '=' then (.eq, advance inp s) else (.assign, s))
  else if c = '+' then (.plus, s)
  else if c = '-' then (.minus, s)
  else if c = '!' then (if peek inp s = '=' then (.notEq, advance inp s) else (.bang, s))
  else if c = '/' then
    (if peek inp s = '/' then (.comment, advanceWhile inp (fun r => r != NUL && r != '\n') inp.size s)
     else (.slash, s))
  else if c = '*' then (.asterisk, s)
  else if c = '%' then (.percent, s)
  else if c = '<' then (if peek inp s = '=' then (.ltEq, advance inp s) else (.lt, s))
  else if c = '>' then (if peek inp s = '=' then (.gtEq, advance inp s) else (.gt, s))
  else if c = ':' then (if peek inp s = '=' then (.declare, advance inp s) else (.colon, s))
  else if c = '{' then (.lcurly, s)
  else if c = '}' then (.rcurly, s)
  else if c = '(' then (.lparen, s)
  else if c = ')' then (.rparen, s)
  else if c = '[' then (.lbracket, s)
  else if c = ']' then (.rbracket, s)
  else if c = '\n' then (.nl, s)
  else if c = '.' then
    (if peek inp s = '.' && peek2 inp s = '.' then (.dot3, advance inp (advance inp s)) else (.dot, s))
  else if c = '"' then (.stringLit, readString inp inp.size false s)
  else if c = NUL then (.eof, s)
  else if isLetter cl c then
    let s' := advanceWhile inp (fun r => isLetter cl r || cl.isUDigit r) inp.size s
    let lit := slice inp (nextPos s - 1) (nextPos s')
    (if keywords.contains lit then .keyword lit else .ident, s')
  else if isDigit c then (.numLit, advanceWhile inp (fun r => isDigit r || r = '.') inp.size s)
  else (.illegal, s)

/-- Next: advance, note the position, apply the rule -/
def next (s0 : St) : Token × St :=
  let s := advance inp s0
  ({ tt := (rule inp cl s).1, offset := nextPos s0, line := s.line, col := s.col }, (rule inp cl s).2)

/-- the parser's token loop: Next until EOF -/
def tokens : Nat → St → List Token
  | 0, _ => []
  | fuel + 1, s =>
    let (t, s') := next inp cl s
    if t.tt = .eof then [t] else t :: tokens fuel s'

def init : St := { pos := none, line := 1, col := 0 }

def lex : List Token := tokens inp cl (inp.size + 1) init

end
end EvyV.Lexer
