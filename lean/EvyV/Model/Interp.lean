import EvyV.Model.Builtins
/-
Model of evaluator.go: eval, evalProgram, evalStatments, evalDecl,
evalAssignment, evalFunccall, evalIf, evalWhile, evalFor (+ ranger.go),
expressions, HandleEvent.  One mutual recursion on fuel; every function that
corresponds to an entry into Go's `eval` starts with `tick`.
-/
namespace EvyV

variable {F : Type} (ops : NumOps F) (ext : Ext F)

def lookupFunc (funcs : List (FuncDef F)) (name : Str) : Option (FuncDef F) :=
  funcs.find? (fun f => f.name == name)

/-- canShortCircuit -/
def canShortCircuit (op : Op) (left : Val F) : Bool :=
  match left, op with
  | .bool l, .and => !l
  | .bool l, .or => l
  | _, _ => false

/-- evalBinaryNumExpr; `%` is math.Mod (ext) -/
def binNum (st : St F) (op : Op) (l r : F) : Res F (Val F) :=
  match op with
  | .plus => .ok (.num (ops.add l r)) st
  | .minus => .ok (.num (ops.sub l r)) st
  | .asterisk => .ok (.num (ops.mul l r)) st
  | .slash => .ok (.num (ops.div l r)) st
  | .percent =>
    let (res, st') := callExt ext st "math.mod" [.num l, .num r] [.num l]
    match res with
    | [.num v] => .ok (.num v) st'
    | _ => .err (.internal "bad oracle answer") st'
  | .gt => .ok (.bool (ops.lt r l)) st
  | .lt => .ok (.bool (ops.lt l r)) st
  | .gteq => .ok (.bool (ops.le r l)) st
  | .lteq => .ok (.bool (ops.le l r)) st
  | _ => .err (.internal "ErrOperation (num)") st

/-- string order: Go compares bytes; for valid UTF-8 this is code point order -/
def strLt : Str → Str → Bool
  | [], [] => false
  | [], _ :: _ => true
  | _ :: _, [] => false
  | a :: as, b :: bs => if a.toNat < b.toNat then true else if a.toNat > b.toNat then false else strLt as bs

def binStr (st : St F) (op : Op) (l r : Str) : Res F (Val F) :=
  match op with
  | .plus => .ok (.str (l ++ r)) st
  | .gt => .ok (.bool (strLt r l)) st
  | .lt => .ok (.bool (strLt l r)) st
  | .gteq => .ok (.bool (!strLt l r)) st
  | .lteq => .ok (.bool (!strLt r l)) st
  | _ => .err (.internal "ErrOperation (string)") st

def binBool (st : St F) (op : Op) (l r : Bool) : Res F (Val F) :=
  match op with
  | .and => .ok (.bool (l && r)) st
  | .or => .ok (.bool (l || r)) st
  | _ => .err (.internal "ErrOperation (bool)") st

def replicateCopies : Nat → Nat → Val F → St F → Option (List (Val F) × St F)
  | 0, _, _, st => some ([], st)
  | n + 1, fuel, v, st =>
    match deepCopy fuel v st with
    | some (.arr b, st') =>
      match heapGet st' b with
      | some (.arr es) => (replicateCopies n fuel v st').map (fun (rest, st'') => (es ++ rest, st''))
      | _ => Option.none
    | _ => Option.none

/-- evalBinaryArrayExpr -/
def binArr (st : St F) (op : Op) (la : Nat) (right : Val F) : Res F (Val F) :=
  match heapGet st la with
  | some (.arr ls) =>
    match op with
    | .plus =>
      match right with
      | .arr ra =>
        match heapGet st ra with
        | some (.arr rs) => let (a, st') := alloc st (.arr (ls ++ rs)); .ok (.arr a) st'
        | _ => .err (.goPanic "array +: heap") st
      | _ => .err (.goPanic "array +: arrayVal assertion") st
    | .asterisk =>
      match right with
      | .num n =>
        let reps := ops.toInt n
        if ops.eq (ops.ofInt reps) n = false then .err (.panic .badRepetition) st
        else if reps < 0 then .err (.panic .badRepetition) st
        else if ls.length ≠ 0 && reps > (67108864 : Int) / ls.length then .err (.panic .badRepetition) st  -- maxRepeatedLen
        else
          match replicateCopies (if ls.length = 0 then 0 else reps.toNat) (auxFuel st) (.arr la) st with
          | some (es, st') => let (a, st'') := alloc st' (.arr es); .ok (.arr a) st''
          | Option.none => .err .timeout st
      | _ => .err (.goPanic "array *: numVal assertion") st
    | _ => .err (.internal "ErrOperation (array)") st
  | _ => .err (.goPanic "array op: heap") st

/-- after both operands are evaluated -/
def applyBinary (st : St F) (op : Op) (left right : Val F) : Res F (Val F) :=
  if op = .eq || op = .neq then
    match valEquals ops st.heap (auxFuel st) left right with
    | .yes => .ok (.bool (op = .eq)) st
    | .no => .ok (.bool (op ≠ .eq)) st
    | .goPanic => .err (.goPanic "Equals: kind assertion") st
    | .fuel => .err .timeout st
  else
    match left with
    | .num l => match right with
      | .num r => binNum ops ext st op l r
      | _ => .err (.goPanic "binary: right.(*numVal)") st
    | .str l => match right with
      | .str r => binStr st op l r
      | _ => .err (.goPanic "binary: right.(*stringVal)") st
    | .bool l => match right with
      | .bool r => binBool st op l r
      | _ => .err (.goPanic "binary: right.(*boolVal)") st
    | .arr a => binArr ops st op a right
    | _ => .err (.internal "ErrOperation (binary)") st

def indexVal (st : St F) (left idx : Val F) : Res F (Val F) :=
  match left with
  | .arr a =>
    match heapGet st a, idx with
    | some (.arr es), .num i =>
      match indexList ops es i with
      | .ok (some v) => .ok v st
      | .ok Option.none => .err (.goPanic "array index out of range") st
      | .error e => .err (idxErr e) st
    | some (.arr _), _ => .err (.goPanic "normalizeIndex: idx.(*numVal)") st
    | _, _ => .err (.goPanic "index: heap") st
  | .str s =>
    match idx with
    | .num i =>
      match indexList ops s i with
      | .ok (some c) => .ok (.str [c]) st
      | .ok Option.none => .err (.goPanic "string index out of range") st
      | .error e => .err (idxErr e) st
    | _ => .err (.goPanic "normalizeIndex: idx.(*numVal)") st
  | .map a =>
    match heapGet st a, idx with
    | some (.map m), .str k =>
      match m.get k with
      | some v => .ok v st
      | Option.none => .err (.panic .mapKey) st
    | some (.map _), _ => .err (.internal "ErrType: map index") st
    | _, _ => .err (.goPanic "index: heap") st
  | _ => .err (.internal "ErrType: index") st

def numOpt : Option (Val F) → Option (Option F)
  | Option.none => some Option.none
  | some (.num v) => some (some v)
  | some _ => Option.none

def sliceVal (st : St F) (left : Val F) (s e : Option (Val F)) : Res F (Val F) :=
  match numOpt s, numOpt e with
  | some s', some e' =>
    match left with
    | .arr a =>
      match heapGet st a with
      | some (.arr es) =>
        match sliceList ops es s' e' with
        | .ok (some l) => let (b, st') := alloc st (.arr l); .ok (.arr b) st'
        | .ok Option.none => .err (.goPanic "slice bounds out of range") st
        | .error er => .err (idxErr er) st
      | _ => .err (.goPanic "slice: heap") st
    | .str cs =>
      match sliceList ops cs s' e' with
      | .ok (some l) => .ok (.str l) st
      | .ok Option.none => .err (.goPanic "slice bounds out of range") st
      | .error er => .err (idxErr er) st
    | _ => .err (.internal "ErrType: slice") st
  | _, _ => .err (.goPanic "normalizeIndex: idx.(*numVal)") st

/-- zero(t) for a loop variable's declared type -/
def zeroVal (st : St F) : Ty → Val F × St F
  | .num => (.num ops.zero, st)
  | .str => (.str [], st)
  | .bool => (.bool false, st)
  | .any => (.any .bool (.bool false), st)
  | .arr _ | .earr | .garr => let (a, st') := alloc st (.arr []); (.arr a, st')
  | .map _ | .emap | .gmap => let (a, st') := alloc st (.map MapVal.empty); (.map a, st')
  | .none => (.none, st)

/-- one evaluated range of a for statement (ranger.go) -/
inductive Ranger (F : Type)
  | step (cur stop step : F)
  | arr (addr cur : Nat)
  | str (runes : Str) (cur : Nat)
  | map (addr : Nat) (order : List Key)

/-- mapRange.next: skip the keys of the snapshot that have been deleted in the meantime -/
def nextPresent {V : Type} (m : MapVal V) : List Key → Option (Key × List Key)
  | [] => Option.none
  | k :: rest => if m.has k then some (k, rest) else nextPresent m rest

/-- ranger.next: the value for the loop variable and the advanced ranger, or `none` when done -/
def rangerNext (st : St F) : Ranger F → Option (Val F × Ranger F)
  | .step cur stop step =>
    if ops.lt ops.zero step && ops.le stop cur then Option.none
    else if ops.lt step ops.zero && ops.le cur stop then Option.none
    else some (.num cur, .step (ops.add cur step) stop step)
  | .arr a cur =>
    match heapGet st a with
    | some (.arr es) => match es[cur]? with
      | some v => some (v, .arr a (cur + 1))
      | Option.none => Option.none
    | _ => Option.none
  | .str rs cur => match rs[cur]? with
    | some c => some (.str [c], .str rs (cur + 1))
    | Option.none => Option.none
  | .map a order =>
    match heapGet st a with
    | some (.map m) => (nextPresent m order).map (fun p => (.str p.1, .map a p.2))
    | _ => Option.none

def bindParams : List Str → List (Val F) → St F → St F
  | p :: ps, v :: vs, st => bindParams ps vs (setVar st p v)
  | _, _, st => st

/-- pushFuncScope + parameter binding: the state in which the body of a user function starts —
exactly one fresh local scope holding the parameters (and the variadic array); the caller's
block scopes are not visible, the globals are -/
def calleeState (fd : FuncDef F) (vs : List (Val F)) (st : St F) : St F :=
  let st2 := bindParams fd.params vs { st with locals := [[]] }
  match fd.variadic with
  | some vn => let (a, s) := alloc st2 (.arr vs); setVar s vn (.arr a)
  | Option.none => st2

mutual
/-- Go `eval` on an expression node -/
def evalE (prog : Program F) : Nat → Expr F → St F → Res F (Val F)
  | 0, _, st => .err .timeout st
  | fuel + 1, e, st0 =>
    match tick st0 with
    | Option.none => .err .stopped st0
    | some st =>
    match e with
    | .num v => .ok (.num v) st
    | .str s => .ok (.str s) st
    | .bool b => .ok (.bool b) st
    | .var n =>
      match getVar st n with
      | some v => .ok v st
      | Option.none => .err (.panic .varNotSet) st
    | .any t inner =>
      match evalE prog fuel inner st with
      | .ok (.any _ _) st' => .err (.goPanic "nested any value") st'
      | .ok v st' => .ok (.any t v) st'
      | .err o st' => .err o st'
    | .arr elems =>
      match evalList prog fuel elems st with
      | .ok vs st' => let (a, st'') := alloc st' (.arr vs); .ok (.arr a) st''
      | .err o st' => .err o st'
    | .mapLit pairs =>
      match evalPairs prog fuel pairs st with
      | .ok ps st' => let (a, st'') := alloc st' (.map (MapVal.ofLiteral ps)); .ok (.map a) st''
      | .err o st' => .err o st'
    | .call name args => evalCall prog fuel name args st
    | .group inner => evalE prog fuel inner st
    | .unary op inner =>
      match evalE prog fuel inner st with
      | .ok (.num v) st' => if op = .minus then .ok (.num (ops.neg v)) st' else .err (.internal "ErrOperation (unary)") st'
      | .ok (.bool b) st' => if op = .bang then .ok (.bool (!b)) st' else .err (.internal "ErrOperation (unary)") st'
      | .ok _ st' => .err (.internal "ErrOperation (unary)") st'
      | .err o st' => .err o st'
    | .binary op l r =>
      match evalE prog fuel l st with
      | .err o st' => .err o st'
      | .ok left st' =>
        if canShortCircuit op left then applyBinary ops ext st' op left left
        else
          match evalE prog fuel r st' with
          | .err o st'' => .err o st''
          | .ok right st'' => applyBinary ops ext st'' op left right
    | .index l i =>
      match evalE prog fuel l st with
      | .err o st' => .err o st'
      | .ok left st' =>
        match evalE prog fuel i st' with
        | .err o st'' => .err o st''
        | .ok idx st'' => indexVal ops st'' left idx
    | .slice l s e =>
      match evalE prog fuel l st with
      | .err o st' => .err o st'
      | .ok left st' =>
        match evalOpt prog fuel s st' with
        | .err o st'' => .err o st''
        | .ok sv st'' =>
          match evalOpt prog fuel e st'' with
          | .err o st3 => .err o st3
          | .ok ev st3 => sliceVal ops st3 left sv ev
    | .dot l key =>
      match evalE prog fuel l st with
      | .err o st' => .err o st'
      | .ok (.map a) st' =>
        match heapGet st' a with
        | some (.map m) =>
          match m.get key with
          | some v => .ok v st'
          | Option.none => .err (.panic .mapKey) st'
        | _ => .err (.goPanic "dot: heap") st'
      | .ok _ st' => .err (.internal "ErrType: dot") st'
    | .assert t inner =>
      match evalE prog fuel inner st with
      | .err o st' => .err o st'
      | .ok (.any dynT v) st' => if dynT.equals t then .ok v st' else .err (.panic .anyConversion) st'
      | .ok _ st' => .err (.panic .anyConversion) st'

/-- optional sub-expression of a slice (no eval entry when absent) -/
def evalOpt (prog : Program F) : Nat → Option (Expr F) → St F → Res F (Option (Val F))
  | 0, _, st => .err .timeout st
  | _ + 1, Option.none, st => .ok Option.none st
  | fuel + 1, some e, st =>
    match evalE prog fuel e st with
    | .ok v st' => .ok (some v) st'
    | .err o st' => .err o st'

/-- evalExprList: left to right, each result copied (copyOrRef: identity on immutable basics) -/
def evalList (prog : Program F) : Nat → List (Expr F) → St F → Res F (List (Val F))
  | 0, _, st => .err .timeout st
  | _ + 1, [], st => .ok [] st
  | fuel + 1, e :: rest, st =>
    match evalE prog fuel e st with
    | .err o st' => .err o st'
    | .ok v st' =>
      match evalList prog fuel rest st' with
      | .err o st'' => .err o st''
      | .ok vs st'' => .ok (v :: vs) st''

/-- evalMapLiteral: the values in source (Order) order -/
def evalPairs (prog : Program F) : Nat → List (Str × Expr F) → St F → Res F (List (Key × Val F))
  | 0, _, st => .err .timeout st
  | _ + 1, [], st => .ok [] st
  | fuel + 1, (k, e) :: rest, st =>
    match evalE prog fuel e st with
    | .err o st' => .err o st'
    | .ok v st' =>
      match evalPairs prog fuel rest st' with
      | .err o st'' => .err o st''
      | .ok ps st'' => .ok ((k, v) :: ps) st''

/-- evalFunccall (no eval entry of its own: FuncCallStmt calls it directly) -/
def evalCall (prog : Program F) : Nat → Str → List (Expr F) → St F → Res F (Val F)
  | 0, _, _, st => .err .timeout st
  | fuel + 1, name, args, st =>
    match evalList prog fuel args st with
    | .err o st' => .err o st'
    | .ok vs st' =>
      match callBuiltin ops ext name vs st' with
      | some r =>
        if String.ofList name = "test" then
          -- TestInfo bookkeeping
          match r with
          | .ok v st'' => .ok v { st'' with testTotal := st''.testTotal + 1 }
          | .err (.internal "ErrTest") st'' =>
            let st3 := { st'' with testTotal := st''.testTotal + 1, testFails := st''.testFails + 1 }
            if st3.failFast then .err (.internal "ErrTest") st3 else .ok .none st3
          | .err o st'' => .err o { st'' with testTotal := st''.testTotal + 1 }
        else r
      | Option.none =>
        match lookupFunc prog.funcs name with
        | Option.none => .err (.goPanic "evalFunccall: nil FuncDef") st'
        | some fd =>
          if vs.length < fd.params.length then .err (.goPanic "evalFunccall: args index out of range") st' else
          match execBlockNode prog fuel fd.body (calleeState fd vs st') with
          | .err o st4 => .err o { st4 with locals := st'.locals }
          | .ok (.ret (some v)) st4 => .ok v { st4 with locals := st'.locals }
          | .ok _ st4 => .ok .none { st4 with locals := st'.locals }

/-- Go `eval` on a BlockStatement node: one tick, then evalStatments -/
def execBlockNode (prog : Program F) : Nat → List (Stmt F) → St F → Res F (Completion F)
  | 0, _, st => .err .timeout st
  | fuel + 1, stmts, st0 =>
    match tick st0 with
    | Option.none => .err .stopped st0
    | some st => execStmts prog fuel stmts st

/-- evalStatments -/
def execStmts (prog : Program F) : Nat → List (Stmt F) → St F → Res F (Completion F)
  | 0, _, st => .err .timeout st
  | _ + 1, [], st => .ok .normal st
  | fuel + 1, s :: rest, st =>
    match execS prog fuel s st with
    | .err o st' => .err o st'
    | .ok .normal st' => execStmts prog fuel rest st'
    | .ok c st' => .ok c st'

/-- evalConditionalBlock: `(result, condition was true)` -/
def execCond (prog : Program F) : Nat → Expr F → List (Stmt F) → St F → Res F (Completion F × Bool)
  | 0, _, _, st => .err .timeout st
  | fuel + 1, cond, body, st =>
    let st1 := pushScope st
    match evalE prog fuel cond st1 with
    | .err o st' => .err o (popScope st')
    | .ok (.bool true) st' =>
      match execBlockNode prog fuel body st' with
      | .err o st'' => .err o (popScope st'')
      | .ok c st'' => .ok (c, true) (popScope st'')
    | .ok (.bool false) st' => .ok (.normal, false) (popScope st')
    | .ok _ st' => .err (.internal "ErrType: conditional not a bool") (popScope st')

/-- the else-if chain of evalIf -/
def execIfChain (prog : Program F) : Nat → List (Expr F × List (Stmt F)) → Option (List (Stmt F)) → St F → Res F (Completion F)
  | 0, _, _, st => .err .timeout st
  | fuel + 1, [], els, st =>
    match els with
    | Option.none => .ok .normal st
    | some body =>
      let st1 := pushScope st
      match execBlockNode prog fuel body st1 with
      | .err o st' => .err o (popScope st')
      | .ok c st' => .ok c (popScope st')
  | fuel + 1, (c, body) :: rest, els, st =>
    match execCond prog fuel c body st with
    | .err o st' => .err o st'
    | .ok (comp, true) st' => .ok comp st'
    | .ok (_, false) st' => execIfChain prog fuel rest els st'

/-- evalWhile -/
def execWhile (prog : Program F) : Nat → Expr F → List (Stmt F) → St F → Res F (Completion F)
  | 0, _, _, st => .err .timeout st
  | fuel + 1, cond, body, st =>
    match execCond prog fuel cond body st with
    | .err o st' => .err o st'
    | .ok (_, false) st' => .ok .normal st'
    | .ok (.brk, true) st' => .ok .normal st'
    | .ok (.ret v, true) st' => .ok (.ret v) st'
    | .ok (.normal, true) st' => execWhile prog fuel cond body st'

/-- the loop of evalFor, after the ranger has been created -/
def execForLoop (prog : Program F) : Nat → Str → Ranger F → List (Stmt F) → St F → Res F (Completion F)
  | 0, _, _, _, st => .err .timeout st
  | fuel + 1, lv, r, body, st =>
    match rangerNext ops st r with
    | Option.none => .ok .normal st
    | some (v, r') =>
      match updateVar st lv v with
      | Option.none => .err (.goPanic "scope.update: unknown loop variable") st
      | some st1 =>
        -- each iteration runs the body in a scope of its own
        match execBlockNode prog fuel body (pushScope st1) with
        | .err o st' => .err o (popScope st')
        | .ok .brk st' => .ok .normal (popScope st')
        | .ok (.ret rv) st' => .ok (.ret rv) (popScope st')
        | .ok .normal st' => execForLoop prog fuel lv r' body (popScope st')

/-- evalNum on an optional step-range operand: the default is an (evaluated) literal -/
def evalNumOr (prog : Program F) : Nat → Option (Expr F) → F → St F → Res F F
  | 0, _, _, st => .err .timeout st
  | fuel + 1, oe, dflt, st =>
    let e : Expr F := match oe with | some e => e | Option.none => .num dflt
    match evalE prog fuel e st with
    | .err o st' => .err o st'
    | .ok (.num v) st' => .ok v st'
    | .ok _ st' => .err (.internal "ErrType: expected number") st'

/-- Go `eval` on a statement node -/
def execS (prog : Program F) : Nat → Stmt F → St F → Res F (Completion F)
  | 0, _, st => .err .timeout st
  | fuel + 1, s, st0 =>
    match tick st0 with
    | Option.none => .err .stopped st0
    | some st =>
    match s with
    | .noop => .ok .normal st
    | .brk => .ok .brk st
    | .decl name value =>
      match evalE prog fuel value st with
      | .err o st' => .err o st'
      | .ok v st' => .ok .normal (setVar st' name v)
    | .callS e =>
      match e with
      | .call name args =>
        match evalCall prog fuel name args st with
        | .err o st' => .err o st'
        | .ok _ st' => .ok .normal st'
      | _ => .err (.internal "FuncCallStmt without call") st
    | .ret Option.none => .ok (.ret Option.none) st
    | .ret (some e) =>
      match evalE prog fuel e st with
      | .err o st' => .err o st'
      | .ok v st' => .ok (.ret (some v)) st'
    | .assign target value =>
      match evalE prog fuel value st with
      | .err o st' => .err o st'
      | .ok v st' =>
        match target with
        | .var n =>
          match updateVar st' n v with
          | some st'' => .ok .normal st''
          | Option.none => .err (.panic .varNotSet) st'
        | .index l i =>
          match evalE prog fuel l st' with
          | .err o st'' => .err o st''
          | .ok left st'' =>
            match evalE prog fuel i st'' with
            | .err o st3 => .err o st3
            | .ok idx st3 =>
              match left with
              | .arr a =>
                match heapGet st3 a, idx with
                | some (.arr es), .num iv =>
                  match setIndexList ops es iv v with
                  | .ok (some es') => .ok .normal (heapSet st3 a (.arr es'))
                  | .ok Option.none => .err (.goPanic "SetIndex out of range") st3
                  | .error er => .err (idxErr er) st3
                | some (.arr _), _ => .err (.goPanic "normalizeIndex: idx.(*numVal)") st3
                | _, _ => .err (.goPanic "assign index: heap") st3
              | .map a =>
                match heapGet st3 a, idx with
                | some (.map m), .str k => .ok .normal (heapSet st3 a (.map (m.setKey k v)))
                | some (.map _), _ => .err (.goPanic "index.(*stringVal)") st3
                | _, _ => .err (.goPanic "assign index: heap") st3
              | _ => .err (.internal "ErrType: assignment target") st3
        | .dot l key =>
          match evalE prog fuel l st' with
          | .err o st'' => .err o st''
          | .ok (.map a) st'' =>
            match heapGet st'' a with
            | some (.map m) => .ok .normal (heapSet st'' a (.map (m.setKey key v)))
            | _ => .err (.goPanic "assign dot: heap") st''
          | .ok _ st'' => .err (.internal "ErrType: dot target") st''
        | _ => .err (.internal "ErrAssignmentTarget") st'
    | .ifS conds els => execIfChain prog fuel conds els st
    | .whileS cond body => execWhile prog fuel cond body st
    | .forS lvOpt lvTy range body =>
      let st1 := pushScope st
      let lv : Str := match lvOpt with | some n => n | Option.none => underscore
      -- newRange
      let rr : Res F (Ranger F) :=
        match range with
        | .step start stop step =>
          match evalNumOr prog fuel start ops.zero st1 with
          | .err o s => .err o s
          | .ok a s1 =>
            match evalNumOr prog fuel (some stop) ops.zero s1 with
            | .err o s => .err o s
            | .ok b s2 =>
              match evalNumOr prog fuel step ops.one s2 with
              | .err o s => .err o s
              | .ok c s3 =>
                if ops.eq c ops.zero then .err (.panic .rangeValue) s3
                else .ok (.step a b c) (match lvOpt with | some n => setVar s3 n (.num ops.zero) | Option.none => s3)
        | .over e =>
          match evalE prog fuel e st1 with
          | .err o s => .err o s
          | .ok (.arr a) s =>
            let s' := match lvOpt with
              | some n => let (z, s2) := zeroVal ops s lvTy; setVar s2 n z
              | Option.none => s
            .ok (.arr a 0) s'
          | .ok (.str cs) s => .ok (.str cs 0) (match lvOpt with | some n => setVar s n (.str []) | Option.none => s)
          | .ok (.map a) s =>
            match heapGet s a with
            | some (.map m) => .ok (.map a m.order) (match lvOpt with | some n => setVar s n (.str []) | Option.none => s)
            | _ => .err (.goPanic "range: heap") s
          | .ok _ s => .err (.internal "ErrRangeType") s
      match rr with
      | .err o s => .err o (popScope s)
      | .ok r s =>
        match execForLoop prog fuel lv r body s with
        | .err o s' => .err o (popScope s')
        | .ok c s' => .ok c (popScope s')
end

/-- TestInfo.Report -/
def testReport (st : St F) : St F :=
  if st.noSummary || st.testTotal = 0 then st
  else
    let succ := st.testTotal - st.testFails
    let sfx (n : Nat) : Str := if n = 1 then [] else ['s']
    let num (n : Nat) : Str := (toString n).toList
    if st.testFails > 0 then
      emit st (.print (lit "❌ " ++ num st.testFails ++ lit " failed test" ++ sfx st.testFails ++ ['\n'] ++
        lit "✔️ " ++ num succ ++ lit " passed test" ++ sfx succ ++ ['\n']))
    else emit st (.print (lit "✅ " ++ num succ ++ lit " passed test" ++ sfx succ ++ ['\n']))

inductive RunResult
  | ok | testFail | err (o : Outcome)
  deriving DecidableEq, Repr

/-- the initial globals of NewEvaluator -/
def initGlobals (pi : F) : Scope F :=
  [(lit "err", .bool false), (lit "errmsg", .str []), (lit "pi", .num pi)]

/-- Evaluator.Eval: eval of the Program node, then the test report -/
def runProgram (prog : Program F) (fuel : Nat) (st0 : St F) : RunResult × St F :=
  match tick st0 with
  | Option.none => (.err .stopped, testReport st0)
  | some st =>
    match execStmts ops ext prog fuel prog.stmts st with
    | .err o st' => (.err o, testReport st')
    | .ok _ st' =>
      let st'' := testReport st'
      if st''.testFails > 0 then (.testFail, st'') else (.ok, st'')

/-- valueFromAny for the payload of an event -/
def payloadOk : Ty → Val F → Bool
  | .num, .num _ => true
  | .str, .str _ => true
  | .bool, .bool _ => true
  | _, _ => false

def bindPayload : List (Str × Ty) → List (Val F) → St F → Option (St F)
  | [], _, st => some st
  | (n, t) :: ps, v :: vs, st => if payloadOk t v then bindPayload ps vs (setVar st n v) else Option.none
  | _ :: _, [], _ => Option.none

/-- Evaluator.HandleEvent -/
def handleEvent (prog : Program F) (fuel : Nat) (name : Str) (payload : List (Val F)) (st : St F) : RunResult × St F :=
  match prog.handlers.find? (fun h => h.name == name) with
  | Option.none => (.err (.goPanic "no event handler"), st)
  | some h =>
    if payload.length < h.params.length then (.err (.goPanic "not enough arguments"), st) else
    let saved := st.locals
    let st1 := { st with locals := [[]] }
    match bindPayload h.params payload st1 with
    | Option.none => (.err (.panic .anyConversion), { st1 with locals := saved })
    | some st2 =>
      match execBlockNode ops ext prog fuel h.body st2 with
      | .err o st' => (.err o, { st' with locals := saved })
      | .ok _ st' => (.ok, { st' with locals := saved })

end EvyV
