import EvyV.Model.Num
/-
The parser's typed AST as the evaluator sees it (pkg/parser/ast.go), in the
form the harness serialises from the REAL parser output.
-/
namespace EvyV

abbrev Str := List Char

def lit (s : String) : Str := s.toList

/-- parser.Type as far as the evaluator looks at it (Name/Sub chain and the
interned untyped/generic composites; the Fixed flag is never read at run time). -/
inductive Ty
  | num | str | bool | any | none
  | arr (sub : Ty) | map (sub : Ty)
  | earr | emap | garr | gmap
  deriving DecidableEq, Repr, Inhabited

/-- Type.String() -/
def Ty.show : Ty → Str
  | .num => lit "num" | .str => lit "string" | .bool => lit "bool" | .any => lit "any" | .none => lit "none"
  | .arr t => lit "[]" ++ t.show | .map t => lit "{}" ++ t.show
  | .earr | .garr => lit "[]" | .emap | .gmap => lit "{}"

/-- the chain of type names Type.Equals walks -/
def Ty.chain : Ty → List Nat
  | .num => [0] | .str => [1] | .bool => [2] | .any => [3] | .none => [6]
  | .arr t => 4 :: t.chain | .map t => 5 :: t.chain
  | .earr => [4, 6] | .emap => [5, 6] | .garr => [4] | .gmap => [5]

/-- Type.Equals: equal in Name along the Sub chain -/
def Ty.equals (a b : Ty) : Bool := a.chain == b.chain

inductive Op
  | plus | minus | slash | asterisk | percent | or | and | eq | neq | lt | gt | lteq | gteq | bang | other
  deriving DecidableEq, Repr, Inhabited

inductive Expr (F : Type)
  | num (v : F)
  | str (s : Str)
  | bool (b : Bool)
  | var (name : Str)
  | any (t : Ty) (e : Expr F)                 -- Any node; t = static type of the wrapped expression
  | arr (elems : List (Expr F))
  | mapLit (pairs : List (Str × Expr F))      -- in MapLiteral.Order order
  | call (name : Str) (args : List (Expr F))
  | unary (op : Op) (e : Expr F)
  | binary (op : Op) (l r : Expr F)
  | index (l i : Expr F)
  | slice (l : Expr F) (s e : Option (Expr F))
  | dot (l : Expr F) (key : Str)
  | group (e : Expr F)
  | assert (t : Ty) (e : Expr F)
  deriving Inhabited

inductive ForRange (F : Type)
  | step (start : Option (Expr F)) (stop : Expr F) (step : Option (Expr F))
  | over (e : Expr F)

inductive Stmt (F : Type)
  | decl (name : Str) (value : Expr F)
  | assign (target value : Expr F)
  | callS (e : Expr F)
  | ret (v : Option (Expr F))
  | brk
  | ifS (conds : List (Expr F × List (Stmt F))) (els : Option (List (Stmt F)))
  | whileS (cond : Expr F) (body : List (Stmt F))
  | forS (loopVar : Option Str) (lvTy : Ty) (range : ForRange F) (body : List (Stmt F))
  | noop

instance {F : Type} : Inhabited (Stmt F) := ⟨.noop⟩

structure FuncDef (F : Type) where
  name : Str
  params : List Str
  variadic : Option Str
  body : List (Stmt F)

structure Handler (F : Type) where
  name : Str
  params : List (Str × Ty)
  body : List (Stmt F)

structure Program (F : Type) where
  funcs : List (FuncDef F)
  handlers : List (Handler F)
  stmts : List (Stmt F)

end EvyV
