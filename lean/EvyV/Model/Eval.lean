import EvyV.Model.Ast
import EvyV.Model.Index
import EvyV.Model.MapVal
/-
Model of the tree-walking evaluator (pkg/evaluator: evaluator.go, value.go,
scope.go, ranger.go, builtin.go glue, testinfo.go).

* Values of type num/string/bool are immutable data; arrays and maps live in a
  heap and are referred to by address (Go: pointers to arrayVal/mapVal), so
  sharing of composites is explicit.
* Every entry into Go's `eval` is a `tick` (stop check, then yield).
* Recursion is on a fuel argument with an explicit `timeout` outcome.
* Functions of Go's standard library that the builtins call are the parameter
  `ext`; a query the oracle table cannot answer is recorded in `misses`.
-/
namespace EvyV

inductive Val (F : Type)
  | num (v : F)
  | str (s : Str)
  | bool (b : Bool)
  | any (t : Ty) (v : Val F)
  | arr (a : Nat)
  | map (a : Nat)
  | none
  deriving Inhabited

inductive Obj (F : Type)
  | arr (elems : List (Val F))
  | map (m : MapVal (Val F))

/-- argument / result of an external (Go library) function -/
inductive XArg (F : Type)
  | num (v : F)
  | str (s : Str)
  | bool (b : Bool)
  | nums (l : List F)
  | strs (l : List Str)
  deriving Inhabited

structure Ext (F : Type) where
  /-- `none`: not in the oracle table -/
  call : String → List (XArg F) → Option (List (XArg F))

inductive Effect (F : Type)
  | print (s : Str)
  | read
  | cls
  | sleep (ns : Int)
  | gfx (name : String) (args : List (XArg F))

inductive PanicKind
  | indexValue | bounds | rangeValue | mapKey | slice | badArgs | badRepetition | anyConversion | varNotSet | user
  deriving DecidableEq, Repr

inductive Outcome
  | panic (k : PanicKind)
  | exit (code : Int)
  | stopped
  | internal (what : String)
  | goPanic (site : String)
  | timeout
  deriving DecidableEq, Repr

abbrev Scope (F : Type) := List (Str × Val F)

structure St (F : Type) where
  heap : Array (Obj F) := #[]
  locals : List (Scope F) := []       -- head = innermost block scope of the current function
  global : Scope F := []
  trace : List (Effect F) := []       -- platform effects, most recent first
  yields : Nat := 0
  stopAt : Option Nat := Option.none  -- the platform raises the stop flag during this yield
  stopped : Bool := false
  input : List Str := []
  testTotal : Nat := 0
  testFails : Nat := 0
  failFast : Bool := false
  noSummary : Bool := false
  misses : List (String × List (XArg F)) := []
  randLog : List (XArg F) := []       -- history of rand/rand1 calls (the oracle replays the seeded source)

inductive Res (F : Type) (α : Type)
  | ok (a : α) (st : St F)
  | err (o : Outcome) (st : St F)

inductive Completion (F : Type)
  | normal
  | brk
  | ret (v : Option (Val F))

variable {F : Type}

/-! ### state helpers -/

/-- top of `eval`: `if e.Stopped return ErrStopped; e.yield()` -/
def tick (st : St F) : Option (St F) :=
  if st.stopped then Option.none
  else
    let y := st.yields + 1
    some { st with yields := y, stopped := (st.stopAt == some y) }

def scopeGet (s : Scope F) (n : Str) : Option (Val F) := List.lookup n s

def scopeSet : Scope F → Str → Val F → Scope F
  | [], n, v => [(n, v)]
  | (k, w) :: rest, n, v => if k = n then (n, v) :: rest else (k, w) :: scopeSet rest n v

def underscore : Str := ['_']

/-- scope.get along the chain: block scopes of the current function, then globals -/
def getVar (st : St F) (n : Str) : Option (Val F) :=
  if n = underscore then Option.none
  else
    match st.locals.findSome? (fun s => scopeGet s n) with
    | some v => some v
    | Option.none => scopeGet st.global n

/-- scope.set: bind in the innermost scope -/
def setVar (st : St F) (n : Str) (v : Val F) : St F :=
  if n = underscore then st
  else match st.locals with
    | [] => { st with global := scopeSet st.global n v }
    | s :: rest => { st with locals := scopeSet s n v :: rest }

def updateLocals : List (Scope F) → Str → Val F → Option (List (Scope F))
  | [], _, _ => Option.none
  | s :: rest, n, v =>
    if (scopeGet s n).isSome then some (scopeSet s n v :: rest)
    else (updateLocals rest n v).map (fun r => s :: r)

/-- scope.update: rebind in the nearest scope that has the name; `none` is Go's
`panic(ErrAssignmentTarget…)` for an unknown variable -/
def updateVar (st : St F) (n : Str) (v : Val F) : Option (St F) :=
  if n = underscore then some st
  else match updateLocals st.locals n v with
    | some l => some { st with locals := l }
    | Option.none =>
      if (scopeGet st.global n).isSome then some { st with global := scopeSet st.global n v }
      else Option.none

def alloc (st : St F) (o : Obj F) : Nat × St F := (st.heap.size, { st with heap := st.heap.push o })
def heapGet (st : St F) (a : Nat) : Option (Obj F) := st.heap[a]?
def heapSet (st : St F) (a : Nat) (o : Obj F) : St F := { st with heap := st.heap.setIfInBounds a o }
def emit (st : St F) (e : Effect F) : St F := { st with trace := e :: st.trace }

def pushScope (st : St F) : St F := { st with locals := [] :: st.locals }
def popScope (st : St F) : St F := { st with locals := st.locals.tail }

/-- call an external function; on an oracle miss record the query, go on with `dflt` and raise the
stop flag: the run is void (the harness answers the query and runs again), so it ends at the next tick
instead of wandering down a path the real program never takes -/
def callExt (ext : Ext F) (st : St F) (f : String) (args : List (XArg F)) (dflt : List (XArg F)) :
    List (XArg F) × St F :=
  match ext.call f args with
  | some r => (r, st)
  | Option.none => (dflt, { st with misses := (f, args) :: st.misses, stopped := true })

/-! ### rendering, equality, copying (over the heap, with fuel against cyclic values) -/

def joinWith (sep : Str) : List Str → Str
  | [] => []
  | [x] => x
  | x :: rest => x ++ sep ++ joinWith sep rest

variable (ops : NumOps F)

mutual
/-- value.String() -/
def render (heap : Array (Obj F)) : Nat → Val F → Option Str
  | 0, _ => Option.none
  | _ + 1, .num v => some (ops.fmt v)
  | _ + 1, .str s => some s
  | _ + 1, .bool b => some (if b then lit "true" else lit "false")
  | _ + 1, .none => some []
  | fuel + 1, .any _ v => render heap fuel v
  | fuel + 1, .arr a =>
    match heap[a]? with
    | some (.arr elems) => (renderList heap fuel elems).map (fun l => ['['] ++ joinWith [' '] l ++ [']'])
    | _ => Option.none
  | fuel + 1, .map a =>
    match heap[a]? with
    | some (.map m) =>
      match m.entries with
      | some es => (renderEntries heap fuel es).map (fun l => ['{'] ++ joinWith [' '] l ++ ['}'])
      | Option.none => Option.none
    | _ => Option.none
def renderList (heap : Array (Obj F)) : Nat → List (Val F) → Option (List Str)
  | 0, _ => Option.none
  | _ + 1, [] => some []
  | fuel + 1, v :: rest =>
    match render heap fuel v, renderList heap fuel rest with
    | some s, some l => some (s :: l)
    | _, _ => Option.none
def renderEntries (heap : Array (Obj F)) : Nat → List (Key × Val F) → Option (List Str)
  | 0, _ => Option.none
  | _ + 1, [] => some []
  | fuel + 1, (k, v) :: rest =>
    match render heap fuel v, renderEntries heap fuel rest with
    | some s, some l => some ((k ++ [':'] ++ s) :: l)
    | _, _ => Option.none
end

inductive EqRes | yes | no | goPanic | fuel
  deriving DecidableEq

mutual
/-- the Equals methods of value.go; a kind mismatch is a Go panic there -/
def valEquals (heap : Array (Obj F)) : Nat → Val F → Val F → EqRes
  | 0, _, _ => .fuel
  | _ + 1, .num a, .num b => if ops.eq a b then .yes else .no
  | _ + 1, .str a, .str b => if a = b then .yes else .no
  | _ + 1, .bool a, .bool b => if a = b then .yes else .no
  | fuel + 1, .any t v, .any t2 v2 => if t.equals t2 then valEquals heap fuel v v2 else .no
  | _ + 1, .none, _ => .no
  | fuel + 1, .arr a, .arr b =>
    match heap[a]?, heap[b]? with
    | some (.arr xs), some (.arr ys) => if xs.length ≠ ys.length then .no else listEquals heap fuel xs ys
    | _, _ => .goPanic
  | fuel + 1, .map a, .map b =>
    match heap[a]?, heap[b]? with
    | some (.map m), some (.map m2) =>
      if m.pairs.len ≠ m2.pairs.len then .no else pairsEquals heap fuel m.pairs m2
    | _, _ => .goPanic
  | _ + 1, _, _ => .goPanic
def listEquals (heap : Array (Obj F)) : Nat → List (Val F) → List (Val F) → EqRes
  | 0, _, _ => .fuel
  | _ + 1, [], _ => .yes
  | _ + 1, _ :: _, [] => .yes
  | fuel + 1, x :: xs, y :: ys =>
    match valEquals heap fuel x y with
    | .yes => listEquals heap fuel xs ys
    | r => r
def pairsEquals (heap : Array (Obj F)) : Nat → List (Key × Val F) → MapVal (Val F) → EqRes
  | 0, _, _ => .fuel
  | _ + 1, [], _ => .yes
  | fuel + 1, (k, v) :: rest, m2 =>
    match m2.get k with
    | Option.none => .no
    | some v2 =>
      match valEquals heap fuel v v2 with
      | .yes => pairsEquals heap fuel rest m2
      | r => r
end

mutual
/-- value.go deepCopy (array repetition) -/
def deepCopy : Nat → Val F → St F → Option (Val F × St F)
  | 0, _, _ => Option.none
  | fuel + 1, .any t v, st => (deepCopy fuel v st).map (fun (w, st') => (.any t w, st'))
  | fuel + 1, .arr a, st =>
    match heapGet st a with
    | some (.arr elems) =>
      match deepCopyList fuel elems st with
      | some (es, st') => let (b, st'') := alloc st' (.arr es); some (.arr b, st'')
      | Option.none => Option.none
    | _ => Option.none
  | fuel + 1, .map a, st =>
    match heapGet st a with
    | some (.map m) =>
      match deepCopyPairs fuel m.pairs st with
      | some (ps, st') => let (b, st'') := alloc st' (.map { pairs := ps, order := m.order }); some (.map b, st'')
      | Option.none => Option.none
    | _ => Option.none
  | _ + 1, v, st => some (v, st)
def deepCopyList : Nat → List (Val F) → St F → Option (List (Val F) × St F)
  | 0, _, _ => Option.none
  | _ + 1, [], st => some ([], st)
  | fuel + 1, v :: rest, st =>
    match deepCopy fuel v st with
    | some (w, st') => (deepCopyList fuel rest st').map (fun (ws, st'') => (w :: ws, st''))
    | Option.none => Option.none
def deepCopyPairs : Nat → List (Key × Val F) → St F → Option (List (Key × Val F) × St F)
  | 0, _, _ => Option.none
  | _ + 1, [], st => some ([], st)
  | fuel + 1, (k, v) :: rest, st =>
    match deepCopy fuel v st with
    | some (w, st') => (deepCopyPairs fuel rest st').map (fun (ws, st'') => ((k, w) :: ws, st''))
    | Option.none => Option.none
end

/-- fuel for the auxiliary traversals (rendering, equality, deep copy, `same`): they are
bounded by the size of the values unless a value is cyclic (possible only through
`any`-typed containers); ten million steps is beyond every value the harness builds. -/
def auxFuel (_st : St F) : Nat := 10000000

def idxErr : IdxErr → Outcome
  | .indexValue => .panic .indexValue
  | .bounds => .panic .bounds
  | .badSlice => .panic .slice

/-- builtin.go unwrapBasicvalue: what sprintf receives -/
def unwrapBasic (st : St F) : Val F → Option (XArg F)
  | .num v => some (.num v)
  | .str s => some (.str s)
  | .bool b => some (.bool b)
  | .any _ v => unwrapBasic st v
  | v => (render ops st.heap (auxFuel st) v).map (fun s => XArg.str s)

def unwrapAll (st : St F) : List (Val F) → Option (List (XArg F))
  | [] => some []
  | v :: rest => match unwrapBasic ops st v, unwrapAll st rest with
    | some a, some l => some (a :: l)
    | _, _ => Option.none

end EvyV
