import EvyV.Model.Num
/-
Model of pkg/evaluator/value.go: normalizeIndex, normalizeSliceIndices,
arrayVal.Index / Slice, stringVal.Index / Slice (strings as code-point lists,
which is what `stringVal.runes()` gives for valid UTF-8).
-/
namespace EvyV

inductive IdxKind | index | slice
  deriving DecidableEq, Repr

/-- The run-time panics of indexing (sentinel classes of evaluator.go). -/
inductive IdxErr | indexValue | bounds | badSlice
  deriving DecidableEq, Repr

variable {F : Type} (ops : NumOps F)

/-- value.go: normalizeIndex. `length` is `len(elements)` / `len(runes)`. -/
def normalizeIndex (idx : F) (length : Nat) (kind : IdxKind) : Except IdxErr Nat :=
  let limit : Int := match kind with
    | .index => (length : Int) - 1
    | .slice => (length : Int)       -- limit++ : one past the end
  let i : Int := ops.toInt idx
  if ops.eq idx (ops.ofInt i) = false then .error .indexValue
  else if i < -(length : Int) ∨ i > limit then .error .bounds
  else if i < 0 then .ok ((length : Int) + i).toNat
  else .ok i.toNat

/-- value.go: normalizeSliceIndices; a missing bound is `none` (Go: nil). -/
def normalizeSliceIndices (start stop : Option F) (length : Nat) : Except IdxErr (Nat × Nat) :=
  let s : Except IdxErr Nat := match start with
    | none => .ok 0
    | some v => normalizeIndex ops v length .slice
  match s with
  | .error e => .error e
  | .ok startIdx =>
    let e : Except IdxErr Nat := match stop with
      | none => .ok length
      | some v => normalizeIndex ops v length .slice
    match e with
    | .error err => .error err
    | .ok endIdx =>
      if startIdx > endIdx then .error .badSlice else .ok (startIdx, endIdx)

/-- arrayVal.Index / stringVal.Index on the element (code-point) list.
The Go code then does `elements[i]`; an out-of-range `i` would be a Go panic,
modelled by `none` in the inner option. -/
def indexList {α : Type} (xs : List α) (idx : F) : Except IdxErr (Option α) :=
  match normalizeIndex ops idx xs.length .index with
  | .error e => .error e
  | .ok j => .ok xs[j]?

/-- arrayVal.Slice / stringVal.Slice: `elements[startIdx:endIdx]` copied. A Go
slice-bounds panic would be `none`. -/
def sliceList {α : Type} (xs : List α) (start stop : Option F) : Except IdxErr (Option (List α)) :=
  match normalizeSliceIndices ops start stop xs.length with
  | .error e => .error e
  | .ok (a, b) => if a ≤ b ∧ b ≤ xs.length then .ok (some ((xs.drop a).take (b - a))) else .ok none

/-- arrayVal.SetIndex. -/
def setIndexList {α : Type} (xs : List α) (idx : F) (v : α) : Except IdxErr (Option (List α)) :=
  match normalizeIndex ops idx xs.length .index with
  | .error e => .error e
  | .ok j => if j < xs.length then .ok (some (xs.set j v)) else .ok none

end EvyV
