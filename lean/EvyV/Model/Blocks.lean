/-
Model of the block structure of pkg/parser/parser.go at the level of LINES: parseProgram, parseFunc,
parseEventHandler, parseStatement (dispatch on the first token of the line), parseIfStatement (else-if chain,
else), parseWhileStatement / parseForStatement, parseBlockWithEndTokens (a block ends at `end`, an if-block also
at `else`; an empty block is an error; a blank line or a comment line is a statement), assertEnd — and of
format.go's indentation (four spaces per block level).

A line is classified by how it begins; what else is on the line (conditions, signatures, expressions) is the
business of the expression models. `return` and `break` lines are not modelled here (unreachable-code rules).
Any error makes the parser reject: the model returns `none`.
-/
namespace EvyV.Blocks

inductive L
  | s        -- a simple statement (declaration, assignment, call)
  | blank    -- an empty line or a comment line (EmptyStmt)
  | ifL | elifL | elseL
  | whileL | forL
  | funcL | onL
  | endL
  deriving DecidableEq, Repr, Inhabited

mutual
/-- statements -/
inductive T
  | simple
  | blank
  | ifT (first : B) (elifs : BL) (els : Option B)
  | whileT (body : B)
  | forT (body : B)
/-- a block: its statements -/
inductive B
  | nil
  | cons (t : T) (rest : B)
/-- the blocks of the else-if branches -/
inductive BL
  | nil
  | cons (b : B) (rest : BL)
end

inductive Top
  | func (body : B)
  | on (body : B)
  | stmt (t : T)

def B.isEmpty : B → Bool
  | .nil => true
  | .cons _ _ => false

/-! ### the parser -/

mutual
/-- parseStatement on the line `l` (already taken from the input), followed by `r` -/
def parseStmt : Nat → L → List L → Option (T × List L)
  | 0, _, _ => none
  | _ + 1, .s, r => some (.simple, r)
  | _ + 1, .blank, r => some (.blank, r)
  | f + 1, .whileL, r =>
    match parseBlock f false r with
    | some (b, .endL :: r') => if b.isEmpty then none else some (.whileT b, r')
    | _ => none
  | f + 1, .forL, r =>
    match parseBlock f false r with
    | some (b, .endL :: r') => if b.isEmpty then none else some (.forT b, r')
    | _ => none
  | f + 1, .ifL, r =>
    match parseBlock f true r with
    | some (b, r') =>
      if b.isEmpty then none else
      match parseElifs f r' with
      | some (bl, els, r'') => some (.ifT b bl els, r'')
      | none => none
    | none => none
  | _ + 1, _, _ => none     -- `end`, `else`, `func`, `on` where a statement must begin: "unexpected input"
/-- parseBlockWithEndTokens: statements up to (not including) `end`, and in an if-block also `else` / `else if` -/
def parseBlock : Nat → Bool → List L → Option (B × List L)
  | 0, _, _ => none
  | _ + 1, _, [] => some (.nil, [])
  | _ + 1, _, .endL :: r => some (.nil, .endL :: r)
  | _ + 1, inIf, .elseL :: r => if inIf then some (.nil, .elseL :: r) else none
  | _ + 1, inIf, .elifL :: r => if inIf then some (.nil, .elifL :: r) else none
  | f + 1, inIf, l :: r =>
    match parseStmt f l r with
    | some (t, r') =>
      match parseBlock f inIf r' with
      | some (b, r'') => some (.cons t b, r'')
      | none => none
    | none => none
/-- the rest of parseIfStatement after the first block: else-if branches, an else branch, `end` -/
def parseElifs : Nat → List L → Option (BL × Option B × List L)
  | 0, _ => none
  | f + 1, .elifL :: r =>
    match parseBlock f true r with
    | some (b, r') =>
      if b.isEmpty then none else
      match parseElifs f r' with
      | some (bl, els, r'') => some (.cons b bl, els, r'')
      | none => none
    | none => none
  | f + 1, .elseL :: r =>
    match parseBlock f false r with
    | some (b, .endL :: r') => if b.isEmpty then none else some (.nil, some b, r')
    | _ => none
  | _ + 1, .endL :: r => some (.nil, none, r)
  | _ + 1, _ => none
end

/-- parseProgram: functions and handlers only at top level -/
def parseTop : Nat → List L → Option (List Top)
  | 0, _ => none
  | _ + 1, [] => some []
  | f + 1, .funcL :: r =>
    match parseBlock f false r with
    | some (b, .endL :: r') => if b.isEmpty then none else (parseTop f r').map (.func b :: ·)
    | _ => none
  | f + 1, .onL :: r =>
    match parseBlock f false r with
    | some (b, .endL :: r') => if b.isEmpty then none else (parseTop f r').map (.on b :: ·)
    | _ => none
  | f + 1, l :: r =>
    match parseStmt f l r with
    | some (t, r') => (parseTop f r').map (.stmt t :: ·)
    | none => none

def parseProgram (ls : List L) : Option (List Top) := parseTop (2 * ls.length + 2) ls

/-! ### the printer: one line per statement head and per `end`, indented by block level -/

mutual
def printT : Nat → T → List (Nat × L)
  | d, .simple => [(d, .s)]
  | d, .blank => [(d, .blank)]
  | d, .whileT b => (d, .whileL) :: printB (d + 1) b ++ [(d, .endL)]
  | d, .forT b => (d, .forL) :: printB (d + 1) b ++ [(d, .endL)]
  | d, .ifT first elifs els =>
    (d, .ifL) :: printB (d + 1) first ++ printBL d elifs ++
      (match els with
       | some b => (d, .elseL) :: printB (d + 1) b
       | none => []) ++ [(d, .endL)]
def printB : Nat → B → List (Nat × L)
  | _, .nil => []
  | d, .cons t r => printT d t ++ printB d r
def printBL : Nat → BL → List (Nat × L)
  | _, .nil => []
  | d, .cons b r => (d, .elifL) :: printB (d + 1) b ++ printBL d r
end

def printTop : Top → List (Nat × L)
  | .func b => (0, .funcL) :: printB 1 b ++ [(0, .endL)]
  | .on b => (0, .onL) :: printB 1 b ++ [(0, .endL)]
  | .stmt t => printT 0 t

def printProgram (p : List Top) : List (Nat × L) := p.flatMap printTop

end EvyV.Blocks
