import EvyV.Model.Eval
/-
Model of the glue in pkg/evaluator/builtin.go: argument decoding, domain
validation, the err/errmsg protocol, test bookkeeping, platform calls. The Go
library function behind a builtin is an `ext` call.
-/
namespace EvyV

variable {F : Type} (ops : NumOps F) (ext : Ext F)

/-- the names in `newBuiltins` (compared with the regenerated Gen table by an obligation) -/
def builtinNames : List String :=
  ["read", "cls", "print", "printf", "sprint", "sprintf", "join", "split", "upper", "lower", "index",
   "startswith", "endswith", "trim", "replace", "repr", "str2num", "str2bool", "typeof", "len", "has", "del",
   "sleep", "exit", "panic", "test", "rand", "rand1", "min", "max", "abs", "floor", "ceil", "round", "pow",
   "log", "sqrt", "sin", "cos", "atan2", "move", "line", "rect", "circle", "width", "color", "colour", "hsl",
   "clear", "grid", "gridn", "poly", "ellipse", "stroke", "fill", "dash", "linecap", "text", "font"]

def isBuiltin (name : Str) : Bool := builtinNames.contains (String.ofList name)

def gp {α : Type} (site : String) (st : St F) : Res F α := .err (.goPanic site) st
def badArgs {α : Type} (st : St F) : Res F α := .err (.panic .badArgs) st

/-- join(args, sep): String() of each value -/
def joinVals (st : St F) (vals : List (Val F)) (sep : Str) : Option Str :=
  (renderList ops st.heap (auxFuel st) vals).map (joinWith sep)

/-- err / errmsg are rebound in the global scope (globalErr) -/
def setGlobalErr (st : St F) (isErr : Bool) (msg : Str) : St F :=
  { st with global := scopeSet (scopeSet st.global (lit "err") (.bool isErr)) (lit "errmsg") (.str msg) }

def xstr : List (XArg F) → Str
  | [.str s] => s
  | _ => []

/-- strconv.ParseBool -/
def parseBool (s : Str) : Option Bool :=
  let t := String.ofList s
  if t = "1" ∨ t = "t" ∨ t = "T" ∨ t = "TRUE" ∨ t = "true" ∨ t = "True" then some true
  else if t = "0" ∨ t = "f" ∨ t = "F" ∨ t = "FALSE" ∨ t = "false" ∨ t = "False" then some false
  else Option.none

mutual
/-- builtin.go `same` (test): deep, ignores static any-wrapping -/
def same (heap : Array (Obj F)) : Nat → Val F → Val F → Bool
  | 0, _, _ => false
  | fuel + 1, want, got =>
    match got with
    | .arr b =>
      match want with
      | .arr a =>
        match heap[a]?, heap[b]? with
        | some (.arr xs), some (.arr ys) =>
          if xs.length ≠ ys.length then false else sameList heap fuel xs ys
        | _, _ => false
      | _ => false
    | .map b =>
      match want with
      | .map a =>
        match heap[a]?, heap[b]? with
        | some (.map m), some (.map m2) =>
          if m.pairs.len ≠ m2.pairs.len then false else samePairs heap fuel m.pairs m2
        | _, _ => false
      | _ => false
    | .any _ gv =>
      match want with
      | .any _ wv => same heap fuel wv gv
      | w => same heap fuel w gv
    | .num g => match want with | .num w => ops.eq w g | _ => false
    | .str g => match want with | .str w => w = g | _ => false
    | .bool g => match want with | .bool w => w = g | _ => false
    | .none => false
def sameList (heap : Array (Obj F)) : Nat → List (Val F) → List (Val F) → Bool
  | 0, _, _ => false
  | _ + 1, [], _ => true
  | _ + 1, _ :: _, [] => true
  | fuel + 1, x :: xs, y :: ys => same heap fuel x y && sameList heap fuel xs ys
def samePairs (heap : Array (Obj F)) : Nat → List (Key × Val F) → MapVal (Val F) → Bool
  | 0, _, _ => false
  | _ + 1, [], _ => true
  | fuel + 1, (k, v) :: rest, m2 =>
    match m2.get k with
    | some v2 => same heap fuel v v2 && samePairs heap fuel rest m2
    -- Go: got.Pairs[key] is nil; same(v, nil) falls to `return false`
    | Option.none => false
end

/-- numbers of an argument list (the unchecked `.(*numVal)` assertions) -/
def numArgs : List (Val F) → Option (List F)
  | [] => some []
  | .num v :: rest => (numArgs rest).map (v :: ·)
  | _ => Option.none

def isPrefix : Str → Str → Bool
  | [], _ => true
  | _ :: _, [] => false
  | a :: as, b :: bs => a == b && isPrefix as bs

/-- position (in code points) of the first occurrence of `sub` in `s`, or -1 -/
def strIndex : Str → Str → Nat → Int
  | [], sub, i => if sub.isEmpty then i else -1
  | c :: rest, sub, i => if isPrefix sub (c :: rest) then i else strIndex rest sub (i + 1)

/-- `strings.Split` for a non-empty separator (genSplit): cut at the leftmost occurrence, go on behind it;
`cur` holds the characters of the current piece, last first -/
def splitSep (sep : Str) : Str → Str → List Str
  | [], cur => [cur.reverse]
  | c :: rest, cur =>
    if isPrefix sep (c :: rest) then cur.reverse :: splitSep sep (rest.drop (sep.length - 1)) []
    else splitSep sep rest (c :: cur)
termination_by s => s.length
decreasing_by all_goals (simp; try omega)

/-- `split s sep` (strings.Split): an empty separator explodes the string into its code points -/
def strSplit (s sep : Str) : List Str :=
  if sep.isEmpty then s.map (fun c => [c]) else splitSep sep s []

/-- `replace s old new` (strings.ReplaceAll): an empty `old` matches before every code point and at the end -/
def strReplace (s old new : Str) : Str :=
  if old.isEmpty then new ++ (s.map (fun c => c :: new)).flatten else joinWith new (strSplit s old)

/-- pure string/number builtins that simply forward to a library function -/
def forward (st : St F) (name : String) (xargs : List (XArg F)) (dflt : XArg F) : Res F (Val F) :=
  let (r, st') := callExt ext st name xargs [dflt]
  match r with
  | [.num v] => .ok (.num v) st'
  | [.str s] => .ok (.str s) st'
  | [.bool b] => .ok (.bool b) st'
  | _ => .err (.internal "bad oracle answer") st'

def gfxNums (st : St F) (name : String) (args : List (Val F)) : Res F (Val F) :=
  match numArgs args with
  | some ns => .ok .none (emit st (.gfx name (ns.map XArg.num)))
  | Option.none => gp ("builtin " ++ name ++ ": numVal assertion") st

def gfxStr (st : St F) (name : String) (args : List (Val F)) : Res F (Val F) :=
  match args with
  | [.str s] => .ok .none (emit st (.gfx name [.str s]))
  | _ => gp ("builtin " ++ name ++ ": stringVal assertion") st

/-- parseFontProps: validated properties in a fixed key order (the platform receives a Go map).
Each property becomes `strs [key, value]` or `strs [key]` followed by `nums [n]`. -/
def fontProps (m : MapVal (Val F)) : Except Outcome (List (XArg F)) :=
  let known : List (String × Bool) := -- name, isString
    [("family", true), ("size", false), ("weight", false), ("style", true), ("baseline", true),
     ("align", true), ("letterspacing", false)]
  let notAny := m.pairs.any (fun p => match p.2 with | .any _ _ => false | _ => true)
  let bad := m.pairs.any (fun p =>
    let key := String.ofList p.1
    match known.lookup key, p.2 with
    | Option.none, _ => true
    | some true, .any _ (.str s) =>
      let t := String.ofList s
      (key == "align" && !(t == "left" || t == "center" || t == "right")) ||
      (key == "baseline" && !(t == "top" || t == "middle" || t == "bottom" || t == "alphabetic"))
    | some false, .any _ (.num n) => (key == "size" || key == "weight") && ops.le n ops.zero
    | _, _ => true)
  if notAny then .error (.goPanic "parseFontProps: anyVal assertion")
  else if bad then .error (.panic .badArgs)
  else .ok (known.flatMap (fun (k, _) =>
    match m.pairs.get? k.toList with
    | some (.any _ (.str s)) => [XArg.strs [k.toList, s]]
    | some (.any _ (.num n)) => [XArg.strs [k.toList], XArg.nums [n]]
    | _ => []))

mutual
/-- value.Repr(): strings quoted (strconv.Quote), map keys quoted unless identifiers (lexer.IsIdent) -/
def reprVal (heap : Array (Obj F)) : Nat → Val F → Option (Str × List (String × List (XArg F)))
  | 0, _ => Option.none
  | _ + 1, .num v => some (ops.fmt v, [])
  | _ + 1, .str s =>
    match ext.call "quote" [.str s] with
    | some [.str q] => some (q, [])
    | _ => some ([], [("quote", [.str s])])
  | _ + 1, .bool b => some (if b then lit "true" else lit "false", [])
  | _ + 1, .none => some ([], [])
  | fuel + 1, .any _ v => reprVal heap fuel v
  | fuel + 1, .arr a =>
    match heap[a]? with
    | some (.arr elems) =>
      (reprList heap fuel elems).map (fun (l, ms) => (['['] ++ joinWith [' '] l ++ [']'], ms))
    | _ => Option.none
  | fuel + 1, .map a =>
    match heap[a]? with
    | some (.map m) =>
      match m.entries with
      | some es => (reprEntries heap fuel es).map (fun (l, ms) => (['{'] ++ joinWith [' '] l ++ ['}'], ms))
      | Option.none => Option.none
    | _ => Option.none
def reprList (heap : Array (Obj F)) : Nat → List (Val F) → Option (List Str × List (String × List (XArg F)))
  | 0, _ => Option.none
  | _ + 1, [] => some ([], [])
  | fuel + 1, v :: rest =>
    match reprVal heap fuel v, reprList heap fuel rest with
    | some (s, m1), some (l, m2) => some (s :: l, m1 ++ m2)
    | _, _ => Option.none
def reprEntries (heap : Array (Obj F)) : Nat → List (Key × Val F) → Option (List Str × List (String × List (XArg F)))
  | 0, _ => Option.none
  | _ + 1, [] => some ([], [])
  | fuel + 1, (k, v) :: rest =>
    let (kr, mk) : Str × List (String × List (XArg F)) :=
      match ext.call "keyrepr" [.str k] with
      | some [.str q] => (q, [])
      | _ => ([], [("keyrepr", [.str k])])
    match reprVal heap fuel v, reprEntries heap fuel rest with
    | some (s, m1), some (l, m2) => some ((kr ++ [':'] ++ s) :: l, mk ++ m1 ++ m2)
    | _, _ => Option.none
end

/-- The builtins, given evaluated (copied) arguments. `none`: not a builtin. -/
def callBuiltin (name : Str) (args : List (Val F)) (st : St F) : Option (Res F (Val F)) :=
  let nm := String.ofList name
  if !isBuiltin name then Option.none else some <|
  match nm with
  | "print" =>
    match joinVals ops st args [' '] with
    | some s => .ok .none (emit st (.print (s ++ ['\n'])))
    | Option.none => .err .timeout st
  | "sprint" =>
    match joinVals ops st args [' '] with
    | some s => .ok (.str s) st
    | Option.none => .err .timeout st
  | "printf" | "sprintf" =>
    match args with
    | [] => badArgs st
    | .any _ (.str f) :: rest =>
      match unwrapAll ops st rest with
      | some xs =>
        let (r, st') := callExt ext st "sprintf" (.str f :: xs) [.str []]
        if nm = "printf" then .ok .none (emit st' (.print (xstr r))) else .ok (.str (xstr r)) st'
      | Option.none => .err .timeout st
    | .any _ _ :: _ => badArgs st
    | _ => gp "printf: anyVal assertion" st
  | "read" =>
    match st.input with
    | l :: rest => .ok (.str l) { emit st .read with input := rest }
    | [] => .ok (.str []) (emit st .read)
  | "cls" => .ok .none (emit st .cls)
  | "join" =>
    match args with
    | [.arr a, .str sep] =>
      match heapGet st a with
      | some (.arr elems) =>
        match joinVals ops st elems sep with
        | some s => .ok (.str s) st
        | Option.none => .err .timeout st
      | _ => gp "join: heap" st
    | _ => gp "join: assertion" st
  | "split" =>
    match args with
    | [.str s, .str sep] =>
      let (a, st') := alloc st (.arr ((strSplit s sep).map Val.str)); .ok (.arr a) st'
    | _ => gp "split: assertion" st
  | "upper" | "lower" =>
    match args with
    | [.str s] => forward ext st nm [.str s] (.str [])
    | _ => gp "upper/lower: assertion" st
  | "index" =>
    match args with
    | [.str s, .str sub] => .ok (.num (ops.ofInt (strIndex s sub 0))) st
    | _ => gp "index: assertion" st
  | "startswith" =>
    match args with
    | [.str s, .str p] => .ok (.bool (isPrefix p s)) st
    | _ => gp "startswith: assertion" st
  | "endswith" =>
    match args with
    | [.str s, .str p] => .ok (.bool (isPrefix p.reverse s.reverse)) st
    | _ => gp "endswith: assertion" st
  | "trim" =>
    match args with
    | [.str s, .str c] => forward ext st nm [.str s, .str c] (.str [])
    | _ => gp "trim: assertion" st
  | "replace" =>
    match args with
    | [.str s, .str o, .str n] => .ok (.str (strReplace s o n)) st
    | _ => gp "replace: assertion" st
  | "repr" =>
    match reprList ops ext st.heap (auxFuel st) args with
    | some (l, ms) => .ok (.str (joinWith [' '] l)) { st with misses := ms ++ st.misses }
    | Option.none => .err .timeout st
  | "str2num" =>
    match args with
    | [.str s] =>
      let (r, st') := callExt ext st "parsefloat" [.str s] [.num ops.zero, .bool true]
      match r with
      | [.num n, .bool true] => .ok (.num n) (setGlobalErr st' false [])
      | [.num n, .bool false] =>
        let (q, st'') := callExt ext st' "quote" [.str s] [.str []]
        .ok (.num n) (setGlobalErr st'' true (lit "str2num: cannot parse " ++ xstr q))
      | _ => .err (.internal "bad oracle answer") st'
    | _ => gp "str2num: assertion" st
  | "str2bool" =>
    match args with
    | [.str s] =>
      match parseBool s with
      | some b => .ok (.bool b) (setGlobalErr st false [])
      | Option.none =>
        let (q, st') := callExt ext st "quote" [.str s] [.str []]
        .ok (.bool false) (setGlobalErr st' true (lit "str2bool: cannot parse " ++ xstr q))
    | _ => gp "str2bool: assertion" st
  | "typeof" =>
    match args with
    | [.any t _] => .ok (.str t.show) st
    | _ => gp "typeof: anyVal assertion" st
  | "len" =>
    match args with
    | [.any _ (.str s)] => .ok (.num (ops.ofInt s.length)) st
    | [.any _ (.arr a)] =>
      match heapGet st a with
      | some (.arr elems) => .ok (.num (ops.ofInt elems.length)) st
      | _ => gp "len: heap" st
    | [.any _ (.map a)] =>
      match heapGet st a with
      | some (.map m) => .ok (.num (ops.ofInt m.len)) st
      | _ => gp "len: heap" st
    | [.any _ _] => badArgs st
    | _ => gp "len: anyVal assertion" st
  | "has" =>
    match args with
    | [.map a, .str k] =>
      match heapGet st a with
      | some (.map m) => .ok (.bool (m.has k)) st
      | _ => gp "has: heap" st
    | _ => gp "has: assertion" st
  | "del" =>
    match args with
    | [.map a, .str k] =>
      match heapGet st a with
      | some (.map m) => .ok .none (heapSet st a (.map (m.delete k)))
      | _ => gp "del: heap" st
    | _ => gp "del: assertion" st
  | "sleep" =>
    match args with
    | [.num s] => .ok .none (emit st (.sleep (ops.toInt (ops.mul s (ops.ofInt 1000000000)))))
    | _ => gp "sleep: assertion" st
  | "exit" =>
    match args with
    | [.num n] => .err (.exit (ops.toInt n)) st
    | _ => gp "exit: assertion" st
  | "panic" =>
    match args with
    | [.str _] => .err (.panic .user) st
    | _ => gp "panic: assertion" st
  | "test" =>
    -- validateTestArgs, then the comparison; bookkeeping (total, errors, fail-fast) is in evalFunccall
    match args with
    | [] => badArgs st
    | [.any _ (.bool b)] => if b then .ok .none st else .err (.internal "ErrTest") st
    | [.any _ _] => badArgs st
    | [_] => gp "test: anyVal assertion" st
    | want :: got :: rest =>
      let third : Option Bool := match rest with
        | [] => some true
        | .any _ (.str _) :: _ => some true
        | .any _ _ :: _ => some false
        | _ => Option.none
      match third with
      | Option.none => gp "test: anyVal assertion" st
      | some false => badArgs st
      | some true =>
        if same ops st.heap (auxFuel st) want got then .ok .none st
        else .err (.internal "ErrTest") st
  | "rand" =>
    match args with
    | [.num u] =>
      if !(ops.le ops.one u && ops.le u (ops.ofInt 2147483647)) then badArgs st
      else
        let q := st.randLog ++ [.num u]
        let (r, st') := callExt ext { st with randLog := q } "rand" q [.num ops.zero]
        match r with
        | [.num v] => .ok (.num v) st'
        | _ => .err (.internal "bad oracle answer") st'
    | _ => gp "rand: assertion" st
  | "rand1" =>
    let q := st.randLog ++ [.bool true]
    let (r, st') := callExt ext { st with randLog := q } "rand" q [.num ops.zero]
    match r with
    | [.num v] => .ok (.num v) st'
    | _ => .err (.internal "bad oracle answer") st'
  | "abs" | "floor" | "ceil" | "round" | "log" | "sqrt" | "sin" | "cos" =>
    match args with
    | [.num x] => forward ext st ("math." ++ nm) [.num x] (.num ops.zero)
    | _ => gp "math: assertion" st
  | "min" | "max" | "pow" | "atan2" =>
    match args with
    | [.num x, .num y] => forward ext st ("math." ++ nm) [.num x, .num y] (.num ops.zero)
    | _ => gp "math: assertion" st
  | "move" | "line" | "rect" =>
    match args with
    | [.num _, .num _] => gfxNums st nm args
    | _ => gp "xy builtin: assertion" st
  | "circle" | "width" =>
    match args with
    | [.num _] => gfxNums st nm args
    | _ => gp "num builtin: assertion" st
  | "color" | "colour" => gfxStr st "color" args
  | "stroke" | "fill" | "linecap" | "text" => gfxStr st nm args
  | "hsl" =>
    match numArgs args with
    | Option.none => gp "hsl: assertion" st
    | some ns =>
      if ns.length < 1 || ns.length > 4 then badArgs st
      else
        let inR (v : F) (hi : Int) : Bool := !(ops.lt v ops.zero) && !(ops.lt (ops.ofInt hi) v)
        let his : List Int := [360, 100, 100, 100]
        if (ns.zip his).all (fun (v, hi) => inR v hi) then
          let full := ns ++ ([ops.ofInt 100, ops.ofInt 50, ops.ofInt 100].drop (ns.length - 1))
          forward ext st "hslfmt" (full.map XArg.num) (.str [])
        else badArgs st
  | "clear" =>
    match args with
    | [] => .ok .none (emit st (.gfx "clear" [.str []]))
    | [.str c] => .ok .none (emit st (.gfx "clear" [.str c]))
    | [_] => gp "clear: assertion" st
    | _ => badArgs st
  | "grid" => .ok .none (emit st (.gfx "gridn" [.num (ops.ofInt 10), .str (lit "hsl(0deg 100% 0% / 50%)")]))
  | "gridn" =>
    match args with
    | [.num u, .str c] =>
      if !(ops.lt ops.zero u) then badArgs st     -- builtin.go gridnFunc: `!(unit.V > 0)`
      else .ok .none (emit st (.gfx "gridn" [.num u, .str c]))
    | _ => gp "gridn: assertion" st
  | "poly" =>
    let rec verts (vs : List (Val F)) : Except Outcome (List F) :=
      match vs with
      | [] => .ok []
      | .arr a :: rest =>
        match heapGet st a with
        | some (.arr [.num x, .num y]) => (verts rest).map (fun l => x :: y :: l)
        | some (.arr es) => if es.length ≠ 2 then .error (.panic .badArgs) else .error (.goPanic "poly: numVal assertion")
        | _ => .error (.goPanic "poly: heap")
      | _ => .error (.goPanic "poly: arrayVal assertion")
    match verts args with
    | .ok l => .ok .none (emit st (.gfx "poly" [.nums l]))
    | .error o => .err o st
  | "ellipse" =>
    match numArgs args with
    | Option.none => gp "ellipse: assertion" st
    | some ns =>
      let n := ns.length
      if n < 3 || n == 6 || n > 7 then badArgs st
      else
        match ns with
        | x :: y :: rx :: rest =>
          let ry := match rest with | r :: _ => r | [] => rx
          let rot := match rest with | _ :: r :: _ => r | _ => ops.zero
          let (sa, ea) := match rest with | [_, _, s, e] => (s, e) | _ => (ops.zero, ops.ofInt 360)
          .ok .none (emit st (.gfx "ellipse" ([x, y, rx, ry, rot, sa, ea].map XArg.num)))
        | _ => badArgs st
  | "dash" =>
    match numArgs args with
    | some ns => .ok .none (emit st (.gfx "dash" [.nums ns]))
    | Option.none => gp "dash: assertion" st
  | "font" =>
    match args with
    | [.map a] =>
      match heapGet st a with
      | some (.map m) =>
        match fontProps ops m with
        | .ok props => .ok .none (emit st (.gfx "font" props))
        | .error o => .err o st
      | _ => gp "font: heap" st
    | _ => gp "font: assertion" st
  | _ => .err (.internal "unmodelled builtin") st

end EvyV
