import EvyV.Model.ExprVM
/-
Model of the statement fragment of pkg/bytecode/compiler.go and vm.go that works on global
variables of type num and bool: assignment (compileAssignment / OpSetGlobal), if / else-if / else
(compileIfStatement, compileConditionalBlock: OpJumpOnFalse over each block, OpJump to the end of
the whole statement), while (compileWhileStatement: condition, OpJumpOnFalse to the end, body,
OpJump back to the condition) and break (compileBreakStatement: OpJump to the end of the innermost
loop, patched by the loop) — and of the tree-walking evaluator's meaning of the same statements.
Addresses are instruction indices (the harness converts the byte offsets of the real code).
-/
namespace EvyV.StmtVM
open EvyV EvyV.ExprVM

inductive S (F : Type)
  | assign (i : Nat) (e : E F)                                   -- global slot i = e
  | ifS (conds : List (E F × List (S F))) (els : List (S F))     -- no else = empty else
  | whileS (c : E F) (body : List (S F))
  | brk

/-- instructions: those of the expression fragment, OpSetGlobal, OpJump, OpJumpOnFalse -/
inductive J (F : Type)
  | op (i : I F)
  | setGlobal (i : Nat)
  | jump (t : Nat)
  | jof (t : Nat)

variable {F : Type}

def ce (e : E F) : List (J F) := (compileE e).map J.op

mutual
/-- number of instructions of a statement -/
def sizeS : S F → Nat
  | .assign _ e => (ce e).length + 1
  | .ifS conds els => sizeC conds + sizeB els
  | .whileS c body => (ce c).length + 1 + sizeB body + 1
  | .brk => 1
def sizeB : List (S F) → Nat
  | [] => 0
  | s :: r => sizeS s + sizeB r
def sizeC : List (E F × List (S F)) → Nat
  | [] => 0
  | (c, b) :: r => (ce c).length + 1 + sizeB b + 1 + sizeC r
end

mutual
/-- the code of a statement placed at address `base`; `brkT` is where a `break` jumps -/
def compS (brkT : Nat) : Nat → S F → List (J F)
  | _, .assign i e => ce e ++ [.setGlobal i]
  | _, .brk => [.jump brkT]
  | base, .whileS c body =>
    let bodyBase := base + (ce c).length + 1
    let endA := bodyBase + sizeB body + 1
    ce c ++ [.jof endA] ++ compB endA bodyBase body ++ [.jump base]
  | base, .ifS conds els =>
    let endA := base + sizeC conds + sizeB els
    compC brkT endA base conds ++ compB brkT (base + sizeC conds) els
def compB (brkT : Nat) : Nat → List (S F) → List (J F)
  | _, [] => []
  | base, s :: r => compS brkT base s ++ compB brkT (base + sizeS s) r
def compC (brkT endA : Nat) : Nat → List (E F × List (S F)) → List (J F)
  | _, [] => []
  | base, (c, b) :: r =>
    let blockBase := base + (ce c).length + 1
    let next := blockBase + sizeB b + 1
    ce c ++ [.jof next] ++ compB brkT blockBase b ++ [.jump endA] ++ compC brkT endA next r
end

/-- a whole program: its statements from address 0 (a `break` outside a loop is rejected by the parser) -/
def compile (prog : List (S F)) : List (J F) := compB 0 0 prog

variable (ops : NumOps F)

/-! ### the VM -/

structure VMState (F : Type) where
  pc : Nat
  stack : List (V F)
  globals : List (V F)

/-- vm.go Run: one instruction -/
def step (code : List (J F)) (s : VMState F) : Except VMErr (VMState F) :=
  match code[s.pc]? with
  | none => .ok s
  | some (.op i) =>
    match vmStep ops s.globals s.stack i with
    | .ok st' => .ok { s with pc := s.pc + 1, stack := st' }
    | .error e => .error e
  | some (.setGlobal i) =>
    match s.stack with
    | v :: rest => if i < s.globals.length then .ok { pc := s.pc + 1, stack := rest, globals := s.globals.set i v } else .error .typeOrUnderflow
    | [] => .error .typeOrUnderflow
  | some (.jump t) => .ok { s with pc := t }
  | some (.jof t) =>
    match s.stack with
    | .bool b :: rest => .ok { s with pc := (if b then s.pc + 1 else t), stack := rest }
    | _ => .error .typeOrUnderflow

inductive RunResult (F : Type)
  | halted (globals : List (V F))
  | error (e : VMErr)
  | outOfFuel

/-- run until the program counter leaves the code -/
def run (code : List (J F)) : Nat → VMState F → RunResult F
  | 0, _ => .outOfFuel
  | n + 1, s =>
    if s.pc ≥ code.length then .halted s.globals
    else match step ops code s with
      | .ok s' => run code n s'
      | .error e => .error e

/-! ### the evaluator on the same statements -/

inductive Compl | normal | brk
  deriving DecidableEq

mutual
def execS : Nat → List (V F) → S F → Option (Compl × List (V F))
  | 0, _, _ => none
  | _ + 1, g, .assign i e =>
    match evalE ops g e with
    | some v => if i < g.length then some (.normal, g.set i v) else none
    | none => none
  | _ + 1, g, .brk => some (.brk, g)
  | n + 1, g, .ifS conds els => execC n g conds els
  | n + 1, g, .whileS c body =>
    match evalE ops g c with
    | some (.bool true) =>
      match execB n g body with
      | some (.normal, g') => execS n g' (.whileS c body)
      | some (.brk, g') => some (.normal, g')
      | none => none
    | some (.bool false) => some (.normal, g)
    | _ => none
def execB : Nat → List (V F) → List (S F) → Option (Compl × List (V F))
  | 0, _, _ => none
  | _ + 1, g, [] => some (.normal, g)
  | n + 1, g, s :: r =>
    match execS n g s with
    | some (.normal, g') => execB n g' r
    | x => x
def execC : Nat → List (V F) → List (E F × List (S F)) → List (S F) → Option (Compl × List (V F))
  | 0, _, _, _ => none
  | n + 1, g, [], els => execB n g els
  | n + 1, g, (c, b) :: r, els =>
    match evalE ops g c with
    | some (.bool true) => execB n g b
    | some (.bool false) => execC n g r els
    | _ => none
end

end EvyV.StmtVM
