/-
Model of the variable bookkeeping of the parser: pkg/parser/scope.go (a chain of scopes, each a map from names
to variables) and, in pkg/parser/parser.go and expression.go, the places that read and write it —
lookupVar / parseAssignmentTarget (a name is looked up through the chain, innermost scope first, and the variable
found gets its use mark), validateVarDecl + scope.set (a declaration is refused when the name is already in the
CURRENT scope), pushScopeWithNode / popScope around the branches of an if statement, a while statement, a for
statement, a function and an event handler, and validateScope at the end of every block and of the program
("declared but not used" for every variable of the scope that is left without its use mark).

Only names are modelled: a statement is the list of names it mentions.  Types, the names of functions and of the
built-in variables `err` / `errmsg`, and the anonymous variable `_` are outside this model (the harness generates
none of them).  Any error makes the parser reject: the model returns `none`.

  use us             any simple statement that is not a declaration: `print a b`, `a = b + 1`, `f a` — reads and
                     assignment targets alike are looked up and marked
  decl x us          `x := e` (the names of e are looked up first, then x is declared); `x:num` has us = []
  scope ds hd body   a new scope with the names ds declared in it at once (loop variable; parameters), then the
                     names hd of the header looked up (condition; range), then the body, then the scope is checked
                     and left: one if / else-if / else branch, while (ds = []), for (ds = the loop variable), func and
                     on (ds = the parameters, hd = []).
                     The loop variable is in scope while the range is read but has no type yet, so a range that
                     mentions it is rejected (a type error): hd must not mention ds.
-/
namespace EvyV.Scope

mutual
inductive St
  | use (us : List Nat)
  | decl (x : Nat) (us : List Nat)
  | scope (ds : List Nat) (hd : List Nat) (body : Ss)
inductive Ss
  | nil
  | cons (s : St) (rest : Ss)
end

/-- a variable of a scope: its name and its use mark (ast.go Var.isUsed) -/
structure V where
  n : Nat
  u : Bool
  deriving DecidableEq, Repr

/-- scope.vars; newest first -/
abbrev Sc := List V
/-- the chain scope → outer → …, innermost first -/
abbrev Stk := List Sc

/-- scope.inLocalScope -/
def hasName (x : Nat) (s : Sc) : Bool := s.any (fun v => v.n == x)

/-- `v.isUsed = true` for the variable named x of this scope -/
def markSc (x : Nat) : Sc → Sc
  | [] => []
  | v :: r => if v.n = x then { v with u := true } :: r else v :: markSc x r

/-- scope.get through the chain, then the use mark; `none`: unknown variable name -/
def mark (x : Nat) : Stk → Option Stk
  | [] => none
  | s :: r => if hasName x s then some (markSc x s :: r) else (mark x r).map (s :: ·)

def marks : List Nat → Stk → Option Stk
  | [], k => some k
  | x :: xs, k => (mark x k).bind (marks xs)

/-- validateVarDecl (the current scope only) + scope.set; `none`: redeclaration -/
def declare (x : Nat) : Stk → Option Stk
  | [] => none
  | s :: r => if hasName x s then none else some (({ n := x, u := false } :: s) :: r)

def declares : List Nat → Stk → Option Stk
  | [], k => some k
  | x :: xs, k => (declare x k).bind (declares xs)

/-- validateScope + popScope; `none`: a variable of the scope is declared but not used -/
def pop : Stk → Option Stk
  | [] => none
  | s :: r => if s.all (fun v => v.u) then some r else none

/-- hd must not mention ds (see above) -/
def disjoint (hd ds : List Nat) : Bool := hd.all (fun u => !ds.contains u)

mutual
def chkS : St → Stk → Option Stk
  | .use us, k => marks us k
  | .decl x us, k => (marks us k).bind (declare x)
  | .scope ds hd body, k =>
    if disjoint hd ds then
      (declares ds ([] :: k)).bind fun k1 => (marks hd k1).bind fun k2 => (chkL body k2).bind pop
    else none
def chkL : Ss → Stk → Option Stk
  | .nil, k => some k
  | .cons s rest, k => (chkS s k).bind (chkL rest)
end

/-- parseProgram: the global scope, every top-level item in source order, validateScope at the end -/
def chkProg (p : Ss) : Bool := ((chkL p [[]]).bind pop).isSome

end EvyV.Scope
