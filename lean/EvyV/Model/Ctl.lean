/-
Model of where `break` and `return` may stand: parser.go parseBreakStatement (inLoop: some scope of the whole chain
belongs to a while or for statement) and parseReturnStatement (scope.returnType, which every new scope inherits from
the enclosing one — scope.go newScope — and which a function sets to its result type, a handler to "no value"; at
top level there is none).  A statement is `simple`, `brk`, `ret value?` (with or without a value, of the right type)
or a scope: a branch of an if statement, a loop, a function with (`func true`) or without a result type, an event
handler.  `prog` is the scope of the program.
-/
namespace EvyV.Ctl

inductive K
  | prog | branch | loop | func (typed : Bool) | handler
  deriving DecidableEq, Repr

mutual
inductive St
  | simple
  | brk
  | ret (value : Bool)
  | scope (k : K) (body : Ss)
inductive Ss
  | nil
  | cons (s : St) (rest : Ss)
end

/-- a scope of the chain: the node that opened it and scope.returnType (none: no function around; some false: no
value may be returned; some true: a value must be) -/
structure Sc where
  kind : K
  ret : Option Bool
  deriving Repr

/-- newScope / newScopeWithReturnType -/
def push (k : K) (stk : List Sc) : List Sc :=
  match k with
  | .func t => { kind := k, ret := some t } :: stk
  | .handler => { kind := k, ret := some false } :: stk
  | _ => { kind := k, ret := match stk with | [] => none | s :: _ => s.ret } :: stk

/-- parser.go inLoop: the whole chain is walked -/
def inLoop : List Sc → Bool
  | [] => false
  | s :: r => (s.kind == K.loop) || inLoop r

def retOK (v : Bool) : List Sc → Bool
  | [] => false
  | s :: _ => match s.ret with
    | none => false          -- "return statement not allowed here"
    | some t => t == v       -- "expected return value" / "expected no return value"

mutual
def chkS : St → List Sc → Bool
  | .simple, _ => true
  | .brk, k => inLoop k
  | .ret v, k => retOK v k
  | .scope kd body, k => chkL body (push kd k)
def chkL : Ss → List Sc → Bool
  | .nil, _ => true
  | .cons s rest, k => chkS s k && chkL rest k
end

def chkProg (p : Ss) : Bool := chkL p [{ kind := .prog, ret := none }]

end EvyV.Ctl
