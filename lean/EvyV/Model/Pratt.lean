/-
Model of the Pratt expression parser of pkg/parser/expression.go (parseExpr, parseUnaryExpr,
parseBinaryExpr, parseGroupedExpr, parseIndexOrSliceExpr, parseSlice, parseDotExpr, parseTypeAssertion) on the token KINDS of an
expression outside a whitespace-sensitive context: operands are atoms, types are not modelled.
The binding powers are those of the extracted table (Props/C01Pratt.lean proves the agreement with
Gen/Tables.lean on every run).
-/
namespace EvyV.Pratt

inductive BinOp
  | or | and | eq | neq | lt | gt | le | ge | plus | minus | star | slash | percent
  deriving DecidableEq, Repr, Inhabited

/-- expression.go `precedences` -/
def BinOp.prec : BinOp → Nat
  | .or => 1
  | .and => 2
  | .eq | .neq => 3
  | .lt | .gt | .le | .ge => 4
  | .plus | .minus => 5
  | .star | .slash | .percent => 6

/-- lexer token type name of the operator -/
def BinOp.tokName : BinOp → String
  | .or => "OR" | .and => "AND" | .eq => "EQ" | .neq => "NOT_EQ" | .lt => "LT" | .gt => "GT"
  | .le => "LTEQ" | .ge => "GTEQ" | .plus => "PLUS" | .minus => "MINUS" | .star => "ASTERISK"
  | .slash => "SLASH" | .percent => "PERCENT"

def BinOp.all : List BinOp := [.or, .and, .eq, .neq, .lt, .gt, .le, .ge, .plus, .minus, .star, .slash, .percent]

inductive UnOp
  | neg | not
  deriving DecidableEq, Repr, Inhabited

/-- `unaryPrec`, `indexPrec` -/
def unaryPrec : Nat := 7
def indexPrec : Nat := 8

inductive Tok
  | atom (n : Nat)      -- identifier or literal
  | op (o : BinOp)      -- MINUS is `op .minus` in both positions
  | bang
  | lparen | rparen
  | lbracket | rbracket
  | dot                 -- field access `.key` and type assertion `.(type)`
  | colon               -- inside a slice
  | ty (n : Nat)        -- a type, in a type assertion (one token here; the harness collapses `[]num` …)
  | other               -- anything else (end of the expression)
  deriving DecidableEq, Repr, Inhabited

inductive E
  | atom (n : Nat)
  | un (u : UnOp) (e : E)
  | bin (o : BinOp) (l r : E)
  | group (e : E)
  | index (l i : E)
  | sliceAll (l : E)                 -- l[:]
  | sliceTo (l b : E)                -- l[:b]
  | sliceFrom (l a : E)              -- l[a:]
  | slice (l a b : E)                -- l[a:b]
  | dot (l : E) (key : Nat)          -- l.key
  | assert (l : E) (t : Nat)         -- l.(type)
  deriving DecidableEq, Repr, Inhabited

/-- `precedences[tok]`: 0 for a token that is not in the table -/
def Tok.prec : Tok → Nat
  | .op o => o.prec
  | .lbracket => indexPrec
  | .dot => indexPrec
  | _ => 0

/-- after `left[`: parseIndexOrSliceExpr and parseSlice. `pe` parses an expression at binding power 0,
`lp` continues the loop with the new left operand -/
def bracket (pe : List Tok → Option (E × List Tok)) (lp : E → List Tok → Option (E × List Tok)) (left : E) (r : List Tok) :
    Option (E × List Tok) :=
  match r with
  | .colon :: .rbracket :: r2 => lp (.sliceAll left) r2            -- l[:]
  | .colon :: r1 =>
    match pe r1 with
    | some (b, .rbracket :: r2) => lp (.sliceTo left b) r2         -- l[:b]
    | _ => none
  | _ =>
    match pe r with
    | some (i, .rbracket :: r') => lp (.index left i) r'           -- l[i]
    | some (a, .colon :: .rbracket :: r') => lp (.sliceFrom left a) r'   -- l[a:]
    | some (a, .colon :: r1) =>
      match pe r1 with
      | some (b, .rbracket :: r2) => lp (.slice left a b) r2       -- l[a:b]
      | _ => none
    | _ => none

/-- after `left.`: parseTypeAssertion and parseDotExpr -/
def dotted (lp : E → List Tok → Option (E × List Tok)) (left : E) (r : List Tok) : Option (E × List Tok) :=
  match r with
  | .lparen :: .ty t :: .rparen :: r' => lp (.assert left t) r'
  | .atom k :: r' => lp (.dot left k) r'
  | _ => none

mutual
/-- parseExpr(prec): the prefix part, then the loop -/
def parseExpr : Nat → Nat → List Tok → Option (E × List Tok)
  | 0, _, _ => none
  | f + 1, p, ts =>
    match ts with
    | .atom n :: r => loop f p (.atom n) r
    | .bang :: r =>
      match parseExpr f unaryPrec r with
      | some (e, r') => loop f p (.un .not e) r'
      | none => none
    | .op .minus :: r =>
      match parseExpr f unaryPrec r with
      | some (e, r') => loop f p (.un .neg e) r'
      | none => none
    | .lparen :: r =>
      match parseExpr f 0 r with
      | some (e, .rparen :: r') => loop f p (.group e) r'
      | _ => none
    | _ => none
/-- `for left != nil && !isAtExprEnd() && prec < precedences[cur.Type]` -/
def loop : Nat → Nat → E → List Tok → Option (E × List Tok)
  | 0, _, _, _ => none
  | f + 1, p, left, ts =>
    match ts with
    | .op o :: r =>
      if p < o.prec then
        match parseExpr f o.prec r with
        | some (right, r') => loop f p (.bin o left right) r'
        | none => none
      else some (left, ts)
    | .lbracket :: r => if p < indexPrec then bracket (parseExpr f 0) (loop f p) left r else some (left, ts)
    | .dot :: r => if p < indexPrec then dotted (loop f p) left r else some (left, ts)
    | _ => some (left, ts)
end

/-- the token kinds of a tree, as the formatter would write them -/
def toks : E → List Tok
  | .atom n => [.atom n]
  | .un .neg e => .op .minus :: toks e
  | .un .not e => .bang :: toks e
  | .bin o l r => toks l ++ .op o :: toks r
  | .group e => .lparen :: toks e ++ [.rparen]
  | .index l i => toks l ++ .lbracket :: toks i ++ [.rbracket]
  | .sliceAll l => toks l ++ [.lbracket, .colon, .rbracket]
  | .sliceTo l b => toks l ++ .lbracket :: .colon :: toks b ++ [.rbracket]
  | .sliceFrom l a => toks l ++ .lbracket :: toks a ++ [.colon, .rbracket]
  | .slice l a b => toks l ++ .lbracket :: toks a ++ .colon :: toks b ++ [.rbracket]
  | .dot l k => toks l ++ [.dot, .atom k]
  | .assert l t => toks l ++ [.dot, .lparen, .ty t, .rparen]

/-- the whole parse of an expression text: enough fuel for its length -/
def parse (ts : List Tok) : Option (E × List Tok) := parseExpr (2 * ts.length + 2) 0 ts

end EvyV.Pratt
