/-
Model of the file-system protocol of `evy fmt -w` (main.go fmtEvyFile /
writeAtomically): a directory with the target file and at most one temporary
file, the sequence of calls EXTRACTED from the source (Gen.Shapes), and an
adversary that makes one call fail, makes a write short, or kills the process
before or in the middle of a call.  File contents are abstracted to what the
property distinguishes: the original text, the formatted text, anything else.
-/
namespace EvyV.FsProto

inductive Content | orig | formatted | damaged | empty
  deriving DecidableEq, Repr
inductive Mode | orig | temp600
  deriving DecidableEq, Repr

structure File where
  content : Content
  mode : Mode
  deriving DecidableEq, Repr

inductive Exit | running | status (n : Nat) | killed
  deriving DecidableEq, Repr

structure FsState where
  target : File := ⟨.orig, .orig⟩
  temp : Option File := none
  statMode : Option Mode := none
  exit : Exit := .running
  deriving DecidableEq, Repr

inductive Adversary
  | none
  | fail (i : Nat)      -- call i returns an error and has no effect
  | short (i : Nat)     -- call i is a write that stores part of the data, then fails
  | kill (i : Nat)      -- the process is killed before call i
  | killMid (i : Nat)   -- the process is killed in the middle of call i
  deriving DecidableEq, Repr

inductive How | ok | fails | partly
  deriving DecidableEq

/-- effect of one call; returns the new state and whether the call reported an error -/
def applyOp (op : String) (how : How) (st : FsState) : FsState × Bool :=
  match how with
  | .fails => (st, true)
  | _ =>
  let err := how == .partly
  match op with
  | "stat" => ({ st with statMode := some st.target.mode }, false)
  | "createTemp" => ({ st with temp := some ⟨.empty, .temp600⟩ }, false)
  | "chmod" =>
    match st.temp, st.statMode with
    | some t, some m => ({ st with temp := some { t with mode := m } }, false)
    | _, _ => (st, true)
  | "write" =>
    match st.temp with
    | some t => ({ st with temp := some { t with content := if err then .damaged else .formatted } }, err)
    | none => (st, true)
  | "close" => (st, false)
  | "sync" => (st, false)
  | "rename" =>
    match st.temp with
    | some t => ({ st with target := t, temp := none }, false)
    | none => (st, true)
  | "remove" => ({ st with temp := none }, false)
  | "writeTarget" => ({ st with target := { st.target with content := if err then .damaged else .formatted } }, err)
  | "openTarget" => ({ st with target := { st.target with content := .empty } }, false)
  | "truncate" => ({ st with target := { st.target with content := .empty } }, false)
  | _ => ({ st with target := { st.target with content := .damaged } }, false)  -- unknown call: assume the worst

def howFor (adv : Adversary) (i : Nat) : How :=
  match adv with
  | .fail j => if i = j then .fails else .ok
  | .short j => if i = j then .partly else .ok
  | .killMid j => if i = j then .partly else .ok
  | _ => .ok

/-- run the extracted call list under an adversary -/
def run : List (String × String) → Nat → Adversary → FsState → FsState
  | [], _, _, st => { st with exit := .status 0 }
  | (op, chk) :: rest, i, adv, st =>
    if adv = .kill i then { st with exit := .killed }
    else
      let (st', err) := applyOp op (howFor adv i) st
      if adv = .killMid i then { st' with exit := .killed }
      else if err && chk == "checked" then { st' with exit := .status 1 }
      else run rest (i + 1) adv st'

def adversaries (n : Nat) : List Adversary :=
  .none :: (List.range n).flatMap (fun i => [.fail i, .short i, .kill i, .killMid i])

/-- what the property demands of the final state -/
def safe (st : FsState) : Bool :=
  (st.target.content == .orig || st.target.content == .formatted) &&
  st.target.mode == .orig &&
  (st.exit != .status 0 || st.target.content == .formatted)

end EvyV.FsProto
