import EvyV.Model.Pratt
/-
The Pratt parser model with whitespace: every token carries the flag "whitespace before it", and the
parser runs in one of two modes, as pkg/parser does (wssStack): outside whitespace-sensitive contexts
the flags do not influence the reading (advance() skips WS tokens) but some placements are errors —
after a unary operator (parseUnaryExpr), before `[` (parseIndexOrSliceExpr), before and after `.`
(parseDotExpr, parseTypeAssertion); in a whitespace-sensitive context (arguments of a call, elements of
an array literal: parseExprWSS) whitespace ends the expression (isAtExprEnd), and whitespace after a
binary operator is an error (the operand parse meets the WS token). Inside parentheses, brackets and
`.( )` the mode is off again (pushWSS(false)).
-/
namespace EvyV.Pratt

structure WTok where
  ws : Bool      -- whitespace before this token
  tok : Tok
  deriving DecidableEq, Repr, Inhabited

def headWs : List WTok → Bool
  | [] => false
  | t :: _ => t.ws

/-- the token kinds without the flags -/
def er (ts : List WTok) : List Tok := ts.map WTok.tok

/-- after `left[`, for any kind of token that has a kind (`k`): what `bracket` of Model/Pratt.lean does, written
with `drop` so that the same text serves flagged and plain tokens (`bracket_eq_G` in Props/C01PrattW.lean) -/
def bracketG {τ : Type} (k : τ → Tok) (pe : List τ → Option (E × List τ)) (lp : E → List τ → Option (E × List τ))
    (left : E) (r : List τ) : Option (E × List τ) :=
  match r.map k with
  | .colon :: .rbracket :: _ => lp (.sliceAll left) (r.drop 2)
  | .colon :: _ =>
    match pe (r.drop 1) with
    | some (b, r2) =>
      match r2.map k with
      | .rbracket :: _ => lp (.sliceTo left b) (r2.drop 1)
      | _ => none
    | none => none
  | _ =>
    match pe r with
    | some (i, r') =>
      match r'.map k with
      | .rbracket :: _ => lp (.index left i) (r'.drop 1)
      | .colon :: .rbracket :: _ => lp (.sliceFrom left i) (r'.drop 2)
      | .colon :: _ =>
        match pe (r'.drop 1) with
        | some (b, r2) =>
          match r2.map k with
          | .rbracket :: _ => lp (.slice left i b) (r2.drop 1)
          | _ => none
        | none => none
      | _ => none
    | none => none

/-- after `left[` (mode off inside the brackets: the flags are not looked at) -/
def bracketW (pe : List WTok → Option (E × List WTok)) (lp : E → List WTok → Option (E × List WTok)) (left : E) (r : List WTok) :
    Option (E × List WTok) := bracketG WTok.tok pe lp left r

/-- after `left.`: whitespace after the dot is an error -/
def dottedW (lp : E → List WTok → Option (E × List WTok)) (left : E) (r : List WTok) : Option (E × List WTok) :=
  match r with
  | ⟨false, .lparen⟩ :: ⟨_, .ty t⟩ :: ⟨_, .rparen⟩ :: r' => lp (.assert left t) r'
  | ⟨false, .atom k⟩ :: r' => lp (.dot left k) r'
  | _ => none

mutual
/-- parseExpr(prec) in mode `wss`; entered at a non-WS token (the flag of the first token is the caller's business) -/
def parseExprW : Bool → Nat → Nat → List WTok → Option (E × List WTok)
  | _, 0, _, _ => none
  | wss, f + 1, p, ts =>
    match ts with
    | ⟨_, .atom n⟩ :: r => loopW wss f p (.atom n) r
    | ⟨_, .bang⟩ :: r =>
      if headWs r then none else
      match parseExprW wss f unaryPrec r with
      | some (e, r') => loopW wss f p (.un .not e) r'
      | none => none
    | ⟨_, .op .minus⟩ :: r =>
      if headWs r then none else
      match parseExprW wss f unaryPrec r with
      | some (e, r') => loopW wss f p (.un .neg e) r'
      | none => none
    | ⟨_, .lparen⟩ :: r =>
      match parseExprW false f 0 r with
      | some (e, ⟨_, .rparen⟩ :: r') => loopW wss f p (.group e) r'
      | _ => none
    | _ => none
/-- the loop of parseExpr: `!isAtExprEnd() && prec < precedences[cur]` -/
def loopW : Bool → Nat → Nat → E → List WTok → Option (E × List WTok)
  | _, 0, _, _, _ => none
  | wss, f + 1, p, left, ts =>
    match ts with
    | ⟨w, .op o⟩ :: r =>
      if wss && w then some (left, ts)
      else if p < o.prec then
        if wss && headWs r then none else
        match parseExprW wss f o.prec r with
        | some (right, r') => loopW wss f p (.bin o left right) r'
        | none => none
      else some (left, ts)
    | ⟨w, .lbracket⟩ :: r =>
      if wss && w then some (left, ts)
      else if p < indexPrec then
        if w then none else bracketW (parseExprW false f 0) (loopW wss f p) left r
      else some (left, ts)
    | ⟨w, .dot⟩ :: r =>
      if wss && w then some (left, ts)
      else if p < indexPrec then
        if w then none else dottedW (loopW wss f p) left r
      else some (left, ts)
    | _ => some (left, ts)
end

def parseW (wss : Bool) (ts : List WTok) : Option (E × List WTok) := parseExprW wss (2 * ts.length + 2) 0 ts

/-- parseExprList: whitespace-sensitive expressions one after the other until `)`, `]` or the end of the line -/
def argsW : Nat → List WTok → Option (List E)
  | 0, _ => none
  | _ + 1, [] => some []
  | _ + 1, ⟨_, .rparen⟩ :: _ => some []
  | _ + 1, ⟨_, .rbracket⟩ :: _ => some []
  | _ + 1, ⟨_, .other⟩ :: _ => some []
  | n + 1, ts =>
    match parseW true ts with
    | some (e, r) => (argsW n r).map (e :: ·)
    | none => none

end EvyV.Pratt
