/-
ImplModel of the formatter's blank-line policy (pkg/parser/format.go formatProgram / writeBlankLine,
pkg/parser/multiline.go nlAfter / newAccumulations / formatMultiline), on the sequence of item kinds.

The Go code computes, over run-compressed "accumulations", a set of statement indices after which a
blank line is written. Written out per adjacent pair of items this is `needBlank`:
  * `func` directly followed by a statement                      (nlAfter case 2)
  * a statement or `func` directly followed by a `func`          (case 3)
  * a statement or `func` directly followed by the comment lines of a `func`   (case 4)
and runs of blank lines are squeezed to one (writeBlankLine).
-/
namespace EvyV.Layout

/-- the kinds of top-level item: statement, func / on declaration, comment line, blank line -/
inductive K | stmt | func | comment | blank
  deriving DecidableEq, Repr

/-- the list starts with one or more comment lines directly followed by a func -/
def commentsThenFunc : List K → Bool
  | .comment :: .func :: _ => true
  | .comment :: .comment :: rest => commentsThenFunc (.comment :: rest)
  | _ => false

/-- is a blank line written between `x` and what follows it? -/
def needBlank (x : K) (rest : List K) : Bool :=
  match x, rest with
  | .func, .stmt :: _ => true
  | .stmt, .func :: _ => true
  | .func, .func :: _ => true
  | .stmt, .comment :: _ => commentsThenFunc rest
  | .func, .comment :: _ => commentsThenFunc rest
  | _, _ => false

/-- formatProgram on kinds -/
def fmtK : List K → List K
  | [] => []
  | .blank :: .blank :: rest => fmtK (.blank :: rest)
  | .blank :: rest => .blank :: fmtK rest
  | x :: rest => if needBlank x rest then x :: .blank :: fmtK rest else x :: fmtK rest

/-- formatMultiline: inside a multi-line literal items are elements, comments and newlines; a newline
is kept only while fewer than two have been seen since the last element (one blank line at most) -/
inductive M | el | comment | nl
  deriving DecidableEq, Repr

def fmtM : Nat → List M → List M
  | _, [] => []
  | cnt, .nl :: rest => if cnt + 1 ≤ 2 then .nl :: fmtM (cnt + 1) rest else fmtM (cnt + 1) rest
  | _, .comment :: rest => .comment :: fmtM 1 rest
  | _, .el :: rest => .el :: fmtM 0 rest

end EvyV.Layout
