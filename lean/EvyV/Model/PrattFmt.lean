import EvyV.Model.PrattW
/-
Model of format.go on expressions, with whitespace: a unary operator directly before its operand; a binary
operator with a space on both sides, or with none when the expression was parsed in a whitespace-sensitive
context (parser: recordWSS, formatter: writeWSS); `[`, `]`, `:`, `.`, `.(` … `)` without spaces; inside
parentheses, brackets and type assertions the spaced form again.
-/
namespace EvyV.Pratt

/-- the formatter's output for a tree parsed in mode `wss`, as flagged tokens; `first` is the whitespace
flag of the first token (what precedes the expression is the context's business) -/
def layout (wss : Bool) : Bool → E → List WTok
  | first, .atom n => [⟨first, .atom n⟩]
  | first, .un .neg e => ⟨first, .op .minus⟩ :: layout wss false e
  | first, .un .not e => ⟨first, .bang⟩ :: layout wss false e
  | first, .bin o l r => layout wss first l ++ ⟨!wss, .op o⟩ :: layout wss (!wss) r
  | first, .group e => ⟨first, .lparen⟩ :: layout false false e ++ [⟨false, .rparen⟩]
  | first, .index l i => layout wss first l ++ ⟨false, .lbracket⟩ :: layout false false i ++ [⟨false, .rbracket⟩]
  | first, .sliceAll l => layout wss first l ++ [⟨false, .lbracket⟩, ⟨false, .colon⟩, ⟨false, .rbracket⟩]
  | first, .sliceTo l b => layout wss first l ++ ⟨false, .lbracket⟩ :: ⟨false, .colon⟩ :: layout false false b ++ [⟨false, .rbracket⟩]
  | first, .sliceFrom l a => layout wss first l ++ ⟨false, .lbracket⟩ :: layout false false a ++ [⟨false, .colon⟩, ⟨false, .rbracket⟩]
  | first, .slice l a b =>
    layout wss first l ++ ⟨false, .lbracket⟩ :: layout false false a ++ ⟨false, .colon⟩ :: layout false false b ++ [⟨false, .rbracket⟩]
  | first, .dot l k => layout wss first l ++ [⟨false, .dot⟩, ⟨false, .atom k⟩]
  | first, .assert l t => layout wss first l ++ [⟨false, .dot⟩, ⟨false, .lparen⟩, ⟨false, .ty t⟩, ⟨false, .rparen⟩]

end EvyV.Pratt
