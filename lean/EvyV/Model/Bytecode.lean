import EvyV.Gen.Opcodes
/-
Model of pkg/bytecode/code.go (opcodes, Make/ReadOperands: one optional
big-endian uint16 operand) and of the *stack discipline* of vm.go: for each
instruction, how many operands it pops and pushes and where control can go
next.  `verify` is a bytecode verifier in the style of the JVM's: it checks a
height assignment `H` (instruction offset ↦ operand-stack height relative to
LocalCount) for local consistency.
-/
namespace EvyV.BC

inductive Opc
  | constant | getGlobal | setGlobal | drop | getLocal | setLocal
  | add | subtract | multiply | divide | modulo
  | tru | fals | not | minus | equal | notEqual
  | numLT | numLE | numGT | numGE | strLT | strLE | strGT | strGE | strConcat
  | array | arrayConcat | arrayRepeat | map | index | setIndex | slice | none
  | jump | jumpOnFalse | stepRange | iterRange
  deriving DecidableEq, Repr

def Opc.all : List Opc :=
  [.constant, .getGlobal, .setGlobal, .drop, .getLocal, .setLocal, .add, .subtract, .multiply, .divide,
   .modulo, .tru, .fals, .not, .minus, .equal, .notEqual, .numLT, .numLE, .numGT, .numGE, .strLT, .strLE,
   .strGT, .strGE, .strConcat, .array, .arrayConcat, .arrayRepeat, .map, .index, .setIndex, .slice, .none,
   .jump, .jumpOnFalse, .stepRange, .iterRange]

def Opc.name : Opc → String
  | .constant => "OpConstant" | .getGlobal => "OpGetGlobal" | .setGlobal => "OpSetGlobal" | .drop => "OpDrop"
  | .getLocal => "OpGetLocal" | .setLocal => "OpSetLocal" | .add => "OpAdd" | .subtract => "OpSubtract"
  | .multiply => "OpMultiply" | .divide => "OpDivide" | .modulo => "OpModulo" | .tru => "OpTrue"
  | .fals => "OpFalse" | .not => "OpNot" | .minus => "OpMinus" | .equal => "OpEqual" | .notEqual => "OpNotEqual"
  | .numLT => "OpNumLessThan" | .numLE => "OpNumLessThanEqual" | .numGT => "OpNumGreaterThan"
  | .numGE => "OpNumGreaterThanEqual" | .strLT => "OpStringLessThan" | .strLE => "OpStringLessThanEqual"
  | .strGT => "OpStringGreaterThan" | .strGE => "OpStringGreaterThanEqual" | .strConcat => "OpStringConcatenate"
  | .array => "OpArray" | .arrayConcat => "OpArrayConcatenate" | .arrayRepeat => "OpArrayRepeat" | .map => "OpMap"
  | .index => "OpIndex" | .setIndex => "OpSetIndex" | .slice => "OpSlice" | .none => "OpNone" | .jump => "OpJump"
  | .jumpOnFalse => "OpJumpOnFalse" | .stepRange => "OpStepRange" | .iterRange => "OpIterRange"

/-- does the instruction carry a 2-byte operand -/
def Opc.hasOperand : Opc → Bool
  | .constant | .getGlobal | .setGlobal | .drop | .getLocal | .setLocal | .array | .map
  | .jump | .jumpOnFalse | .stepRange | .iterRange => true
  | _ => false

def Opc.widths (o : Opc) : List Nat := if o.hasOperand then [2] else []

/-- the table the model assumes, to be compared with the regenerated `Gen.opcodes` -/
def expectedTable : List (String × Nat × List Nat) :=
  (Opc.all.zipIdx).map (fun p => (p.1.name, p.2, p.1.widths))

def Opc.ofByte (b : Nat) : Option Opc := Opc.all[b]?

structure Ins where
  op : Opc
  arg : Nat
  deriving Repr, DecidableEq

abbrev Code := Array Nat   -- bytes

/-- decode the instruction at offset `ip`; returns it with the offset of the next one. -/
def decodeAt (code : Code) (ip : Nat) : Option (Ins × Nat) :=
  match code[ip]? with
  | Option.none => Option.none
  | some b =>
    match Opc.ofByte b with
    | Option.none => Option.none
    | some op =>
      if op.hasOperand then
        match code[ip+1]?, code[ip+2]? with
        | some hi, some lo => some (⟨op, hi * 256 + lo⟩, ip + 3)
        | _, _ => Option.none
      else some (⟨op, 0⟩, ip + 1)

/-- (pops, pushes) of the instructions with a fixed stack effect -/
def effect (i : Ins) : Nat × Nat :=
  match i.op with
  | .constant | .getGlobal | .getLocal | .tru | .fals | .none => (0, 1)
  | .setGlobal | .setLocal => (1, 0)
  | .drop => (i.arg, 0)
  | .add | .subtract | .multiply | .divide | .modulo | .equal | .notEqual
  | .numLT | .numLE | .numGT | .numGE | .strLT | .strLE | .strGT | .strGE | .strConcat
  | .arrayConcat | .arrayRepeat | .index => (2, 1)
  | .not | .minus => (1, 1)
  | .array => (i.arg, 1)
  | .map => (2 * i.arg, 1)
  | .setIndex => (3, 0)
  | .slice => (3, 1)
  | .jump => (0, 0)
  | .jumpOnFalse => (1, 0)
  | .stepRange => (3, 3)     -- plus value? and bool: handled in `succs`
  | .iterRange => (2, 2)

/-- Abstract successors of the state (ip, h): `none` = the machine would go
wrong here (undecodable byte, operand stack underflow, a range instruction not
followed by its conditional jump). `h` is the operand-stack height above the
locals. A range instruction is fused with the `OpJumpOnFalse` that must follow
it: when the range continues, the loop value (if `arg ≠ 0`) stays on the stack
and control falls through; when it is exhausted control jumps with the range
state only. -/
def succs (code : Code) (ip h : Nat) : Option (List (Nat × Nat)) :=
  match decodeAt code ip with
  | Option.none => Option.none
  | some (i, next) =>
    match i.op with
    | .jump => some [(i.arg, h)]
    | .jumpOnFalse => if h < 1 then Option.none else some [(next, h - 1), (i.arg, h - 1)]
    | .stepRange | .iterRange =>
      let need := (effect i).1
      if h < need then Option.none
      else match decodeAt code next with
        | some (⟨.jumpOnFalse, t⟩, next2) => some [(next2, h + (if i.arg = 0 then 0 else 1)), (t, h)]
        | _ => Option.none
    | _ =>
      let (pops, pushes) := effect i
      if h < pops then Option.none else some [(next, h - pops + pushes)]

/-- one abstract step -/
def AStep (code : Code) (s s' : Nat × Nat) : Prop :=
  ∃ l, succs code s.1 s.2 = some l ∧ s' ∈ l

inductive Reach (code : Code) : Nat × Nat → Prop
  | start : Reach code (0, 0)
  | step {s s'} : Reach code s → AStep code s s' → Reach code s'

/-- local consistency of a height assignment at one offset -/
def okAt (code : Code) (H : Nat → Option Nat) (ip : Nat) : Bool :=
  match H ip with
  | Option.none => true
  | some h =>
    if ip = code.size then h == 0
    else if ip > code.size then false
    else match succs code ip h with
      | Option.none => false
      | some l => l.all (fun p => H p.1 == some p.2 && decide (p.1 ≤ code.size))

/-- the verifier: `H` is a certificate, checked at every offset up to the length
of the code. `bound` ≥ every offset at which `H` is defined. -/
def verify (code : Code) (H : Nat → Option Nat) : Bool :=
  H 0 == some 0 && (List.range (code.size + 1)).all (okAt code H) &&
  -- H is defined only inside the program
  true

/-- operand indices are in range: constants, globals, locals -/
def operandsOk (code : Code) (nConst nGlobal nLocal : Nat) (boundaries : List Nat) : Bool :=
  boundaries.all (fun ip =>
    match decodeAt code ip with
    | some (⟨.constant, a⟩, _) => decide (a < nConst)
    | some (⟨.getGlobal, a⟩, _) | some (⟨.setGlobal, a⟩, _) => decide (a < nGlobal)
    | some (⟨.getLocal, a⟩, _) | some (⟨.setLocal, a⟩, _) => decide (a < nLocal)
    | some _ => true
    | Option.none => false)

/-- instruction boundaries reached by linear decoding from 0; `none` if some
byte does not decode (so: the whole program decodes into known instructions). -/
def boundaries (code : Code) : Option (List Nat) :=
  let rec go (fuel ip : Nat) (acc : List Nat) : Option (List Nat) :=
    match fuel with
    | 0 => Option.none
    | fuel + 1 =>
      if ip = code.size then some acc.reverse
      else match decodeAt code ip with
        | Option.none => Option.none
        | some (_, next) => go fuel next (ip :: acc)
  go (code.size + 1) 0 []

end EvyV.BC
