/-
Model of pkg/bytecode/symbol.go: SymbolTable with Push, Pop, Define, Resolve.
A `Chain` is the linked list of tables from the current one outwards; the last
element is the global table.  `base` and `popped` are ghost fields (not in the
Go struct): the value `index` had when the table was created, and the symbols
handed out by already popped descendants.
-/
namespace EvyV.SymTab

structure Sym where
  name : String
  isGlobal : Bool
  index : Nat
  deriving DecidableEq, Repr

structure Tab where
  store : List Sym          -- s.store (at most one symbol per name)
  index : Nat               -- s.index
  nestedMax : Nat           -- s.nestedMaxIndex
  base : Nat := 0           -- ghost
  popped : List Sym := []   -- ghost
  deriving Repr

abbrev Chain := List Tab

def newGlobal : Chain := [{ store := [], index := 0, nestedMax := 0 }]

def lookup (store : List Sym) (n : String) : Option Sym := store.find? (fun s => s.name == n)

/-- SymbolTable.Push -/
def push : Chain → Chain
  | [] => []
  | [g] => { store := [], index := 0, nestedMax := 0, base := 0 } :: [g]
  | t :: o :: rest => { store := [], index := t.index, nestedMax := 0, base := t.index } :: t :: o :: rest

/-- SymbolTable.Pop -/
def pop : Chain → Chain
  | [] => []
  | [g] => [g]
  | t :: o :: rest =>
    { o with nestedMax := max o.nestedMax (t.nestedMax + t.index),
             popped := t.store ++ t.popped ++ o.popped } :: rest

/-- SymbolTable.Define -/
def define (c : Chain) (n : String) : Chain × Option Sym :=
  match c with
  | [] => ([], none)
  | t :: rest =>
    match lookup t.store n with
    | some s => (c, some s)
    | none =>
      let s : Sym := { name := n, isGlobal := rest.isEmpty, index := t.index }
      ({ t with store := s :: t.store, index := t.index + 1 } :: rest, some s)

/-- SymbolTable.Resolve -/
def resolve : Chain → String → Option Sym
  | [], _ => none
  | t :: rest, n =>
    match lookup t.store n with
    | some s => some s
    | none => resolve rest n

inductive Op
  | push | pop | define (n : String) | resolve (n : String)
  deriving Repr

def step (c : Chain) : Op → Chain
  | .push => push c
  | .pop => pop c
  | .define n => (define c n).1
  | .resolve _ => c

def run (ops : List Op) : Chain := ops.foldl step newGlobal

/-- Bytecode.LocalCount / GlobalCount as the compiler reads them off the
(global) table at the end. -/
def localCount (c : Chain) : Nat := match c.getLast? with | some g => g.nestedMax | none => 0
def globalCount (c : Chain) : Nat := match c.getLast? with | some g => g.index | none => 0

end EvyV.SymTab
