import EvyV.Model.Num
import EvyV.Model.Bytecode
/-
Model of the expression fragment of pkg/bytecode/compiler.go (Compile for
NumLiteral, BoolLiteral, Var (global), UnaryExpression, BinaryExpression on
num/bool operands, GroupExpression) and of the corresponding instructions of
vm.go; and the tree-walking evaluator's meaning of the same expressions
(evaluator.go: evalUnaryExpr, evalBinaryNumExpr, Equals).
-/
namespace EvyV.ExprVM
open EvyV

inductive V (F : Type) | num (n : F) | bool (b : Bool)
  deriving Repr

inductive BinOp | add | sub | mul | div | lt | le | gt | ge | eq | ne
  deriving DecidableEq, Repr

/-- typed-enough expressions: the parser guarantees operand types; the model
keeps evaluation partial instead. -/
inductive E (F : Type)
  | num (n : F)
  | bool (b : Bool)
  | glob (i : Nat)               -- a global variable (slot i)
  | neg (e : E F)
  | not (e : E F)
  | bin (op : BinOp) (l r : E F) -- num operands; eq/ne on num or bool
  | group (e : E F)

variable {F : Type} (ops : NumOps F)

def veq : V F → V F → Option Bool
  | .num a, .num b => some (ops.eq a b)
  | .bool a, .bool b => some (a == b)
  | _, _ => none

/-- evaluator.go on these nodes -/
def evalE (g : List (V F)) : E F → Option (V F)
  | .num n => some (.num n)
  | .bool b => some (.bool b)
  | .glob i => g[i]?
  | .group e => evalE g e
  | .neg e => match evalE g e with | some (.num n) => some (.num (ops.neg n)) | _ => none
  | .not e => match evalE g e with | some (.bool b) => some (.bool (!b)) | _ => none
  | .bin op l r =>
    match evalE g l, evalE g r with
    | some a, some b =>
      match op, a, b with
      | .eq, a, b => (veq ops a b).map (fun x => V.bool x)
      | .ne, a, b => (veq ops a b).map (fun x => V.bool (!x))
      | .add, .num x, .num y => some (.num (ops.add x y))
      | .sub, .num x, .num y => some (.num (ops.sub x y))
      | .mul, .num x, .num y => some (.num (ops.mul x y))
      | .div, .num x, .num y => some (.num (ops.div x y))
      | .lt, .num x, .num y => some (.bool (ops.lt x y))
      | .le, .num x, .num y => some (.bool (ops.le x y))
      | .gt, .num x, .num y => some (.bool (ops.lt y x))
      | .ge, .num x, .num y => some (.bool (ops.le y x))
      | _, _, _ => none
    | _, _ => none

/-- instructions of the fragment (constants inlined instead of a constant pool index) -/
inductive I (F : Type)
  | const (n : F) | tru | fals | getGlobal (i : Nat)
  | minus | not | add | sub | mul | div | lt | le | gt | ge | equal | notEqual

def opIns : BinOp → I F
  | .add => .add | .sub => .sub | .mul => .mul | .div => .div
  | .lt => .lt | .le => .le | .gt => .gt | .ge => .ge | .eq => .equal | .ne => .notEqual

/-- compiler.go: left operand first, then right, then the operator -/
def compileE : E F → List (I F)
  | .num n => [.const n]
  | .bool true => [.tru]
  | .bool false => [.fals]
  | .glob i => [.getGlobal i]
  | .group e => compileE e
  | .neg e => compileE e ++ [.minus]
  | .not e => compileE e ++ [.not]
  | .bin op l r => compileE l ++ compileE r ++ [opIns op]

inductive VMErr | divZero | typeOrUnderflow
  deriving DecidableEq, Repr

/-- vm.go: one instruction on the operand stack (head = top) -/
def vmStep (g : List (V F)) (st : List (V F)) : I F → Except VMErr (List (V F))
  | .const n => .ok (.num n :: st)
  | .tru => .ok (.bool true :: st)
  | .fals => .ok (.bool false :: st)
  | .getGlobal i => match g[i]? with | some v => .ok (v :: st) | none => .error .typeOrUnderflow
  | .minus => match st with | .num n :: s => .ok (.num (ops.neg n) :: s) | _ => .error .typeOrUnderflow
  | .not => match st with | .bool b :: s => .ok (.bool (!b) :: s) | _ => .error .typeOrUnderflow
  | .add => match st with | .num r :: .num l :: s => .ok (.num (ops.add l r) :: s) | _ => .error .typeOrUnderflow
  | .sub => match st with | .num r :: .num l :: s => .ok (.num (ops.sub l r) :: s) | _ => .error .typeOrUnderflow
  | .mul => match st with | .num r :: .num l :: s => .ok (.num (ops.mul l r) :: s) | _ => .error .typeOrUnderflow
  | .div => match st with
    | .num r :: .num l :: s => if ops.eq r ops.zero then .error .divZero else .ok (.num (ops.div l r) :: s)
    | _ => .error .typeOrUnderflow
  | .lt => match st with | .num r :: .num l :: s => .ok (.bool (ops.lt l r) :: s) | _ => .error .typeOrUnderflow
  | .le => match st with | .num r :: .num l :: s => .ok (.bool (ops.le l r) :: s) | _ => .error .typeOrUnderflow
  | .gt => match st with | .num r :: .num l :: s => .ok (.bool (ops.lt r l) :: s) | _ => .error .typeOrUnderflow
  | .ge => match st with | .num r :: .num l :: s => .ok (.bool (ops.le r l) :: s) | _ => .error .typeOrUnderflow
  | .equal => match st with
    | r :: l :: s => match veq ops l r with | some b => .ok (.bool b :: s) | none => .error .typeOrUnderflow
    | _ => .error .typeOrUnderflow
  | .notEqual => match st with
    | r :: l :: s => match veq ops l r with | some b => .ok (.bool (!b) :: s) | none => .error .typeOrUnderflow
    | _ => .error .typeOrUnderflow

def vmExec (g : List (V F)) : List (I F) → List (V F) → Except VMErr (List (V F))
  | [], st => .ok st
  | i :: rest, st => match vmStep ops g st i with
    | .ok st' => vmExec g rest st'
    | .error e => .error e

end EvyV.ExprVM
