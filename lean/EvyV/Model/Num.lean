/-
Numbers. The properties are not about rounding, so `num` is an abstract
carrier `F` with the operations the Go code applies to `float64`.  Theorems hold
for every `F`; the driver instantiates `F := Float` (IEEE binary64).
-/
namespace EvyV

/-- The operations on `float64` that the modelled Go code uses.
`toInt` is Go's `int(f)` (on amd64: truncation, and `-2^63` for NaN and values
outside int64); `ofInt` is `float64(i)`. -/
structure NumOps (F : Type) where
  add : F → F → F
  sub : F → F → F
  mul : F → F → F
  div : F → F → F
  neg : F → F
  lt : F → F → Bool
  le : F → F → Bool
  eq : F → F → Bool          -- IEEE `==` (NaN ≠ NaN, -0 == 0)
  toInt : F → Int
  ofInt : Int → F
  fmt : F → List Char        -- strconv.FormatFloat(f, 'f', -1, 64)

namespace NumOps
variable {F : Type} (ops : NumOps F)

def gt (a b : F) : Bool := ops.lt b a
def ge (a b : F) : Bool := ops.le b a
def zero : F := ops.ofInt 0
def one : F := ops.ofInt 1

/-- `float64(int(v)) == v`: the test the Go code uses for "v is an integer". -/
def isIntegral (v : F) : Bool := ops.eq v (ops.ofInt (ops.toInt v))

end NumOps

/-- A toy instance used for non-vacuity examples and negative witnesses that
the kernel can evaluate: numbers are integers. -/
def intOps : NumOps Int where
  add := (· + ·)
  sub := (· - ·)
  mul := (· * ·)
  div := fun a b => if b = 0 then 0 else a / b
  neg := fun a => -a
  lt := fun a b => decide (a < b)
  le := fun a b => decide (a ≤ b)
  eq := fun a b => decide (a = b)
  toInt := id
  ofInt := id
  fmt := fun a => (toString a).toList

end EvyV
