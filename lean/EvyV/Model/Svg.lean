import EvyV.Model.Num
/-
ImplModel of pkg/cli/svg/runtime.go + svg.go: the SVG graphics platform.

The document is kept as data (root attributes, top-level elements, groups, leaves) exactly as the Go
structs that encoding/xml marshals; `flatten` resolves inherited presentation attributes down to the
leaves, which is what a renderer does and what the Go harness does with the re-parsed XML text.

Two quirks of the code are parameters (`Quirks`), extracted from runtime.go on every run
(Gen/Svg.lean): Ellipse applies transformX to y, and Font overwrites the mapped baseline with the raw
value.
-/
namespace EvyV.Svg

abbrev Str := List Char

structure Quirks where
  ellipseYUsesX : Bool
  baselineRaw : Bool
  deriving DecidableEq, Repr

/-- svg.go Attr: "" / none = attribute absent (omitempty) -/
structure Attr (F : Type) where
  fill : Str := []
  stroke : Str := []
  width : Option F := none
  linecap : Str := []
  dash : Str := []

/-- svg.go TextAttr -/
structure TextAttr (F : Type) where
  anchor : Str := []
  baseline : Str := []
  size : Option F := none
  weight : Option F := none
  style : Str := []
  family : Str := []
  spacing : Str := []

inductive Geo (F : Type)
  | line (x1 y1 x2 y2 : F)
  | rect (x y : F) (w h : Str)
  | circle (cx cy r : F)
  | polyline (pts : Str)
  | ellipse (cx cy rx ry : F) (rot : Option (F × F × F))   -- transform="rotate(r cx cy)"
  | text (x y : F) (s : Str)
  deriving DecidableEq

def Geo.isText {F : Type} : Geo F → Bool
  | .text .. => true
  | _ => false

structure Leaf (F : Type) where
  attr : Attr F := {}
  tattr : TextAttr F := {}     -- only marshalled for <text>
  geo : Geo F

structure GridLine (F : Type) where
  x1 : F
  y1 : F
  x2 : F
  y2 : F
  thick : Bool                 -- own stroke-width="2"
  deriving DecidableEq

/-- the `<g stroke=colour>` of gridn -/
structure Grid (F : Type) where
  attr : Attr F := {}
  tattr : TextAttr F := {}
  lines : List (GridLine F)

inductive Item (F : Type)
  | leaf (l : Leaf F)
  | grid (g : Grid F)

inductive Top (F : Type)
  | item (i : Item F)
  | group (a : Attr F) (t : TextAttr F) (items : List (Item F))

structure Doc (F : Type) where
  attr : Attr F
  tattr : TextAttr F
  tops : List (Top F)

/-- rt.attr: always complete -/
structure Pen (F : Type) where
  fill : Str
  stroke : Str
  width : F
  linecap : Str
  dash : Str

/-- rt.textAttr: always complete -/
structure TextPen (F : Type) where
  anchor : Str
  baseline : Str
  size : F
  weight : F
  style : Str
  family : Str
  spacing : Str

structure FontProps (F : Type) where
  family : Option Str := none
  size : Option F := none
  weight : Option F := none
  style : Option Str := none
  baseline : Option Str := none
  align : Option Str := none
  spacing : Option F := none

inductive Cmd (F : Type)
  | move (x y : F)
  | line (x y : F)
  | rect (w h : F)
  | circle (r : F)
  | clear (c : Str)
  | poly (pts : List (F × F))
  | ellipse (x y rx ry rot : F)
  | text (s : Str)
  | gridn (unit : F) (c : Str)
  | width (w : F)
  | color (c : Str)
  | stroke (c : Str)
  | fill (c : Str)
  | dash (segs : List F)
  | linecap (s : Str)
  | font (p : FontProps F)

section
variable {F : Type} (ops : NumOps F)

def lit (s : String) : Str := s.toList

/-! ### coordinates (shared with the specification: "scaled by ten, y axis flipped") -/

def scale (s : F) : F := ops.mul (ops.ofInt 10) s
def tx (x : F) : F := scale ops x
def ty (y : F) : F := ops.sub (scale ops (ops.ofInt 100)) (scale ops y)

def isNaN (a : F) : Bool := !ops.eq a a
/-- Go's builtin min on float64 (NaN propagates; the sign of zero is not modelled) -/
def fmin (a b : F) : F := if isNaN ops a then a else if isNaN ops b then b else if ops.lt b a then b else a
/-- math.Abs (the sign of zero is not modelled) -/
def fabs (a : F) : F := if ops.lt a ops.zero then ops.neg a else a

def joinWith (sep : Str) : List Str → Str
  | [] => []
  | [a] => a
  | a :: rest => a ++ sep ++ joinWith sep rest

def pointsStr (pts : List (F × F)) : Str :=
  joinWith [' '] (pts.map (fun p => ops.fmt (tx ops p.1) ++ [','] ++ ops.fmt (ty ops p.2)))

def dashStr (segs : List F) : Str := joinWith [' '] (segs.map (fun s => ops.fmt (scale ops s)))

/-- Gridn's loop `for i := 0; i <= 1000; i += unit`; `fuel` bounds the iterations the model performs -/
def gridLoop (unit : F) : Nat → F → Nat → List (GridLine F)
  | 0, _, _ => []
  | fuel + 1, i, cnt =>
    if ops.le i (ops.ofInt 1000) then
      let thick := cnt % 5 == 0
      { x1 := i, y1 := ops.zero, x2 := i, y2 := ops.ofInt 1000, thick := thick } ::
      { x1 := ops.zero, y1 := i, x2 := ops.ofInt 1000, y2 := i, thick := thick } ::
      gridLoop unit fuel (ops.add i unit) (cnt + 1)
    else []

def gridLines (fuel : Nat) (unit : F) : List (GridLine F) := gridLoop ops (tx ops unit) fuel ops.zero 0

/-- does the loop finish within the fuel? -/
def gridFinishes (unit : F) : Nat → F → Bool
  | 0, _ => false
  | fuel + 1, i => if ops.le i (ops.ofInt 1000) then gridFinishes unit fuel (ops.add i unit) else true

/-! ### defaults -/

def defaultPen : Pen F :=
  { fill := lit "black", stroke := lit "black", width := ops.one, linecap := lit "round", dash := [] }

def defaultFamily : Str := lit "\"Fira Code\", monospace"

def defaultTextPen : TextPen F :=
  { anchor := lit "start", baseline := lit "alphabetic", size := ops.ofInt 60, weight := ops.ofInt 400,
    style := lit "normal", family := defaultFamily, spacing := lit "0" }

def rootAttr : Attr F := { linecap := lit "round", stroke := lit "black" }
def rootTextAttr : TextAttr F := { size := some (ops.ofInt 60) }

/-- `rt.attr != defaultAttr` compared by value (the pointer comparison of StrokeWidth can only make
the Go code call setAttr with an all-empty Attr, which changes nothing) -/
def penIsDefault (p : Pen F) : Bool :=
  p.fill == lit "black" && p.stroke == lit "black" && ops.eq p.width ops.one && p.linecap == lit "round" && p.dash == []

def strip (s dflt : Str) : Str := if s == dflt then [] else s

def nonDefaultAttr (p : Pen F) : Attr F :=
  { fill := strip p.fill (lit "black"), stroke := strip p.stroke (lit "black"),
    width := if ops.eq p.width ops.one then none else some p.width,
    linecap := strip p.linecap (lit "round"), dash := p.dash }

def nonDefaultTextAttr (t : TextPen F) : TextAttr F :=
  { anchor := strip t.anchor (lit "start"), baseline := strip t.baseline (lit "alphabetic"),
    size := if ops.eq t.size (ops.ofInt 60) then none else some t.size,
    weight := if ops.eq t.weight (ops.ofInt 400) then none else some t.weight,
    style := strip t.style (lit "normal"), family := strip t.family defaultFamily,
    spacing := strip t.spacing (lit "0") }

/-! ### state and commands -/

structure State (F : Type) where
  x : F
  y : F
  pen : Pen F
  tpen : TextPen F
  tops : List (Top F)          -- rt.SVG.Elements
  pending : List (Item F)      -- rt.elements

/-- Attr.withOwn (svg.go): the element's own colours win -/
def withOwn (a own : Attr F) : Attr F :=
  { a with fill := if own.fill == [] then a.fill else own.fill,
           stroke := if own.stroke == [] then a.stroke else own.stroke }

/-- the setAttr / setTextAttr calls of Push on a single pending element -/
def applySingle (p : Pen F) (t : TextPen F) : Item F → Item F
  | .leaf l =>
    let a : Attr F :=
      if penIsDefault ops p then l.attr
      else
        let nd := nonDefaultAttr ops p
        match l.geo with
        | .text .. => if nd.fill != nd.stroke then { nd with fill := nd.stroke } else nd   -- Text.setAttr
        | .rect .. => withOwn nd l.attr                                                     -- Rect.setAttr
        | _ => nd
    let ta : TextAttr F := if l.geo.isText then nonDefaultTextAttr ops t else l.tattr
    .leaf { l with attr := a, tattr := ta }
  | .grid g =>
    let a := if penIsDefault ops p then g.attr else withOwn (nonDefaultAttr ops p) g.attr
    .grid { g with attr := a, tattr := nonDefaultTextAttr ops t }

/-- Push -/
def push (s : State F) : State F :=
  match s.pending with
  | [] => s
  | [i] => { s with tops := s.tops ++ [.item (applySingle ops s.pen s.tpen i)], pending := [] }
  | items =>
    let a : Attr F := if penIsDefault ops s.pen then {} else nonDefaultAttr ops s.pen
    { s with tops := s.tops ++ [.group a (nonDefaultTextAttr ops s.tpen) items], pending := [] }

def add (s : State F) (i : Item F) : State F := { s with pending := s.pending ++ [i] }

def clearItem (c : Str) : Item F :=
  let c := if c == [] then lit "white" else c
  .leaf { attr := { fill := c, stroke := c }, geo := .rect ops.zero ops.zero (lit "100%") (lit "100%") }

def mapBaseline (q : Quirks) (b : Str) (cur : Str) : Str :=
  if q.baselineRaw then b
  else if b == lit "top" then lit "hanging"
  else if b == lit "middle" then lit "middle"
  else if b == lit "bottom" then lit "ideographic"
  else if b == lit "alphabetic" then lit "alphabetic"
  else cur

def mapAlign (a : Str) (cur : Str) : Str :=
  if a == lit "left" then lit "start"
  else if a == lit "right" then lit "end"
  else if a == lit "center" then lit "middle"
  else cur

def applyFont (q : Quirks) (t : TextPen F) (p : FontProps F) : TextPen F :=
  let t := match p.family with | some f => { t with family := f } | none => t
  let t := match p.size with | some s => { t with size := scale ops s } | none => t
  let t := match p.weight with | some w => { t with weight := w } | none => t
  let t := match p.style with | some s => { t with style := s } | none => t
  let t := match p.baseline with | some b => { t with baseline := mapBaseline q b t.baseline } | none => t
  let t := match p.align with | some a => { t with anchor := mapAlign a t.anchor } | none => t
  match p.spacing with | some l => { t with spacing := ops.fmt l } | none => t

def step (q : Quirks) (fuel : Nat) (s : State F) : Cmd F → State F
  | .move x y => { s with x := tx ops x, y := ty ops y }
  | .line x y =>
    let x' := tx ops x
    let y' := ty ops y
    add { s with x := x', y := y' } (.leaf { geo := .line s.x s.y x' y' })
  | .rect w h =>
    let w' := scale ops w
    let h' := ops.neg (scale ops h)
    let nx := ops.add s.x w'
    let ny := ops.add s.y h'
    add { s with x := nx, y := ny }
      (.leaf { geo := .rect (fmin ops s.x nx) (fmin ops s.y ny) (ops.fmt (fabs ops w')) (ops.fmt (fabs ops h')) })
  | .circle r => add s (.leaf { geo := .circle s.x s.y (scale ops r) })
  | .clear c => add s (clearItem ops c)
  | .poly pts => add s (.leaf { geo := .polyline (pointsStr ops pts) })
  | .ellipse x y rx ry rot =>
    let cx := tx ops x
    let cy := if q.ellipseYUsesX then tx ops y else ty ops y
    let r := if ops.eq rot ops.zero then none else some (rot, cx, cy)
    add s (.leaf { geo := .ellipse cx cy (scale ops rx) (scale ops ry) r })
  | .text str =>
    let own : Attr F := if s.pen.fill != s.pen.stroke then { fill := s.pen.stroke } else {}
    add s (.leaf { attr := own, geo := .text s.x s.y str })
  | .gridn u c => add s (.grid { attr := { stroke := c }, lines := gridLines ops fuel u })
  | .width w => let s := push ops s; { s with pen := { s.pen with width := scale ops w } }
  | .color c => let s := push ops s; { s with pen := { s.pen with stroke := c, fill := c } }
  | .stroke c => let s := push ops s; { s with pen := { s.pen with stroke := c } }
  | .fill c => let s := push ops s; { s with pen := { s.pen with fill := c } }
  | .dash segs => let s := push ops s; { s with pen := { s.pen with dash := dashStr ops segs } }
  | .linecap c => let s := push ops s; { s with pen := { s.pen with linecap := c } }
  | .font p => let s := push ops s; { s with tpen := applyFont ops q s.tpen p }

/-- NewGraphicsPlatform: cursor at the origin, default pen, `Clear("white")` pending -/
def init : State F :=
  { x := tx ops ops.zero, y := ty ops ops.zero, pen := defaultPen ops, tpen := defaultTextPen ops,
    tops := [], pending := [clearItem ops (lit "white")] }

def run (q : Quirks) (fuel : Nat) (cmds : List (Cmd F)) : State F := cmds.foldl (step ops q fuel) (init ops)

/-- WriteSVG: Push, then marshal rt.SVG -/
def writeSVG (s : State F) : Doc F :=
  { attr := rootAttr, tattr := rootTextAttr ops, tops := (push ops s).tops }

/-! ### flatten: resolve inherited presentation attributes -/

structure Style (F : Type) where
  fill : Str
  stroke : Str
  width : F
  linecap : Str
  dash : Str
  deriving DecidableEq

structure TStyle (F : Type) where
  anchor : Str
  baseline : Str
  size : F
  weight : F
  style : Str
  family : Str
  spacing : Str
  deriving DecidableEq

inductive Shape (F : Type)
  | leaf (s : Style F) (t : Option (TStyle F)) (g : Geo F)
  | grid (stroke : Str) (lines : List (GridLine F))
  deriving DecidableEq

def pick (own parent : Str) : Str := if own == [] then parent else own

def Attr.over (own parent : Attr F) : Attr F :=
  { fill := pick own.fill parent.fill, stroke := pick own.stroke parent.stroke,
    width := own.width.or parent.width, linecap := pick own.linecap parent.linecap,
    dash := pick own.dash parent.dash }

def TextAttr.over (own parent : TextAttr F) : TextAttr F :=
  { anchor := pick own.anchor parent.anchor, baseline := pick own.baseline parent.baseline,
    size := own.size.or parent.size, weight := own.weight.or parent.weight,
    style := pick own.style parent.style, family := pick own.family parent.family,
    spacing := pick own.spacing parent.spacing }

/-- initial values of SVG presentation attributes (fill black, stroke none, stroke-width 1, butt, no dash) -/
def Attr.resolve (a : Attr F) : Style F :=
  { fill := pick a.fill (lit "black"), stroke := pick a.stroke (lit "none"), width := a.width.getD ops.one,
    linecap := pick a.linecap (lit "butt"), dash := a.dash }

/-- initial values: text-anchor start, dominant-baseline auto (= alphabetic for horizontal text),
font-size medium (16), weight 400, style normal, family: the viewer's default, read as Evy's
default family, letter-spacing normal (= 0) -/
def TextAttr.resolve (t : TextAttr F) : TStyle F :=
  { anchor := pick t.anchor (lit "start"), baseline := pick t.baseline (lit "alphabetic"),
    size := t.size.getD (ops.ofInt 16), weight := t.weight.getD (ops.ofInt 400),
    style := pick t.style (lit "normal"), family := pick t.family defaultFamily,
    spacing := pick t.spacing (lit "0") }

def flattenItem (ctx : Attr F) (tctx : TextAttr F) : Item F → Shape F
  | .leaf l =>
    let a := l.attr.over ctx
    if l.geo.isText then .leaf (a.resolve ops) (some ((l.tattr.over tctx).resolve ops)) l.geo
    else .leaf (a.resolve ops) none l.geo
  | .grid g => .grid ((g.attr.over ctx).resolve ops).stroke g.lines

def flattenTop (ra : Attr F) (rt : TextAttr F) : Top F → List (Shape F)
  | .item i => [flattenItem ops ra rt i]
  | .group a t items => items.map (flattenItem ops (a.over ra) (t.over rt))

def flatten (d : Doc F) : List (Shape F) := d.tops.flatMap (flattenTop ops d.attr d.tattr)

end
end EvyV.Svg
