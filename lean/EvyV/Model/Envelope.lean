/-
Model of learn/pkg/learn/encrypt.go (hybridEncrypt / hybridDecrypt: the
version‖len‖rsa‖aes envelope over abstract primitives) and of answer
verification (answer.go correctAnswerIndices, question.go verifyChoiceMatch).
-/
namespace EvyV.Envelope

abbrev Bytes := List Nat   -- each < 256

/-- the cryptographic primitives the Go code calls, as parameters -/
structure Crypto where
  Pub : Type
  Priv : Type
  /-- rsa.EncryptOAEP(pub, sessionKey) with its randomness -/
  rsaEnc : Pub → Bytes → Nat → Bytes
  /-- rsa.DecryptOAEP -/
  rsaDec : Priv → Bytes → Option Bytes
  /-- AES-GCM Seal with the zero nonce under a session key -/
  gcmSeal : Bytes → Bytes → Bytes
  /-- AES-GCM Open -/
  gcmOpen : Bytes → Bytes → Option Bytes

def u16be (n : Nat) : Bytes := [(n / 256) % 256, n % 256]
def readU16 (hi lo : Nat) : Nat := hi * 256 + lo

variable (c : Crypto)

/-- hybridEncrypt: version byte 1, big-endian uint16 length of the RSA part, RSA part, AES part -/
def encrypt (pub : c.Pub) (plaintext sessionKey : Bytes) (rnd : Nat) : Bytes :=
  let rsaCt := c.rsaEnc pub sessionKey rnd
  [1] ++ u16be rsaCt.length ++ rsaCt ++ c.gcmSeal sessionKey plaintext

inductive DecErr | tooShort | rsa | aes
  deriving DecidableEq, Repr

/-- hybridDecrypt -/
def decrypt (priv : c.Priv) (ct : Bytes) : Except DecErr Bytes :=
  match ct with
  | _ :: hi :: lo :: rest =>
    let rsaLen := readU16 hi lo
    if rest.length < rsaLen then .error .tooShort
    else
      match c.rsaDec priv (rest.take rsaLen) with
      | none => .error .rsa
      | some sk =>
        match c.gcmOpen sk (rest.drop rsaLen) with
        | none => .error .aes
        | some pt => .ok pt
  | _ => .error .tooShort

/-! ### answer verification -/

/-- question.go verifyChoiceMatch: `marked i` = choice i is marked correct in the front matter,
`gen` the question's output, `outputs` the choices' outputs. Only existing choices are compared;
a marked letter beyond the last choice must be rejected too (repaired in the code). -/
def verifyChoice {α : Type} [DecidableEq α] (marked : Nat → Bool) (maxLetter : Nat) (gen : α) (outputs : List α) : Bool :=
  (outputs.zipIdx.all (fun p => (marked p.2 && p.1 == gen) || (!marked p.2 && p.1 != gen))) &&
  ((List.range maxLetter).all (fun i => !(marked i && decide (outputs.length ≤ i))))

end EvyV.Envelope
