import EvyV.Model.Bytecode
import EvyV.Model.SymTab
import EvyV.Driver.Util
/-
Driver components `bcverify` (infer a height certificate for real compiler
output and run the proved checker `BC.verify` on it) and `symtab`.
-/
namespace EvyV.BcDrv
open EvyV EvyV.BC EvyV.Util

def bytesOfHex (s : String) : Option (Array Nat) :=
  let rec go (cs : List Char) (acc : Array Nat) : Option (Array Nat) :=
    match cs with
    | [] => some acc
    | [_] => none
    | a :: b :: rest => do
      let x ← hexVal a; let y ← hexVal b
      go rest (acc.push (x * 16 + y))
  go s.toList #[]

/-- infer heights by propagation to a fixpoint (untrusted; `verify` checks the result) -/
def inferH (code : Code) (bs : List Nat) : Array (Option Nat) := Id.run do
  let n := code.size
  let mut H : Array (Option Nat) := Array.replicate (n + 1) none
  H := H.set! 0 (some 0)
  for _ in [0:bs.length + 2] do
    let mut changed := false
    for ip in bs do
      match H[ip]! with
      | none => pure ()
      | some h =>
        match succs code ip h with
        | none => pure ()
        | some l =>
          for (ip', h') in l do
            if ip' ≤ n then
              match H[ip']! with
              | none => H := H.set! ip' (some h'); changed := true
              | some _ => pure ()
    if !changed then break
  return H

def handleVerify (ws : List String) : String :=
  match ws with
  | [hex, nc, ng, nl] =>
    match bytesOfHex hex, nc.toNat?, ng.toNat?, nl.toNat? with
    | some code, some nConst, some nGlobal, some nLocal =>
      match boundaries code with
      | none => "bad undecodable"
      | some bs =>
        let H := inferH code bs
        let Hf : Nat → Option Nat := fun ip => if h : ip < H.size then H[ip] else none
        let onBoundary := (List.range (code.size + 1)).all (fun ip =>
          match Hf ip with | none => true | some _ => ip == code.size || bs.contains ip)
        if !verify code Hf then
          -- find the first offending offset for the report
          let bad := (List.range (code.size + 1)).find? (fun ip => !okAt code Hf ip)
          s!"bad stack offset={bad.getD 0}"
        else if !onBoundary then "bad jump-into-instruction"
        else if !operandsOk code nConst nGlobal nLocal bs then "bad operand-range"
        else
          let maxH := (List.range (code.size + 1)).foldl (fun m ip => match Hf ip with | some h => max m h | none => m) 0
          s!"ok maxheight={maxH} instrs={bs.length}"
    | _, _, _, _ => "ERR args"
  | _ => "ERR args"

open SymTab in
def handleSymtab (ws : List String) : String := Id.run do
  let mut c : Chain := newGlobal
  let mut out : List String := []
  let mut rest := ws
  while !rest.isEmpty do
    match rest with
    | "push" :: r => c := push c; rest := r
    | "pop" :: r => c := pop c; rest := r
    | "define" :: n :: r =>
      let (c', s) := define c n
      c := c'
      out := (match s with | some s => s!"D:{n}:{if s.isGlobal then "G" else "L"}:{s.index}" | none => "D:none") :: out
      rest := r
    | "resolve" :: n :: r =>
      out := (match resolve c n with | some s => s!"R:{n}:{if s.isGlobal then "G" else "L"}:{s.index}" | none => s!"R:{n}:none") :: out
      rest := r
    | _ :: r => rest := r
    | [] => rest := []
  let st := c.map (fun t => s!"{t.index}/{t.nestedMax}")
  return " ".intercalate out.reverse ++ " | " ++ " ".intercalate st

end EvyV.BcDrv
