import EvyV.Model.Layout
/- Driver component `fmtk <kinds>` (s f c b) and `fmtm <items>` (e c n): the layout model's output. -/
namespace EvyV.LayoutDrv
open EvyV.Layout

def handleK (w : String) : String :=
  let ks := w.toList.filterMap (fun c => match c with
    | 's' => some K.stmt | 'f' => some K.func | 'c' => some K.comment | 'b' => some K.blank | _ => none)
  String.ofList ((fmtK ks).map (fun k => match k with | .stmt => 's' | .func => 'f' | .comment => 'c' | .blank => 'b'))

def handleM (w : String) : String :=
  let ks := w.toList.filterMap (fun c => match c with
    | 'e' => some M.el | 'c' => some M.comment | 'n' => some M.nl | _ => none)
  String.ofList ((fmtM 0 ks).map (fun k => match k with | .el => 'e' | .comment => 'c' | .nl => 'n'))

end EvyV.LayoutDrv
