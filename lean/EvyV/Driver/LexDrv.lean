import EvyV.Model.Lexer
import EvyV.Driver.Util
/-
Driver component `lex`: request `lex <hex input> <hex non-ASCII letters> <hex non-ASCII digits>`
(`-` for an empty string), answer: `name:offset:line:col` for every token.
-/
namespace EvyV.LexDrv
open EvyV.Lexer EvyV.Util

def ttName : TT → String
  | .illegal => "ILLEGAL" | .eof => "EOF" | .comment => "COMMENT" | .ident => "IDENT" | .numLit => "NUM_LIT"
  | .stringLit => "STRING_LIT" | .declare => "DECLARE" | .assign => "ASSIGN" | .plus => "PLUS" | .minus => "MINUS"
  | .bang => "BANG" | .asterisk => "ASTERISK" | .slash => "SLASH" | .percent => "PERCENT" | .eq => "EQ"
  | .notEq => "NOT_EQ" | .lt => "LT" | .gt => "GT" | .ltEq => "LTEQ" | .gtEq => "GTEQ" | .lparen => "LPAREN"
  | .rparen => "RPAREN" | .lbracket => "LBRACKET" | .rbracket => "RBRACKET" | .lcurly => "LCURLY" | .rcurly => "RCURLY"
  | .colon => "COLON" | .ws => "WS" | .nl => "NL" | .dot => "DOT" | .dot3 => "DOT3"
  | .keyword s => "kw:" ++ s

def arg (w : String) : Option String := if w == "-" then some "" else strOfHex w

def handle (ws : List String) : String :=
  match ws with
  | [i, l, d] =>
    match arg i, arg l, arg d with
    | some inp, some letters, some digits =>
      let ls := letters.toList
      let ds := digits.toList
      let cl : Classes :=
        { isULetter := fun c => ('a' ≤ c && c ≤ 'z') || ('A' ≤ c && c ≤ 'Z') || ls.contains c,
          isUDigit := fun c => ('0' ≤ c && c ≤ '9') || ds.contains c }
      let toks := lex inp.toList.toArray cl
      " ".intercalate (toks.map (fun t => s!"{ttName t.tt}:{t.offset}:{t.line}:{t.col}"))
    | _, _, _ => "ERR bad lex request"
  | _ => "ERR bad lex request"

end EvyV.LexDrv
