import EvyV.Model.MapVal
import EvyV.Spec.OrderedDict
/-
Driver component `map`: runs a history of map operations on the ImplModel
(`MapVal Nat`) and on the specification (`Spec.Dict Nat`) and renders what the
corresponding evy program prints.
-/
namespace EvyV.MapDrv
open EvyV

inductive Cmd
  | set (k : Key) (v : Nat)
  | setLoopKey (v : Nat)      -- m[k] = v with the loop variable as key
  | del (k : Key)
  | delLoopKey
  | print
  | get (k : Key)
  | has (k : Key)
  | len
  | range (body : List Cmd)   -- body: only set/del forms (and the implicit `print k`)

def tok (c : List Char) : String := String.ofList c

/-- parse: words; `range[ ... ]` nesting by "[" and "]" words -/
partial def parseCmds : List String → List Cmd → (List Cmd × List String)
  | [], acc => (acc.reverse, [])
  | "]" :: rest, acc => (acc.reverse, rest)
  | "set" :: k :: v :: rest, acc => parseCmds rest (.set k.toList v.toNat! :: acc)
  | "setk" :: v :: rest, acc => parseCmds rest (.setLoopKey v.toNat! :: acc)
  | "del" :: k :: rest, acc => parseCmds rest (.del k.toList :: acc)
  | "delk" :: rest, acc => parseCmds rest (.delLoopKey :: acc)
  | "print" :: rest, acc => parseCmds rest (.print :: acc)
  | "get" :: k :: rest, acc => parseCmds rest (.get k.toList :: acc)
  | "has" :: k :: rest, acc => parseCmds rest (.has k.toList :: acc)
  | "len" :: rest, acc => parseCmds rest (.len :: acc)
  | "range[" :: rest, acc =>
    let (body, rest') := parseCmds rest []
    parseCmds rest' (.range body :: acc)
  | _ :: rest, acc => parseCmds rest acc

def renderEntries (es : List (Key × Nat)) : String :=
  "{" ++ " ".intercalate (es.map (fun p => tok p.1 ++ ":" ++ toString p.2)) ++ "}"

/-- body of a range loop as a map transformer (model side) -/
def bodyImpl (body : List Cmd) (k : Key) (m : MapVal Nat) : MapVal Nat :=
  body.foldl (fun m c => match c with
    | .set k' v => m.setKey k' v
    | .setLoopKey v => m.setKey k v
    | .del k' => m.delete k'
    | .delLoopKey => m.delete k
    | _ => m) m

def bodySpec (body : List Cmd) (k : Key) (d : Spec.Dict Nat) : Spec.Dict Nat :=
  body.foldl (fun d c => match c with
    | .set k' v => Spec.Dict.set d k' v
    | .setLoopKey v => Spec.Dict.set d k v
    | .del k' => Spec.Dict.del d k'
    | .delLoopKey => Spec.Dict.del d k
    | _ => d) d

/-- returns output lines and whether it ended in the mapKey panic / gopanic -/
def runImpl : List Cmd → MapVal Nat → List String → (List String × String)
  | [], _, out => (out.reverse, "ok")
  | c :: rest, m, out =>
    match c with
    | .set k v => runImpl rest (m.setKey k v) out
    | .del k => runImpl rest (m.delete k) out
    | .setLoopKey _ | .delLoopKey => runImpl rest m out
    | .print => match m.entries with
      | some es => runImpl rest m (renderEntries es :: out)
      | none => (out.reverse, "gopanic")
    | .get k => match m.get k with
      | some v => runImpl rest m (toString v :: out)
      | none => (out.reverse, "panic:mapKey")
    | .has k => runImpl rest m (toString (m.has k) :: out)
    | .len => runImpl rest m (toString m.len :: out)
    | .range body =>
      let (vis, m') := mapRange (bodyImpl body) m
      runImpl rest m' ((vis.map tok).reverse ++ out)

def runSpec : List Cmd → Spec.Dict Nat → List String → (List String × String)
  | [], _, out => (out.reverse, "ok")
  | c :: rest, d, out =>
    match c with
    | .set k v => runSpec rest (Spec.Dict.set d k v) out
    | .del k => runSpec rest (Spec.Dict.del d k) out
    | .setLoopKey _ | .delLoopKey => runSpec rest d out
    | .print => runSpec rest d (renderEntries d :: out)
    | .get k => match Spec.Dict.get d k with
      | some v => runSpec rest d (toString v :: out)
      | none => (out.reverse, "panic:mapKey")
    | .has k => runSpec rest d (toString (Spec.Dict.has d k) :: out)
    | .len => runSpec rest d (toString (Spec.Dict.len d) :: out)
    | .range body =>
      let (vis, d') := Spec.Dict.rangeLoop (bodySpec body) (Spec.Dict.keys d) d
      runSpec rest d' ((vis.map tok).reverse ++ out)

def handle (ws : List String) : String :=
  let (cmds, _) := parseCmds ws []
  let (o1, r1) := runImpl cmds MapVal.empty []
  let (o2, r2) := runSpec cmds [] []
  "impl=" ++ r1 ++ " " ++ "|".intercalate o1 ++ " spec=" ++ r2 ++ " " ++ "|".intercalate o2

end EvyV.MapDrv
