import EvyV.Model.Interp
import EvyV.Model.Static
import EvyV.Model.Check
import EvyV.Driver.FloatOps
import EvyV.Driver.Util
/-
Driver component `eval`: reads the serialised real AST (harness/hx/ser.go), runs
the evaluator model with the oracle table, renders the observables.
Not used by any theorem.
-/
namespace EvyV.EvalDrv
open EvyV EvyV.Util

inductive SX
  | atom (s : String)
  | list (xs : List SX)
  deriving Inhabited

partial def tokenize (s : String) : List String := Id.run do
  let mut out : Array String := #[]
  let mut cur : String := ""
  for c in s.toList do
    if c == '(' || c == ')' then
      if cur != "" then out := out.push cur; cur := ""
      out := out.push (String.singleton c)
    else if c == ' ' then
      if cur != "" then out := out.push cur; cur := ""
    else cur := cur.push c
  if cur != "" then out := out.push cur
  return out.toList

partial def parseSXs : List String → List SX → (List SX × List String)
  | [], acc => (acc.reverse, [])
  | ")" :: rest, acc => (acc.reverse, rest)
  | "(" :: rest, acc =>
    let (inner, rest') := parseSXs rest []
    parseSXs rest' (SX.list inner :: acc)
  | a :: rest, acc => parseSXs rest (SX.atom a :: acc)

def parseAll (s : String) : List SX := (parseSXs (tokenize s) []).1

def hexStr (a : String) : Str :=
  -- "s<hex>"
  match strOfHex (a.drop 1).toString with
  | some s => s.toList
  | none => []

partial def toTy : SX → Ty
  | .atom "num" => .num | .atom "str" => .str | .atom "bool" => .bool | .atom "any" => .any
  | .atom "none" => .none | .atom "earr" => .earr | .atom "emap" => .emap | .atom "garr" => .garr
  | .atom "gmap" => .gmap
  | .list [.atom "arr", t] => .arr (toTy t)
  | .list [.atom "map", t] => .map (toTy t)
  | _ => .none

def toOp (s : String) : Op :=
  match s with
  | "+" => .plus | "-" => .minus | "/" => .slash | "*" => .asterisk | "%" => .percent
  | "or" => .or | "and" => .and | "==" => .eq | "!=" => .neq | "<" => .lt | ">" => .gt
  | "<=" => .lteq | ">=" => .gteq | "!" => .bang | _ => .other

partial def toExpr : SX → Expr Float
  | .list [.atom "N", .atom n] => .num ((floatOfHex (n.drop 1).toString).getD 0)
  | .list [.atom "S", .atom s] => .str (hexStr s)
  | .list [.atom "B", .atom b] => .bool (b == "t")
  | .list [.atom "V", .atom n] => .var (hexStr n)
  | .list [.atom "ANY", t, e] => .any (toTy t) (toExpr e)
  | .list (.atom "ARR" :: es) => .arr (es.map toExpr)
  | .list (.atom "MAP" :: ps) => .mapLit (ps.filterMap (fun p => match p with
      | .list [.atom k, e] => some (hexStr k, toExpr e) | _ => none))
  | .list (.atom "CALL" :: .atom n :: args) => .call (hexStr n) (args.map toExpr)
  | .list [.atom "UN", .atom op, e] => .unary (toOp op) (toExpr e)
  | .list [.atom "BIN", .atom op, l, r] => .binary (toOp op) (toExpr l) (toExpr r)
  | .list [.atom "IDX", l, i] => .index (toExpr l) (toExpr i)
  | .list [.atom "SLICE", l, s, e] => .slice (toExpr l) (toOptExpr s) (toOptExpr e)
  | .list [.atom "DOT", l, .atom k] => .dot (toExpr l) (hexStr k)
  | .list [.atom "GRP", e] => .group (toExpr e)
  | .list [.atom "AS", t, e] => .assert (toTy t) (toExpr e)
  | _ => .str []
where toOptExpr : SX → Option (Expr Float)
  | .atom "-" => none
  | e => some (toExpr e)

partial def toStmt : SX → Stmt Float
  | .list [.atom "DECL", .atom n, e] => .decl (hexStr n) (toExpr e)
  | .list [.atom "ASSIGN", t, v] => .assign (toExpr t) (toExpr v)
  | .list [.atom "CALLS", e] => .callS (toExpr e)
  | .list [.atom "RET", .atom "-"] => .ret none
  | .list [.atom "RET", e] => .ret (some (toExpr e))
  | .list [.atom "BRK"] => .brk
  | .list [.atom "IF", .list conds, els] =>
    .ifS (conds.filterMap (fun c => match c with
      | .list (c :: body) => some (toExpr c, body.map toStmt) | _ => none))
      (match els with | .list (.atom "ELSE" :: body) => some (body.map toStmt) | _ => none)
  | .list (.atom "WHILE" :: c :: body) => .whileS (toExpr c) (body.map toStmt)
  | .list (.atom "FOR" :: lv :: ty :: range :: body) =>
    let lvo := match lv with | .atom "-" => none | .atom n => some (hexStr n) | _ => none
    let r : ForRange Float := match range with
      | .list [.atom "STEP", a, b, c] =>
        .step (match a with | .atom "-" => none | e => some (toExpr e)) (toExpr b)
              (match c with | .atom "-" => none | e => some (toExpr e))
      | .list [.atom "OVER", e] => .over (toExpr e)
      | _ => .over (.str [])
    .forS lvo (toTy ty) r (body.map toStmt)
  | _ => .noop

def toProgram : SX → Program Float
  | .list (.atom "PROG" :: .list (.atom "FUNCS" :: fs) :: .list (.atom "HANDLERS" :: hs) :: stmts) =>
    { funcs := fs.filterMap (fun f => match f with
        | .list (.atom "FUNC" :: .atom n :: .list ps :: v :: body) =>
          some { name := hexStr n, params := ps.filterMap (fun p => match p with | .atom a => some (hexStr a) | _ => none),
                 variadic := (match v with | .atom "-" => none | .atom a => some (hexStr a) | _ => none),
                 body := body.map toStmt }
        | _ => none),
      handlers := hs.filterMap (fun h => match h with
        | .list (.atom "ON" :: .atom n :: .list ps :: body) =>
          some { name := hexStr n, params := ps.filterMap (fun p => match p with
                   | .list [.atom a, t] => some (hexStr a, toTy t) | _ => none),
                 body := body.map toStmt }
        | _ => none),
      stmts := stmts.map toStmt }
  | _ => { funcs := [], handlers := [], stmts := [] }

-- oracle table -------------------------------------------------------------

def toXArg : SX → XArg Float
  | .atom "t" => .bool true
  | .atom "f" => .bool false
  | .atom a =>
    if a.startsWith "n" then .num ((floatOfHex (a.drop 1).toString).getD 0)
    else .str (hexStr a)
  | .list (.atom "ns" :: xs) => .nums (xs.filterMap (fun x => match x with
      | .atom a => floatOfHex (a.drop 1).toString | _ => none))
  | .list (.atom "ss" :: xs) => .strs (xs.filterMap (fun x => match x with | .atom a => some (hexStr a) | _ => none))
  | _ => .bool false

def showX : XArg Float → String
  | .num v => "n" ++ hexOfFloat v
  | .str s => "s" ++ hexOfStr (String.ofList s)
  | .bool true => "t"
  | .bool false => "f"
  | .nums l => "(ns " ++ " ".intercalate (l.map (fun v => "n" ++ hexOfFloat v)) ++ ")"
  | .strs l => "(ss " ++ " ".intercalate (l.map (fun s => "s" ++ hexOfStr (String.ofList s))) ++ ")"

def showQuery (q : String × List (XArg Float)) : String :=
  "(" ++ q.1 ++ (q.2.foldl (fun acc a => acc ++ " " ++ showX a) "") ++ ")"

/-- table: list of (query string, answer) -/
def parseOracle (s : String) : List (String × List (XArg Float)) :=
  (parseAll s).filterMap (fun e => match e with
    | .list (.atom fn :: rest) =>
      let args := rest.takeWhile (fun x => match x with | .atom "=>" => false | _ => true)
      let res := (rest.dropWhile (fun x => match x with | .atom "=>" => false | _ => true)).drop 1
      some (showQuery (fn, args.map toXArg), res.map toXArg)
    | _ => none)

def mkExt (table : List (String × List (XArg Float))) : Ext Float :=
  { call := fun f args => table.lookup (showQuery (f, args)) }

-- rendering of observables --------------------------------------------------

def showOutcome : Outcome → String
  | .panic k => "panic:" ++ (match k with
    | .indexValue => "indexValue" | .bounds => "bounds" | .rangeValue => "rangeValue" | .mapKey => "mapKey"
    | .slice => "slice" | .badArgs => "badArgs" | .badRepetition => "badRepetition"
    | .anyConversion => "anyConversion" | .varNotSet => "varNotSet" | .user => "user")
  | .exit c => s!"exit:{c}"
  | .stopped => "stopped"
  | .internal w => if w == "ErrTest" then "testfail" else "internal:" ++ w.replace " " "_"
  | .goPanic s => "gopanic:" ++ s.replace " " "_"
  | .timeout => "timeout"

def showResult : RunResult → String
  | .ok => "ok" | .testFail => "testfail" | .err o => showOutcome o

def showEffect : Effect Float → String
  | .print s => "(print s" ++ hexOfStr (String.ofList s) ++ ")"
  | .read => "(read)"
  | .cls => "(cls)"
  | .sleep n => s!"(sleep {n})"
  | .gfx name args => "(gfx " ++ name ++ (args.foldl (fun acc a => acc ++ " " ++ showX a) "") ++ ")"

def showGlobals (st : St Float) : String :=
  let names := (st.global.map (fun p => String.ofList p.1)).toArray.qsort (· < ·) |>.toList
  " ".intercalate (names.map (fun n =>
    let v := (scopeGet st.global n.toList).getD .none
    let r := (render floatOps st.heap (auxFuel st) v).getD (lit "<cyclic>")
    "(s" ++ hexOfStr n ++ " s" ++ hexOfStr (String.ofList r) ++ ")"))

def optVal (opts : List String) (key : String) : Option String :=
  opts.findSome? (fun o => if o.startsWith (key ++ "=") then some (o.drop (key.length + 1)).toString else none)

def toVal : SX → Val Float
  | .atom "t" => .bool true
  | .atom "f" => .bool false
  | .atom a => if a.startsWith "n" then .num ((floatOfHex (a.drop 1).toString).getD 0) else .str (hexStr a)
  | _ => .none

/-- request: eval|opts|prog|events|inputs|oracle -/
def handle (line : String) : String :=
  match line.splitOn "|" with
  | [_, optS, progS, evS, inS, orS] =>
    let opts := words optS
    let prog := match parseAll progS with | [p] => toProgram p | _ => { funcs := [], handlers := [], stmts := [] }
    if optVal opts "tcheck" == some "1" then
      -- the type checker of Model/Check.lean on the serialised AST, with the function signatures
      -- (events field) and the global types (inputs field) of the real parser
      let sigs : List (Str × TS.FSig) := (parseAll evS).filterMap (fun x => match x with
        | .list [.atom n, .list ps, r] =>
          some (hexStr n, { params := ps.map toTy, ret := (match r with | .atom "-" => none | t => some (toTy t)) })
        | .list [.atom n, .list ps, r, v] =>
          some (hexStr n, { params := ps.map toTy, ret := (match r with | .atom "-" => none | t => some (toTy t)),
                            variadic := (match v with | .atom "-" => none | t => some (toTy t)) })
        | _ => none)
      let globals : List (Str × Ty) := (parseAll inS).filterMap (fun x => match x with
        | .list [.atom n, t] => some (hexStr n, toTy t)
        | _ => none)
      let gl := globals ++ [(lit "err", Ty.bool), (lit "errmsg", Ty.str), (lit "pi", Ty.num)]
      let fuel := 100000
      let badFn := sigs.filter (fun p =>
        !(match lookupFunc prog.funcs p.1 with
          | some fd => TS.tcB (TS.fenvOf sigs) (TS.envOf gl) p.2.ret fuel [TS.paramScope fd.params p.2.params []] fd.body
          | none => false))
      if TS.checkProg sigs gl prog fuel then "TC ok"
      else "TC no" ++ String.join (badFn.map (fun p => " fn:" ++ String.ofList p.1)) ++
        (if TS.tcB (TS.fenvOf sigs) (TS.envOf gl) none fuel [] prog.stmts then "" else " top")
    else if optVal opts "terms" == some "2" then
      "FNOK " ++ String.ofList (prog.funcs.flatMap (fun f =>
        [if blockTerms f.body then '1' else '0', if fnOkB false f.body then '1' else '0']))
    else if optVal opts "terms" == some "1" then
      "TERMS " ++ String.ofList ((flagsProgram prog).map (fun b => if b then '1' else '0'))
    else
    let table := parseOracle orS
    let ext := mkExt table
    let fuel := ((optVal opts "fuel").bind String.toNat?).getD 200000
    let st0 : St Float := {
      global := initGlobals (Float.ofBits 0x400921FB54442D18),
      stopAt := (optVal opts "stopAt").bind String.toNat?,
      failFast := optVal opts "failFast" == some "1",
      noSummary := optVal opts "noSummary" == some "1",
      input := (words inS).map hexStr }
    let (r0, st1) := runProgram floatOps ext prog fuel st0
    -- events are delivered only after Eval returned without error
    let events := parseAll evS
    let (r, st) := events.foldl (fun (acc : RunResult × St Float) ev =>
      match acc.1, ev with
      | .ok, .list (.atom "EV" :: .atom n :: vals) =>
        handleEvent floatOps ext prog fuel (hexStr n) (vals.map toVal) acc.2
      | _, _ => acc) (r0, st1)
    if !st.misses.isEmpty then
      "MISS " ++ " ".intercalate ((st.misses.map showQuery).eraseDups)
    else
      "RES " ++ showResult r ++ " | " ++ " ".intercalate (st.trace.reverse.map showEffect) ++ " | " ++
        showGlobals st ++ " | yields=" ++ toString st.yields
  | _ => "ERR eval request"

end EvyV.EvalDrv
