import EvyV.Model.StmtVM
import EvyV.Driver.ExprDrv
/- Driver component `stmtvm`: statements (prefix wire form) → model bytecode with instruction-index jump
targets, the model VM's final globals, the model evaluator's final globals. -/
namespace EvyV.StmtDrv
open EvyV EvyV.ExprVM EvyV.StmtVM EvyV.Util EvyV.ExprDrv

mutual
partial def parseS : List String → Option (S Float × List String)
  | "as" :: i :: rest =>
    match i.toNat?, parseE rest with
    | some i, some (e, r) => some (.assign i e, r)
    | _, _ => none
  | "br" :: rest => some (.brk, rest)
  | "wh" :: rest =>
    match parseE rest with
    | some (c, "{" :: r) =>
      match parseB r with
      | some (b, r') => some (.whileS c b, r')
      | none => none
    | _ => none
  | "if" :: rest =>
    match parseConds ("ei" :: rest) with
    | some (cs, "el" :: "{" :: r) =>
      match parseB r with
      | some (els, "fi" :: r') => some (.ifS cs els, r')
      | _ => none
    | _ => none
  | _ => none
/-- statements up to the closing brace -/
partial def parseB : List String → Option (List (S Float) × List String)
  | "}" :: rest => some ([], rest)
  | ws =>
    match parseS ws with
    | some (s, r) =>
      match parseB r with
      | some (ss, r') => some (s :: ss, r')
      | none => none
    | none => none
partial def parseConds : List String → Option (List (E Float × List (S Float)) × List String)
  | "ei" :: rest =>
    match parseE rest with
    | some (c, "{" :: r) =>
      match parseB r with
      | some (b, r') =>
        match parseConds r' with
        | some (cs, r'') => some ((c, b) :: cs, r'')
        | none => none
      | none => none
    | _ => none
  | ws => some ([], ws)
end

def showJ : J Float → String
  | .op i => showI i
  | .setGlobal i => s!"OpSetGlobal:{i}"
  | .jump t => s!"OpJump:{t}"
  | .jof t => s!"OpJumpOnFalse:{t}"

def showG (g : List (V Float)) : String := "/".intercalate (g.map showV)

/-- request: `stmtvm <globals…> | <stmts…> }` -/
def handle (ws : List String) : String :=
  let gs := ws.takeWhile (· ≠ "|")
  let ss := (ws.dropWhile (· ≠ "|")).drop 1
  let g := parseGlobals gs
  match parseB ss with
  | some (prog, []) =>
    let code := compile prog
    let vm := match run floatOps code 2000000 ⟨0, [], g⟩ with
      | .halted g' => showG g'
      | .error .divZero => "divzero"
      | .error .typeOrUnderflow => "typeerror"
      | .outOfFuel => "fuel"
    let ev := match execB floatOps 100000 g prog with
      | some (.normal, g') => showG g'
      | some (.brk, _) => "brk"
      | none => "none"
    "code=" ++ ",".intercalate (code.map showJ) ++ " vm=" ++ vm ++ " eval=" ++ ev
  | _ => "ERR parse"

end EvyV.StmtDrv
