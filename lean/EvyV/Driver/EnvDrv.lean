import EvyV.Model.Envelope
import EvyV.Driver.Util
/- Driver components `envsplit` (header arithmetic of hybridDecrypt) and `verifychoice`. -/
namespace EvyV.EnvDrv
open EvyV.Envelope EvyV.Util

/-- a crypto whose RSA and AES always "succeed" and echo their input, to expose the split -/
def echo : Crypto where
  Pub := Unit
  Priv := Unit
  rsaEnc := fun _ m _ => m
  rsaDec := fun _ m => some m
  gcmSeal := fun _ m => m
  gcmOpen := fun _ m => some (m)

/-- request: envsplit <total length> <b1> <b2>  (bytes 1 and 2 of the envelope) → tooShort | split <rsaLen> <aesLen> -/
def handleSplit (ws : List String) : String :=
  match ws.map String.toNat? with
  | [some n, some hi, some lo] =>
    -- build an envelope of n zero bytes with the given header bytes
    let env : Bytes := (List.range n).map (fun i => if i == 1 then hi else if i == 2 then lo else 0)
    match decrypt echo () env with
    | .error .tooShort => "tooShort"
    | .error _ => "err"
    | .ok aes =>
      let rsaLen := readU16 hi lo
      s!"split {rsaLen} {aes.length}"
  | _ => "ERR args"

/-- request: verifychoice <marked bits e.g. 1010> <gen> <out0> <out1> ... -/
def handleVerify (ws : List String) : String :=
  match ws with
  | bits :: gen :: outs =>
    let b := bits.toList
    let marked : Nat → Bool := fun i => b[i]? == some '1'
    if verifyChoice marked 26 gen outs then "ok" else "wrong"
  | _ => "ERR args"

end EvyV.EnvDrv
