import EvyV.Spec.Canvas
import EvyV.Gen.Svg
import EvyV.Driver.Util
import EvyV.Driver.FloatOps
/-
Driver component `svg`: runs a command sequence through the SVG model (with the quirks extracted
from runtime.go) and through the canvas specification and prints both flattened shape lists.

request : svg <fuel> <cmd> ; <cmd> ; ...      numbers are hex float bits, strings `s:`+hex UTF-8
answer  : <model shapes> ## <spec shapes> ## <grid loops finish: true|false>
-/
namespace EvyV.SvgDrv
open EvyV.Svg EvyV.Util

abbrev F := Float

def quirks : Quirks :=
  { ellipseYUsesX := Gen.ellipseYTransform == "rt.transformX", baselineRaw := Gen.baselineRawOverwrite }

def pstr (w : String) : Option Str :=
  if w.startsWith "s:" then (strOfHex (w.drop 2).toString).map String.toList else none

def splitCmds (ws : List String) : List (List String) :=
  let rec go (ws : List String) (cur : List String) (acc : List (List String)) : List (List String) :=
    match ws with
    | [] => (if cur.isEmpty then acc else cur.reverse :: acc).reverse
    | ";" :: rest => go rest [] (if cur.isEmpty then acc else cur.reverse :: acc)
    | w :: rest => go rest (w :: cur) acc
  go ws [] []

def pairs : List F → List (F × F)
  | a :: b :: rest => (a, b) :: pairs rest
  | _ => []

def parseFont (ws : List String) : Option (FontProps F) :=
  ws.foldlM (fun (p : FontProps F) w =>
    match w.splitOn "=" with
    | ["family", v] => (pstr v).map (fun s => { p with family := some s })
    | ["style", v] => (pstr v).map (fun s => { p with style := some s })
    | ["baseline", v] => (pstr v).map (fun s => { p with baseline := some s })
    | ["align", v] => (pstr v).map (fun s => { p with align := some s })
    | ["size", v] => (floatOfHex v).map (fun f => { p with size := some f })
    | ["weight", v] => (floatOfHex v).map (fun f => { p with weight := some f })
    | ["spacing", v] => (floatOfHex v).map (fun f => { p with spacing := some f })
    | _ => none) {}

def parseCmd : List String → Option (Cmd F)
  | ["move", x, y] => do pure (.move (← floatOfHex x) (← floatOfHex y))
  | ["line", x, y] => do pure (.line (← floatOfHex x) (← floatOfHex y))
  | ["rect", w, h] => do pure (.rect (← floatOfHex w) (← floatOfHex h))
  | ["circle", r] => do pure (.circle (← floatOfHex r))
  | ["clear", c] => do pure (.clear (← pstr c))
  | "poly" :: rest => do pure (.poly (pairs (← rest.mapM floatOfHex)))
  | ["ellipse", x, y, rx, ry, rot] => do
    pure (.ellipse (← floatOfHex x) (← floatOfHex y) (← floatOfHex rx) (← floatOfHex ry) (← floatOfHex rot))
  | ["text", s] => do pure (.text (← pstr s))
  | ["gridn", u, c] => do pure (.gridn (← floatOfHex u) (← pstr c))
  | ["width", w] => do pure (.width (← floatOfHex w))
  | ["color", c] => do pure (.color (← pstr c))
  | ["stroke", c] => do pure (.stroke (← pstr c))
  | ["fill", c] => do pure (.fill (← pstr c))
  | "dash" :: rest => do pure (.dash (← rest.mapM floatOfHex))
  | ["linecap", c] => do pure (.linecap (← pstr c))
  | "font" :: rest => (parseFont rest).map .font
  | _ => none

def num (f : F) : String := String.ofList (floatOps.fmt f)
def hs (s : Str) : String := "s:" ++ hexOfStr (String.ofList s)

def showGeo : Geo F → String
  | .line a b c d => s!"line {num a} {num b} {num c} {num d}"
  | .rect x y w h => s!"rect {num x} {num y} {hs w} {hs h}"
  | .circle x y r => s!"circle {num x} {num y} {num r}"
  | .polyline p => s!"polyline {hs p}"
  | .ellipse x y rx ry none => s!"ellipse {num x} {num y} {num rx} {num ry} -"
  | .ellipse x y rx ry (some (r, a, b)) => s!"ellipse {num x} {num y} {num rx} {num ry} {hexOfFloat r},{hexOfFloat a},{hexOfFloat b}"
  | .text x y s => s!"text {num x} {num y} {hs s}"

def showStyle (s : Style F) : String :=
  s!"fill={hs s.fill} stroke={hs s.stroke} width={num s.width} cap={hs s.linecap} dash={hs s.dash}"

def showT (t : TStyle F) : String :=
  s!"anchor={hs t.anchor} baseline={hs t.baseline} size={num t.size} weight={num t.weight} style={hs t.style} family={hs t.family} spacing={hs t.spacing}"

def showShape : Shape F → String
  | .leaf s none g => s!"{showGeo g} {showStyle s}"
  | .leaf s (some t) g => s!"{showGeo g} {showStyle s} {showT t}"
  | .grid c lines =>
    let ls := lines.map (fun l => s!"{num l.x1},{num l.y1},{num l.x2},{num l.y2},{if l.thick then 1 else 0}")
    s!"grid stroke={hs c} n={lines.length} {" ".intercalate ls}"

def showShapes (l : List (Shape F)) : String := " ;; ".intercalate (l.map showShape)

def handle (ws : List String) : String :=
  match ws with
  | fuel :: rest =>
    match fuel.toNat?, (splitCmds rest).mapM parseCmd with
    | some fuel, some cmds =>
      let model := flatten floatOps (writeSVG floatOps (run floatOps quirks fuel cmds))
      let spec := Spec.run floatOps fuel cmds
      let fin := cmds.all (fun c => match c with
        | .gridn u _ => gridFinishes floatOps (tx floatOps u) fuel floatOps.zero
        | _ => true)
      s!"{showShapes model} ## {showShapes spec} ## {fin}"
    | _, _ => "ERR bad svg request"
  | _ => "ERR bad svg request"

end EvyV.SvgDrv
