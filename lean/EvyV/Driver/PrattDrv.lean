import EvyV.Model.Pratt
import EvyV.Model.PrattW
import EvyV.Model.PrattFmt
/-
Driver component `pratt`: request `pratt <token type names>` (operands as `a`), answer: the tree the
parser model returns and the number of tokens left, or NONE.
-/
namespace EvyV.PrattDrv
open EvyV.Pratt

def sym : BinOp → String
  | .or => "or" | .and => "and" | .eq => "==" | .neq => "!=" | .lt => "<" | .gt => ">"
  | .le => "<=" | .ge => ">=" | .plus => "+" | .minus => "-" | .star => "*"
  | .slash => "/" | .percent => "%"

def tokOf (i : Nat) (w : String) : Tok :=
  match BinOp.all.find? (fun o => o.tokName == w) with
  | some o => .op o
  | none =>
    if w == "a" then .atom i
    else if w == "BANG" then .bang
    else if w == "LPAREN" then .lparen
    else if w == "RPAREN" then .rparen
    else if w == "LBRACKET" then .lbracket
    else if w == "RBRACKET" then .rbracket
    else if w == "DOT" then .dot
    else if w == "COLON" then .colon
    else if w == "ty" then .ty i
    else .other

def render : E → String
  | .atom _ => "a"
  | .un .neg e => "(-" ++ render e ++ ")"
  | .un .not e => "(!" ++ render e ++ ")"
  | .bin o l r => "(" ++ render l ++ " " ++ sym o ++ " " ++ render r ++ ")"
  | .group e => "(G " ++ render e ++ ")"
  | .index l i => "(" ++ render l ++ " [ " ++ render i ++ " ])"
  | .sliceAll l => "(" ++ render l ++ " [ : ])"
  | .sliceTo l b => "(" ++ render l ++ " [ : " ++ render b ++ " ])"
  | .sliceFrom l a => "(" ++ render l ++ " [ " ++ render a ++ " : ])"
  | .slice l a b => "(" ++ render l ++ " [ " ++ render a ++ " : " ++ render b ++ " ])"
  | .dot l _ => "(" ++ render l ++ " . a)"
  | .assert l _ => "(" ++ render l ++ " .( ty ))"

def handle (ws : List String) : String :=
  let ts := (ws.zipIdx).map (fun (w, i) => tokOf i w)
  match parse ts with
  | some (e, rest) => s!"TREE {rest.length} {render e}"
  | none => "NONE"

/-- `prattw <mode> <tokens>`: tokens as for `pratt`, a leading `_` = whitespace before the token;
mode `0`: one expression outside a whitespace-sensitive context, `args`: parseExprList -/
def wtokOf (i : Nat) (w : String) : WTok :=
  if w.startsWith "_" then ⟨true, tokOf i (w.drop 1).toString⟩ else ⟨false, tokOf i w⟩

def handleW (ws : List String) : String :=
  match ws with
  | mode :: rest =>
    let ts := (rest.zipIdx).map (fun (w, i) => wtokOf i w)
    if mode == "args" then
      match argsW (ts.length + 1) ts with
      | some es => "ARGS " ++ " | ".intercalate (es.map render)
      | none => "NONE"
    else
      match parseW false ts with
      | some (e, r) => s!"TREE {r.length} {render e}"
      | none => "NONE"
  | [] => "bad-op"

/-- `layoutw <mode> <tokens>`: the formatter model's layout (Model/PrattFmt.lean) of the tree(s) the parser model
reads, in the wire form of the request -/
def kindName : Tok → String
  | .atom _ => "a" | .op o => o.tokName | .bang => "BANG" | .lparen => "LPAREN" | .rparen => "RPAREN"
  | .lbracket => "LBRACKET" | .rbracket => "RBRACKET" | .dot => "DOT" | .colon => "COLON" | .ty _ => "ty" | .other => "other"

def wire (ts : List WTok) : String :=
  " ".intercalate (ts.map (fun t => (if t.ws then "_" else "") ++ kindName t.tok))

def handleLayout (ws : List String) : String :=
  match ws with
  | mode :: rest =>
    let ts := (rest.zipIdx).map (fun (w, i) => wtokOf i w)
    if mode == "args" then
      match argsW (ts.length + 1) ts with
      | some es => "LAYOUT " ++ wire ((es.zipIdx).flatMap (fun (e, i) => layout true (i > 0) e))
      | none => "NONE"
    else
      match parseW false ts with
      | some (e, _) => "LAYOUT " ++ wire (layout false false e)
      | none => "NONE"
  | [] => "bad-op"

end EvyV.PrattDrv
