import EvyV.Model.Num
/-
The driver's instance of `NumOps`: IEEE-754 binary64 via Lean's `Float`
(bit-exact with Go for + - * / and comparisons), Go's `int(f)` on amd64, and
`strconv.FormatFloat(f, 'f', -1, 64)` re-implemented with exact big-integer
arithmetic (free-format shortest digits, Steele-White / Burger-Dybvig).
This file is *not* used by any theorem; it is validated against Go by the
correspondence check (component `fmtnum`, `toint`).
-/
namespace EvyV.FloatOps

def two63 : Nat := 9223372036854775808

/-- sign, mantissa, exponent with value = (-1)^s * m * 2^e; none for NaN/Inf. -/
def decode (f : Float) : Option (Bool × Nat × Int) :=
  let b : Nat := f.toBits.toNat
  let s : Bool := b / 2^63 == 1
  let ex : Nat := (b / 2^52) % 2048
  let fr : Nat := b % 2^52
  if ex == 2047 then none
  else if ex == 0 then some (s, fr, -1074)
  else some (s, fr + 2^52, (Int.ofNat ex) - 1075)

/-- Go `int(f)` on amd64 (CVTTSD2SQ): truncate toward zero; NaN and values
outside int64 give -2^63. -/
def goToInt (f : Float) : Int :=
  match decode f with
  | none => -(two63 : Int)
  | some (s, m, e) =>
    let mag : Nat := if e ≥ 0 then m * 2 ^ e.toNat else m / 2 ^ (-e).toNat
    if s then (if mag ≤ two63 then -(mag : Int) else -(two63 : Int))
    else (if mag < two63 then (mag : Int) else -(two63 : Int))

/-- exact `float64(i)` for an int64 `i` (round to nearest even above 2^53). -/
def ofNatRounded (n : Nat) : Float :=
  if n < 2^53 then Float.ofNat n
  else
    let bl := n.log2 + 1          -- bit length
    let sh := bl - 53
    let q := n / 2^sh
    let r := n % 2^sh
    let half := 2^(sh-1)
    let q' := if r > half then q + 1 else if r < half then q else (if q % 2 == 1 then q + 1 else q)
    (Float.ofNat q').scaleB (Int.ofNat sh)

def goOfInt (i : Int) : Float :=
  if i < 0 then -(ofNatRounded i.natAbs) else ofNatRounded i.natAbs


/-- shortest digits: returns (digits, k) with value = 0.d1d2… × 10^k -/
def shortest (m : Nat) (e : Int) : List Nat × Int := Id.run do
  let incl := m % 2 == 0
  let boundary := m == 2^52 && e > -1074
  let mut r : Nat := 0
  let mut s : Nat := 0
  let mut mp : Nat := 0
  let mut mm : Nat := 0
  if e ≥ 0 then
    let be := 2 ^ e.toNat
    if !boundary then
      r := m * be * 2; s := 2; mp := be; mm := be
    else
      r := m * be * 4; s := 4; mp := be * 2; mm := be
  else
    let be := 2 ^ (-e).toNat
    if !boundary then
      r := m * 2; s := be * 2; mp := 1; mm := 1
    else
      r := m * 4; s := be * 4; mp := 2; mm := 1
  -- estimate k = ceil(log10 v)
  let bl : Int := (m.log2 : Int) + 1 + e
  let mut k : Int := (bl * 30103) / 100000
  -- scale
  if k ≥ 0 then s := s * 10 ^ k.toNat
  else
    let p := 10 ^ (-k).toNat
    r := r * p; mp := mp * p; mm := mm * p
  -- fix up: want (r+mp)/s in (0.1, 1]  resp. [0.1,1)
  for _ in [0:400] do
    let hi := r + mp
    if (incl && hi ≥ s) || (!incl && hi > s) then
      s := s * 10; k := k + 1
    else break
  for _ in [0:400] do
    let hi := (r + mp) * 10
    if (incl && hi < s) || (!incl && hi ≤ s) then
      r := r * 10; mp := mp * 10; mm := mm * 10; k := k - 1
    else break
  let mut ds : Array Nat := #[]
  for _ in [0:800] do
    let r10 := r * 10
    let d := r10 / s
    r := r10 % s
    mp := mp * 10; mm := mm * 10
    let tc1 := if incl then r ≤ mm else r < mm
    let tc2 := if incl then r + mp ≥ s else r + mp > s
    if !tc1 && !tc2 then
      ds := ds.push d
    else
      let d' :=
        if tc1 && !tc2 then d
        else if !tc1 && tc2 then d + 1
        else if r * 2 < s then d else if r * 2 > s then d + 1 else (if d % 2 == 0 then d else d + 1)
      ds := ds.push d'
      break
  return (ds.toList, k)

def digitChar (d : Nat) : Char := Char.ofNat (48 + d)

/-- strconv.FormatFloat(f, 'f', -1, 64) -/
def fmt (f : Float) : List Char :=
  match decode f with
  | none => if f.isNaN then "NaN".toList else if f > 0 then "+Inf".toList else "-Inf".toList
  | some (sgn, m, e) =>
    let pre := if sgn then ['-'] else []
    if m == 0 then pre ++ ['0']
    else
      let (ds, k) := shortest m e
      let n := ds.length
      let cs := ds.map digitChar
      if k ≤ 0 then pre ++ ['0', '.'] ++ List.replicate (-k).toNat '0' ++ cs
      else if k.toNat ≥ n then pre ++ cs ++ List.replicate (k.toNat - n) '0'
      else pre ++ cs.take k.toNat ++ ['.'] ++ cs.drop k.toNat

end EvyV.FloatOps

namespace EvyV
def floatOps : NumOps Float where
  add := (· + ·)
  sub := (· - ·)
  mul := (· * ·)
  div := (· / ·)
  neg := fun a => -a
  lt := fun a b => decide (a < b)
  le := fun a b => decide (a ≤ b)
  eq := fun a b => a == b
  toInt := FloatOps.goToInt
  ofInt := FloatOps.goOfInt
  fmt := FloatOps.fmt
end EvyV
