import EvyV.Model.Ctl
/-
Driver component `ctl`: request `ctl <n> <statement>*` in prefix form
  s | b | rv | rb | S <br|lp|ft|fp|h> <n> <statement>*n
(simple, break, return with / without value, scope: branch, loop, function with / without result type, handler);
answer ACCEPT or REJECT (Model/Ctl.lean chkProg), BAD for a malformed request.
-/
namespace EvyV.CtlDrv
open EvyV.Ctl

def kindOf : String → Option K
  | "br" => some .branch
  | "lp" => some .loop
  | "ft" => some (.func true)
  | "fp" => some (.func false)
  | "h" => some .handler
  | _ => none

mutual
def readS : Nat → List String → Option (St × List String)
  | 0, _ => none
  | _ + 1, "s" :: r => some (.simple, r)
  | _ + 1, "b" :: r => some (.brk, r)
  | _ + 1, "rv" :: r => some (.ret true, r)
  | _ + 1, "rb" :: r => some (.ret false, r)
  | f + 1, "S" :: k :: n :: r =>
    match kindOf k, n.toNat? with
    | some kd, some n => match readL f n r with
      | some (b, r') => some (.scope kd b, r')
      | none => none
    | _, _ => none
  | _ + 1, _ => none
def readL : Nat → Nat → List String → Option (Ss × List String)
  | 0, _, _ => none
  | _ + 1, 0, r => some (.nil, r)
  | f + 1, n + 1, r =>
    match readS f r with
    | some (s, r') => match readL f n r' with
      | some (ss, r'') => some (.cons s ss, r'')
      | none => none
    | none => none
end

def handle (ws : List String) : String :=
  match ws with
  | n :: r =>
    match n.toNat? with
    | some n =>
      match readL (2 * ws.length + 2) n r with
      | some (p, []) => if chkProg p then "ACCEPT" else "REJECT"
      | _ => "BAD"
    | none => "BAD"
  | [] => "BAD"

end EvyV.CtlDrv
