import EvyV.Model.Blocks
/-
Driver component `blocks`: request `blocks <line kinds>` (s b if elif else while for func on end), answer: the tree
the block parser model returns and the indentation levels its printer gives the lines, or NONE.
-/
namespace EvyV.BlocksDrv
open EvyV.Blocks

def kindOf (w : String) : L :=
  if w == "s" then .s else if w == "b" then .blank else if w == "if" then .ifL else if w == "elif" then .elifL
  else if w == "else" then .elseL else if w == "while" then .whileL else if w == "for" then .forL
  else if w == "func" then .funcL else if w == "on" then .onL else .endL

mutual
def rT : T → String
  | .simple => "s"
  | .blank => "b"
  | .whileT b => "(while " ++ rB b ++ ")"
  | .forT b => "(for " ++ rB b ++ ")"
  | .ifT f e none => "(if " ++ rB f ++ rBL e ++ ")"
  | .ifT f e (some b) => "(if " ++ rB f ++ rBL e ++ " else " ++ rB b ++ ")"
def rB : B → String
  | .nil => "."
  | .cons t r => rT t ++ " " ++ rB r
def rBL : BL → String
  | .nil => ""
  | .cons b r => " elif " ++ rB b ++ rBL r
end

def rTop : Top → String
  | .func b => "(func " ++ rB b ++ ")"
  | .on b => "(on " ++ rB b ++ ")"
  | .stmt t => rT t

def handle (ws : List String) : String :=
  match parseProgram (ws.map kindOf) with
  | some p => "TREE " ++ " ".intercalate (p.map rTop) ++ " | INDENT " ++ " ".intercalate ((printProgram p).map (fun x => toString x.1))
  | none => "NONE"

end EvyV.BlocksDrv
