import EvyV.Model.Scope
/-
Driver component `scope`: request `scope <n> <statement>*` in prefix form
  u <k> <name>*k                      use
  d <x> <k> <name>*k                  decl
  s <a> <name>*a <b> <name>*b <n> <statement>*n   scope ds hd body
answer: ACCEPT or REJECT (Model/Scope.lean chkProg), BAD for a malformed request.
-/
namespace EvyV.ScopeDrv
open EvyV.Scope

def takeNats : Nat → List String → Option (List Nat × List String)
  | 0, r => some ([], r)
  | n + 1, w :: r =>
    match w.toNat?, takeNats n r with
    | some v, some (vs, r') => some (v :: vs, r')
    | _, _ => none
  | _ + 1, [] => none

def counted : List String → Option (List Nat × List String)
  | w :: r => match w.toNat? with
    | some n => takeNats n r
    | none => none
  | [] => none

mutual
def readS : Nat → List String → Option (St × List String)
  | 0, _ => none
  | f + 1, "u" :: r =>
    match counted r with
    | some (us, r') => some (.use us, r')
    | none => none
  | f + 1, "d" :: x :: r =>
    match x.toNat?, counted r with
    | some x, some (us, r') => some (.decl x us, r')
    | _, _ => none
  | f + 1, "s" :: r =>
    match counted r with
    | some (ds, r1) =>
      match counted r1 with
      | some (hd, n :: r2) =>
        match n.toNat? with
        | some n => match readL f n r2 with
          | some (b, r3) => some (.scope ds hd b, r3)
          | none => none
        | none => none
      | _ => none
    | none => none
  | _ + 1, _ => none
def readL : Nat → Nat → List String → Option (Ss × List String)
  | 0, _, _ => none
  | _ + 1, 0, r => some (.nil, r)
  | f + 1, n + 1, r =>
    match readS f r with
    | some (s, r') => match readL f n r' with
      | some (ss, r'') => some (.cons s ss, r'')
      | none => none
    | none => none
end

def handle (ws : List String) : String :=
  match ws with
  | n :: r =>
    match n.toNat? with
    | some n =>
      match readL (2 * ws.length + 2) n r with
      | some (p, []) => if chkProg p then "ACCEPT" else "REJECT"
      | _ => "BAD"
    | none => "BAD"
  | [] => "BAD"

end EvyV.ScopeDrv
