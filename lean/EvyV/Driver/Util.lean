/- Driver utilities: hex, words. Not used by any theorem. -/
namespace EvyV.Util

def hexVal (c : Char) : Option Nat :=
  if '0' ≤ c ∧ c ≤ '9' then some (c.toNat - 48)
  else if 'a' ≤ c ∧ c ≤ 'f' then some (c.toNat - 87)
  else if 'A' ≤ c ∧ c ≤ 'F' then some (c.toNat - 55)
  else none

def parseHexNat (s : String) : Option Nat :=
  s.toList.foldlM (fun acc c => do let v ← hexVal c; pure (acc * 16 + v)) 0

def floatOfHex (s : String) : Option Float := do
  let n ← parseHexNat s
  pure (Float.ofBits (UInt64.ofNat n))

def hexDigit (n : Nat) : Char :=
  if n < 10 then Char.ofNat (48 + n) else Char.ofNat (87 + n)

def hexOfNat (n width : Nat) : String :=
  let rec go (n : Nat) (w : Nat) (acc : List Char) : List Char :=
    match w with
    | 0 => acc
    | w+1 => go (n / 16) w (hexDigit (n % 16) :: acc)
  String.ofList (go n width [])

def hexOfFloat (f : Float) : String :=
  let b := if f.isNaN then 0x7ff8000000000000 else f.toBits.toNat
  hexOfNat b 16

/-- hex-encoded UTF-8 bytes → String (none if invalid) -/
def strOfHex (s : String) : Option String := do
  let cs := s.toList
  let rec go (cs : List Char) (acc : ByteArray) : Option ByteArray :=
    match cs with
    | [] => some acc
    | [_] => none
    | a :: b :: rest => do
      let x ← hexVal a; let y ← hexVal b
      go rest (acc.push (UInt8.ofNat (x * 16 + y)))
  let bytes ← go cs ByteArray.empty
  String.fromUTF8? bytes

def hexOfStr (s : String) : String :=
  let bs := s.toUTF8
  String.ofList (bs.toList.foldr (fun b acc => hexDigit (b.toNat / 16) :: hexDigit (b.toNat % 16) :: acc) [])

def words (s : String) : List String :=
  (s.splitOn " ").filter (· ≠ "")

end EvyV.Util
