import EvyV.Model.ExprVM
import EvyV.Driver.FloatOps
import EvyV.Driver.Util
/- Driver component `exprvm`: expression (prefix wire form) → model bytecode, model VM result, evaluator result. -/
namespace EvyV.ExprDrv
open EvyV EvyV.ExprVM EvyV.Util

partial def parseE : List String → Option (E Float × List String)
  | "n" :: h :: rest => (floatOfHex h).map (fun f => (E.num f, rest))
  | "t" :: rest => some (E.bool true, rest)
  | "f" :: rest => some (E.bool false, rest)
  | "g" :: i :: rest => i.toNat?.map (fun i => (E.glob i, rest))
  | "neg" :: rest => (parseE rest).map (fun (e, r) => (E.neg e, r))
  | "not" :: rest => (parseE rest).map (fun (e, r) => (E.not e, r))
  | "grp" :: rest => (parseE rest).map (fun (e, r) => (E.group e, r))
  | "bin" :: op :: rest =>
    let o : Option BinOp := match op with
      | "+" => some .add | "-" => some .sub | "*" => some .mul | "/" => some .div
      | "<" => some .lt | "<=" => some .le | ">" => some .gt | ">=" => some .ge
      | "==" => some .eq | "!=" => some .ne | _ => none
    match o, parseE rest with
    | some o, some (l, r1) => match parseE r1 with
      | some (r, r2) => some (E.bin o l r, r2)
      | none => none
    | _, _ => none
  | _ => none

def showV : V Float → String
  | .num n => "n" ++ hexOfFloat n
  | .bool true => "t"
  | .bool false => "f"

def showI : I Float → String
  | .const n => "OpConstant:" ++ hexOfFloat n | .tru => "OpTrue" | .fals => "OpFalse" | .getGlobal i => s!"OpGetGlobal:{i}"
  | .minus => "OpMinus" | .not => "OpNot" | .add => "OpAdd" | .sub => "OpSubtract" | .mul => "OpMultiply" | .div => "OpDivide"
  | .lt => "OpNumLessThan" | .le => "OpNumLessThanEqual" | .gt => "OpNumGreaterThan" | .ge => "OpNumGreaterThanEqual"
  | .equal => "OpEqual" | .notEqual => "OpNotEqual"

def parseGlobals : List String → List (V Float)
  | [] => []
  | "t" :: r => .bool true :: parseGlobals r
  | "f" :: r => .bool false :: parseGlobals r
  | h :: r => match floatOfHex h with | some f => .num f :: parseGlobals r | none => parseGlobals r

/-- request: `exprvm <globals…> | <expr…>` -/
def handle (ws : List String) : String :=
  let gs := ws.takeWhile (· ≠ "|")
  let es := (ws.dropWhile (· ≠ "|")).drop 1
  let g := parseGlobals gs
  match parseE es with
  | some (e, []) =>
    let code := compileE e
    let vm := match vmExec floatOps g code [] with
      | .ok [v] => showV v
      | .ok _ => "badstack"
      | .error .divZero => "divzero"
      | .error .typeOrUnderflow => "typeerror"
    let ev := match evalE floatOps g e with | some v => showV v | none => "none"
    "code=" ++ ",".intercalate (code.map showI) ++ " vm=" ++ vm ++ " eval=" ++ ev
  | _ => "ERR parse"

end EvyV.ExprDrv
