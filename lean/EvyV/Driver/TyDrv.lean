import EvyV.Model.Types
import EvyV.Driver.Util
/-
Driver component `ty`: the type relations of Model/Types.lean.
request : ty <query> ; <query> ; ...   with query = accepts A B | matches A B | equals A B | infer A |
          fixed A | concat A B | combine A B C ...
type wire: n s b a z E M G H, `[f`/`[l` + sub for a Fixed / literal array, `{f`/`{l` + sub for maps
answer  : one word per query (t / f / a type / ERR)
-/
namespace EvyV.TyDrv
open EvyV.Types

partial def parseTy (cs : List Char) : Option (Ty × List Char) :=
  match cs with
  | 'n' :: r => some (.num, r) | 's' :: r => some (.str, r) | 'b' :: r => some (.bool, r)
  | 'a' :: r => some (.any, r) | 'z' :: r => some (.none, r)
  | 'E' :: r => some (.emptyArr, r) | 'M' :: r => some (.emptyMap, r)
  | 'G' :: r => some (.genArr, r) | 'H' :: r => some (.genMap, r)
  | '[' :: f :: r => do let (s, r') ← parseTy r; pure (.arr (f == 'f') s, r')
  | '{' :: f :: r => do let (s, r') ← parseTy r; pure (.map (f == 'f') s, r')
  | _ => none

def ty? (w : String) : Option Ty :=
  match parseTy w.toList with
  | some (t, []) => some t
  | _ => none

def showTy : Ty → String
  | .num => "n" | .str => "s" | .bool => "b" | .any => "a" | .none => "z"
  | .emptyArr => "E" | .emptyMap => "M" | .genArr => "G" | .genMap => "H"
  | .arr f s => (if f then "[f" else "[l") ++ showTy s
  | .map f s => (if f then "{f" else "{l") ++ showTy s

def tf (b : Bool) : String := if b then "t" else "f"

def query (ws : List String) : String :=
  match ws with
  | ["accepts", a, b] => match ty? a, ty? b with | some a, some b => tf (a.accepts b) | _, _ => "ERR"
  | ["matches", a, b] => match ty? a, ty? b with | some a, some b => tf (a.matchesT b) | _, _ => "ERR"
  | ["equals", a, b] => match ty? a, ty? b with | some a, some b => tf (a.equals b) | _, _ => "ERR"
  | ["concat", a, b] => match ty? a, ty? b with | some a, some b => showTy (a.concatType b) | _, _ => "ERR"
  | ["infer", a] => match ty? a with | some a => showTy a.infer | _ => "ERR"
  | ["fixed", a] => match ty? a with | some a => showTy a.fixedType | _ => "ERR"
  | ["str", a] => match ty? a with | some a => a.toStr | _ => "ERR"
  | ["bin", op, a, b] =>
    let o : Option BinOp := match op with
      | "+" => some .plus | "-" => some .minus | "*" => some .star | "/" => some .slash | "%" => some .percent
      | "<" => some .lt | ">" => some .gt | "<=" => some .le | ">=" => some .ge | "==" => some .eq | "!=" => some .ne
      | "and" => some .and | "or" => some .or | _ => none
    match o, ty? a, ty? b with
    | some o, some a, some b => match binType o a b with | some t => showTy t | none => "reject"
    | _, _, _ => "ERR"
  | ["un", op, a] =>
    match ty? a with
    | some a => match unType (if op == "-" then .neg else .not) a with | some t => showTy t | none => "reject"
    | none => "ERR"
  | ["cond", a] => match ty? a with | some a => tf (condOk a) | none => "ERR"
  | ["range", a] => match ty? a with | some a => (match rangeVar a with | some t => showTy t | none => "reject") | none => "ERR"
  | ["index", a, b] => match ty? a, ty? b with
    | some a, some b => (match indexType a b with | some t => showTy t | none => "reject") | _, _ => "ERR"
  | ["slice", a] => match ty? a with | some a => (match sliceType a with | some t => showTy t | none => "reject") | none => "ERR"
  | ["dot", a] => match ty? a with | some a => (match dotType a with | some t => showTy t | none => "reject") | none => "ERR"
  | ["assert", a, b] => match ty? a, ty? b with
    | some a, some b => (match assertType a b with | some t => showTy t | none => "reject") | _, _ => "ERR"
  | "combine" :: rest => match rest.mapM ty? with | some l => showTy (Ty.combineTypes l) | none => "ERR"
  | _ => "ERR"

def splitQ (ws : List String) : List (List String) :=
  let rec go (ws : List String) (cur : List String) (acc : List (List String)) : List (List String) :=
    match ws with
    | [] => (if cur.isEmpty then acc else cur.reverse :: acc).reverse
    | ";" :: rest => go rest [] (if cur.isEmpty then acc else cur.reverse :: acc)
    | w :: rest => go rest (w :: cur) acc
  go ws [] []

def handle (ws : List String) : String := " ".intercalate ((splitQ ws).map query)

end EvyV.TyDrv
