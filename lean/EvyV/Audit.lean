import Lean
/-
Audit: for a Props module, list every theorem declared in it together with the
axioms it depends on, as JSON lines on stdout. Used by bin/check on every run:
  lake env lean --run EvyV/Audit.lean EvyV.Props.C11
-/
open Lean

def auditModule (modName : Name) : IO UInt32 := do
  initSearchPath (← findSysroot)
  let env ← importModules #[{ module := modName }] {} (loadExts := false)
  let some idx := env.getModuleIdx? modName
    | IO.eprintln s!"module {modName} not found"; return 2
  let mut out : Array String := #[]
  let names := env.header.moduleData[idx.toNat]!.constNames
  for n in names do
    if n.isInternal then continue
    match env.find? n with
    | some (.thmInfo _) =>
      let (arr, _) ← (Lean.collectAxioms n : CoreM (Array Name)).toIO { fileName := "", fileMap := default } { env := env }
      let axs := arr.toList.map (fun a => "\"" ++ toString a ++ "\"")
      out := out.push ("{\"theorem\": \"" ++ toString n ++ "\", \"axioms\": [" ++ ", ".intercalate axs ++ "]}")
    | _ => pure ()
  for l in out do IO.println l
  return 0

def main (args : List String) : IO UInt32 := do
  match args with
  | [m] => auditModule m.toName
  | _ => IO.eprintln "usage: Audit <module>"; return 2
