-- This module serves as the root of the `EvyV` library.
-- Import modules here that should be built as part of the library.
import EvyV.Basic
