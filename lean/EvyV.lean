-- Root of the `EvyV` library: the property theorem files (which import the models, specs,
-- lemmas and the regenerated facts under EvyV/Gen).
import EvyV.Props.C01
import EvyV.Props.C01Pratt
import EvyV.Props.C02
import EvyV.Props.C02Sound
import EvyV.Props.C02Stmt
import EvyV.Props.C02Full
import EvyV.Props.C02Example
import EvyV.Props.C03
import EvyV.Props.C04
import EvyV.Props.C05
import EvyV.Props.C06
import EvyV.Props.C07
import EvyV.Props.C08
import EvyV.Props.C09
import EvyV.Props.C10
import EvyV.Props.C11
import EvyV.Props.C12
import EvyV.Props.C13
import EvyV.Props.C14
import EvyV.Props.C15
import EvyV.Props.C16
import EvyV.Props.C17
import EvyV.Props.C17Sym
import EvyV.Props.C18
import EvyV.Props.C19
import EvyV.Props.C20
